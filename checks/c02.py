"""C02  Multithreaded stepping is bit-identical to single-threaded (DESIGN.md §5.C02)."""
import concurrent.futures as cf
import hashlib
import json
import os
import re
import subprocess
import sys
import time

from . import common

sys.path.insert(0, common.VERIF)
from gen.models import ModelGen, fmt, unit_quat  # noqa: E402
from gen.enums import E  # noqa: E402

# this check never reads lean/MjProof/Gen: no generated-code lock needed
USES_GEN = False

META = {
    "technique": "Lean 4 proof (interference-freedom invariant over all assignments and step-level interleavings of a "
                 "footprint-respecting task batch; arithmetic of the chunk / batch / island-block index sets) + index "
                 "arithmetic extracted from the source and compared with the model + replay of observed pool "
                 "schedules in the model + bitwise comparison of every mjData result of the real engine with and "
                 "without a pool under controlled and noisy schedules",
    "text": "Model: a batch of small-step task bodies over a shared memory, each with a read set, a write set and "
            "context-dependent scratch (thread id -> per-thread CCD buffer, addresses of the stack blocks reserved "
            "under d->threadlock); pool threads own ordered lists of (task, context) and their steps interleave "
            "arbitrarily.  Proved for every batch, every well-formed assignment, every interleaving: if the bodies "
            "respect pairwise non-conflicting footprints (no write-write / read-write overlap; scratch of concurrently "
            "running tasks disjoint; results independent of the context), any two complete executions agree on every "
            "non-scratch location; the pooled result equals the pool-less loop, which terminates whenever the pooled "
            "run does.  The well-formedness of assignments is what C03's exactly_once gives (imported).  Instances "
            "proved: the narrow-phase chunks [chunk*i, chunk*i + min(chunk, npair - chunk*i)) as the code computes "
            "them are pairwise disjoint, non-empty, cover [0,npair) and enumerate it in order, so the pool-size "
            "dependent chunking does not change the sequential result; contact slots (prefix sums of mj_maxContact) "
            "and per-thread CCD buffers are disjoint; tactile taxel batches are disjoint, cover the taxels, at most "
            "one per thread, forcesT cells of different taxels differ; island blocks and the rows / dofs reached "
            "through the island maps are disjoint (from C17's MapsSpec, imported); stack blocks reserved under the "
            "thread lock are disjoint for every interleaving (C19, imported).  Tie: (i) the chunk / batch statements "
            "are extracted from engine_collision_driver.c / engine_sensor.c on every run, compiled, and compared "
            "with the Lean functions over an exhaustive small scope and random large sizes; the dispatch call sites "
            "and loop headers the model relies on must be present; (ii) batches of toy tasks (racy ones included) "
            "are dispatched through the unmodified engine_thread.cc under C03's controlled scheduler with a "
            "scheduling point before every micro-step, and the observed assignment + step schedule replayed in the "
            "Lean model must give the same final memory.  Oracle: generated models with many constraint islands, "
            "many collision pairs, tactile sensors; mj_forward / mj_step / mj_inverse programs; pools of 1,2,3,4,8 "
            "workers under the library's own dispatcher, under seeded yield / sleep noise, and under seeded "
            "controlled schedules (task-granularity interleavings: starving, bursty, reversed, one-worker-hog); "
            "every mjData array, contact member, size, solver statistic and warning counter compared bitwise with "
            "the pool-less run.",
    "note": "_partial: that collisionTask / solveIslandTask / tactileTask (and everything they call) respect the stated "
            "footprints is a hypothesis of the three site theorems, hand-stated from the source and validated only by "
            "the oracle.  The clause 'the data race detector finds no unsynchronized access' is NOT claimed by any "
            "theorem (C++ data races are undefined behaviour, outside the interleaving model); a ThreadSanitizer build "
            "of the whole tree is run in the thorough tier as supporting evidence only.  Not compared (bookkeeping of "
            "the memory / timing machinery, documented to differ): maxuse_stack, maxuse_arena (the shared stack is not "
            "popped while the thread lock is held), timer, threadpool.  The arena must be large enough for the "
            "pooled run (which frees no stack inside a dispatch); generated models get 64-256 MB.",
}

THEOREMS = [
    "MjProof.C02.dispatch_schedule_independent",
    "MjProof.C02.pool_eq_sequential",
    "MjProof.C02.sequential_exists",
    "MjProof.C02.wellFormed_of_execBy",
    "MjProof.C02.pool_assignment_wellformed",
    "MjProof.C02.chunkSize_ge",
    "MjProof.C02.numChunk_covers",
    "MjProof.C02.chunks_nonempty",
    "MjProof.C02.chunks_disjoint",
    "MjProof.C02.chunks_within",
    "MjProof.C02.chunks_cover",
    "MjProof.C02.chunks_concat",
    "MjProof.C02.chunked_fold_eq",
    "MjProof.C02.narrowphase_chunking_irrelevant",
    "MjProof.C02.con_slots_disjoint",
    "MjProof.C02.epa_scratch_disjoint",
    "MjProof.C02.tactile_tasks_le_nthread",
    "MjProof.C02.tactile_slices_disjoint",
    "MjProof.C02.tactile_slices_cover",
    "MjProof.C02.tactile_slices_within",
    "MjProof.C02.forces_index_inj",
    "MjProof.C02.island_blocks_disjoint",
    "MjProof.C02.island_members_disjoint",
    "MjProof.C02.mj_island_blocks_disjoint",
    "MjProof.C02.stack_shards_disjoint",
    "MjProof.C02.site_nonconflict",
    "MjProof.C02.site_schedule_independent",
    "MjProof.C02.narrowphase_schedule_independent_partial",
    "MjProof.C02.tactile_schedule_independent_partial",
    "MjProof.C02.island_schedule_independent_partial",
    "MjProof.C02.ex_respects",
]

SRC = lambda *p: os.path.join(common.REPO, "src", "engine", *p)  # noqa: E731
STYLES = ("uniform", "starve-main", "favour-main", "hog", "bursty", "reverse")


# ------------------------------------------------------------------------------------------ T(i): extraction

def _norm(s):
    return re.sub(r"\s+", " ", s).strip()


def _func_body(text, header_re):
    """Text of the function whose header matches header_re (brace matching), or None."""
    m = re.search(header_re, text)
    if not m:
        return None
    i = text.find("{", m.end() - 1)
    if i < 0:
        return None
    depth, j = 0, i
    while j < len(text):
        if text[j] == "{":
            depth += 1
        elif text[j] == "}":
            depth -= 1
            if depth == 0:
                return text[i:j + 1]
        j += 1
    return None


def extract_sites(repo=None):
    """The statements of the tree that define the task index sets.  -> (dict, refusals)"""
    out, ref = {}, []

    def read(name):
        try:
            return open(SRC(name)).read()
        except OSError as e:
            ref.append("cannot read %s: %s" % (name, e))
            return ""

    def need(key, body, pattern, group=0, where=""):
        if body is None:
            ref.append("%s: function not found" % where)
            return None
        m = re.search(pattern, body)
        if not m:
            ref.append("%s: statement not found: /%s/" % (where, pattern))
            return None
        out[key] = _norm(m.group(group))
        return out[key]

    col = read("engine_collision_driver.c")
    task = _func_body(col, r"static\s+void\s+collisionTask\s*\(const mjModel\*\s*m,\s*mjData\*\s*d,\s*void\*\s*arg,\s*int\s+thread_id,\s*int\s+idx\)\s*\{")
    np_ = _func_body(col, r"static\s+void\s+mj_narrowphase\s*\(const mjModel\*\s*m,\s*mjData\*\s*d,\s*const mjcPair\*\s*buffer,\s*int\s+npair,\s*size_t\s+parena\)\s*\{")
    need("np.chunksize0", np_, r"int\s+chunksize\s*=\s*[^;]+;", where="mj_narrowphase")
    need("np.chunksize1", np_, r"\n\s*(chunksize\s*=\s*[^;]+;)", 1, where="mj_narrowphase")
    need("np.nchunk", np_, r"int\s+nchunk\s*=\s*[^;]+;", where="mj_narrowphase")
    need("np.nthread", np_, r"int\s+nthread\s*=\s*mju_numThread\s*\(\s*d\s*\)\s*;", where="mj_narrowphase")
    need("np.arg.npair", np_, r"arg\.npair\s*=\s*npair\s*;", where="mj_narrowphase")
    need("np.arg.chunksize", np_, r"arg\.chunksize\s*=\s*chunksize\s*;", where="mj_narrowphase")
    need("np.dispatch", np_, r"mju_dispatch\s*\(\s*m\s*,\s*d\s*,\s*collisionTask\s*,\s*&arg\s*,\s*nchunk\s*\)\s*;", where="mj_narrowphase")
    need("np.epabuffer", np_, r"arg\.epabuffer\s*=\s*mj_stackAllocByte\s*\(\s*d\s*,\s*ccd_size\s*\*\s*nthread\s*,[^;]*;", where="mj_narrowphase")
    need("np.conpos", np_, r"pairbuffer\[i\]\.conpos\s*=\s*maxcon\s*;", where="mj_narrowphase")
    need("np.maxcon", np_, r"maxcon\s*\+=\s*mj_maxContact\s*\([^;]*;", where="mj_narrowphase")
    need("task.chunksize", task, r"int\s+chunksize\s*=\s*conargs->chunksize\s*;", where="collisionTask")
    need("task.npair", task, r"int\s+npair\s*=\s*conargs->npair\s*;", where="collisionTask")
    need("task.globalidx", task, r"int\s+globalidx\s*=\s*[^;]+;", where="collisionTask")
    need("task.n", task, r"int\s+n\s*=\s*[^;]+;", where="collisionTask")
    need("task.pairoff", task, r"const\s+mjcPair\*\s*pair\s*=\s*conargs->pairbuffer\s*\+\s*([^;]+);", 1, where="collisionTask")
    need("task.nconoff", task, r"int\*\s*ncon\s*=\s*conargs->nconbuffer\s*\+\s*([^;]+);", 1, where="collisionTask")
    need("task.loop", task, r"for\s*\(\s*int\s+i\s*=\s*0\s*;\s*i\s*<\s*n\s*;\s*i\+\+\s*\)", where="collisionTask")
    need("task.write.ncon", task, r"ncon\[i\]\s*=\s*collision_func\s*\(\s*m\s*,\s*d\s*,\s*conbuffer\s*\+\s*conpos\s*,", where="collisionTask")
    need("task.conpos", task, r"int\s+conpos\s*=\s*pair\[i\]\.conpos\s*;", where="collisionTask")
    need("task.epa", task, r"mjc_setCCDBuffer\s*\(\s*epabuffer\s*\+\s*thread_id\s*\*\s*conargs->ccd_size\s*\)\s*;", where="collisionTask")

    sen = read("engine_sensor.c")
    batch = _func_body(sen, r"static\s+void\*\s*tactile_taxel_batch\s*\(const mjModel\*\s*m,\s*mjData\*\s*d,\s*void\*\s*args\)\s*\{")
    i0 = sen.find("case mjSENS_TACTILE:")
    tac = sen[i0:i0 + 6000] if i0 >= 0 else None
    need("tac.nthread", tac, r"int\s+nthread\s*=\s*mju_numThread\s*\(\s*d\s*\)\s*;", where="tactile case")
    need("tac.threshold", tac, r"const\s+int\s+kTactileParallelThreshold\s*=\s*(\d+)\s*;", 1, where="tactile case")
    need("tac.cond", tac, r"if\s*\(\s*nthread\s*>\s*0\s*&&\s*ncon\s*>=\s*kTactileParallelThreshold\s*\)", where="tactile case")
    need("tac.batch", tac, r"int\s+batch_size\s*=\s*[^;]+;", where="tactile case")
    need("tac.ntask", tac, r"int\s+ntask\s*=\s*[^;]+;", where="tactile case")
    need("tac.start", tac, r"task_args\[t\]\.start_taxel\s*=\s*([^;]+);", 1, where="tactile case")
    need("tac.end", tac, r"task_args\[t\]\.end_taxel\s*=\s*([^;]+);", 1, where="tactile case")
    need("tac.loop", tac, r"for\s*\(\s*int\s+t\s*=\s*0\s*;\s*t\s*<\s*ntask\s*;\s*t\+\+\s*\)", where="tactile case")
    need("tac.dispatch", tac, r"mju_dispatch\s*\(\s*m\s*,\s*d\s*,\s*tactileTask\s*,\s*task_args\s*,\s*ntask\s*\)\s*;", where="tactile case")
    need("batch.loop", batch, r"for\s*\(\s*int\s+j\s*=\s*t->start_taxel\s*;\s*j\s*<\s*t->end_taxel\s*;\s*j\+\+\s*\)", where="tactile_taxel_batch")
    need("batch.ncon", batch, r"int\s+ncon\s*=\s*m->mesh_vertnum\[mesh_id\]\s*;", where="tactile_taxel_batch")
    if batch is not None:
        idx = sorted(set(_norm(x) for x in re.findall(r"t->forcesT\[([^\]]+)\]", batch)))
        out["batch.forcesT"] = idx
        if idx != ["0*ncon + j", "1*ncon + j", "2*ncon + j"]:
            ref.append("tactile_taxel_batch: forcesT is indexed by %r, the model assumes ch*ncon + j" % (idx,))

    fwd = read("engine_forward.c")
    isl = _func_body(fwd, r"static\s+void\s+solveIslandTask\s*\(const mjModel\*\s*m,\s*mjData\*\s*d,\s*void\*\s*arg,\s*int\s+thread_id,\s*int\s+island\)\s*\{")
    if isl is None:
        ref.append("solveIslandTask: function not found")
    else:
        calls = sorted(set(re.findall(r"(mj_sol\w+_island)\s*\(\s*m\s*,\s*d\s*,\s*island\s*,", isl)))
        out["island.calls"] = calls
        if calls != ["mj_solCG_island", "mj_solNewton_island", "mj_solPGS_island"]:
            ref.append("solveIslandTask calls %r" % (calls,))
        if re.search(r"thread_id", isl[isl.find("{"):]):
            ref.append("solveIslandTask uses its thread id")
    nd = len(re.findall(r"mju_dispatch\s*\(\s*m\s*,\s*d\s*,\s*solveIslandTask\s*,\s*NULL\s*,\s*nisland\s*\)\s*;", fwd))
    out["island.dispatches"] = nd
    if nd != 2:
        ref.append("mj_fwdConstraint: %d dispatches of solveIslandTask over nisland tasks (model: 2)" % nd)
    # every dispatch site of the engine is one of the three modelled ones
    sites = []
    for f in sorted(os.listdir(SRC())):
        if f.endswith((".c", ".cc")) and f != "engine_thread.cc":
            try:
                txt = open(SRC(f)).read()
            except OSError:
                continue
            for m in re.finditer(r"mju_dispatch\s*\(\s*m\s*,\s*d\s*,\s*(\w+)", txt):
                sites.append((f, m.group(1)))
    out["dispatch.sites"] = sorted(set(sites))
    want = {("engine_collision_driver.c", "collisionTask"), ("engine_forward.c", "solveIslandTask"),
            ("engine_sensor.c", "tactileTask")}
    if set(sites) != want:
        ref.append("dispatch sites of the engine are %r, the model covers %r" % (sorted(set(sites)), sorted(want)))
    return out, ref


def chunks_c_source(ex):
    """A C program computing the index sets with the statements copied from the tree."""
    g = ex.get
    return r"""// generated by checks/c02.py: the statements marked [tree] are copied verbatim from src/engine
#include <stdio.h>
#include <stdlib.h>
#include <string.h>
#include <mujoco/mujoco.h>
#include <mujoco/mjmacro.h>
static int num(const char* s, long hi, long* out) {
  size_t n = strlen(s);
  if (n == 0 || n > 9) return 0;
  for (size_t i = 0; i < n; i++) if (s[i] < '0' || s[i] > '9') return 0;
  long v = atol(s);
  if (v > hi) return 0;
  *out = v;
  return 1;
}
static void chunks(int npair, int nthread) {
  %(c0)s   // [tree] mj_narrowphase
  %(c1)s   // [tree]
  %(nc)s   // [tree]
  printf("%%d %%d |", chunksize, nchunk);
  for (int idx = 0; idx < nchunk; idx++) {
    %(gi)s   // [tree] collisionTask
    %(n)s   // [tree]
    long pairoff = (%(po)s);   // [tree] pair = conargs->pairbuffer + …
    long nconoff = (%(no)s);   // [tree] ncon = conargs->nconbuffer + …
    if (pairoff != nconoff) printf(" pair/ncon-offset-mismatch");
    printf(" %%ld:%%d", pairoff, n);
  }
  printf("\n");
}
static void taxels(int ncon, int nthread) {
  %(tb)s   // [tree] tactile case of mj_computeSensorPos
  %(tn)s   // [tree]
  printf("%%d %%d |", batch_size, ntask);
  for (int t = 0; t < ntask; t++) {
    int start_taxel = (%(ts)s);   // [tree]
    int end_taxel = (%(te)s);   // [tree]
    printf(" %%d:%%d", start_taxel, end_taxel);
  }
  printf("\n");
}
int main(void) {
  static char line[1024];
  while (fgets(line, sizeof line, stdin)) {
    char* tok[8]; int n = 0; char* save;
    for (char* t = strtok_r(line, " \t\r\n", &save); t && n < 8; t = strtok_r(NULL, " \t\r\n", &save)) tok[n++] = t;
    long a, b;
    if (n == 3 && !strcmp(tok[0], "chunks") && num(tok[1], 100000000, &a) && num(tok[2], 4096, &b)) chunks((int)a, (int)b);
    else if (n == 3 && !strcmp(tok[0], "taxels") && num(tok[1], 100000000, &a) && num(tok[2], 4096, &b) && a > 0 && b > 0) taxels((int)a, (int)b);
    else printf("bad-op\n");
    fflush(stdout);
  }
  return 0;
}
""" % {"c0": g("np.chunksize0", "#error"), "c1": g("np.chunksize1", "#error"), "nc": g("np.nchunk", "#error"),
       "gi": g("task.globalidx", "#error"), "n": g("task.n", "#error"), "po": g("task.pairoff", "#error"),
       "no": g("task.nconoff", "#error"), "tb": g("tac.batch", "#error"), "tn": g("tac.ntask", "#error"),
       "ts": g("tac.start", "#error"), "te": g("tac.end", "#error")}


def arith_lines(ctx):
    rng = ctx.rng
    thorough = ctx.tier == "thorough"
    lines = []
    for npair in range(0, 700 if thorough else 330):
        for nt in (1, 2, 3, 4, 5, 9, 17) if thorough else (1, 2, 3, 5, 9):
            lines.append("chunks %d %d" % (npair, nt))
    for _ in range(4000 if thorough else 600):
        npair = rng.choice((rng.randint(0, 5000), rng.randint(0, 200000), 16 * rng.randint(0, 4000) + rng.choice((-1, 0, 1, 15, 16, 17))))
        lines.append("chunks %d %d" % (max(0, npair), rng.choice((0, 1, 2, 3, 4, 5, 8, 9, 16, 17, 33, rng.randint(1, 200)))))
    for ncon in list(range(1, 260 if thorough else 90)) + [999, 1000, 1001, 2562, 10242]:
        for nt in (1, 2, 3, 4, 5, 9, 17):
            lines.append("taxels %d %d" % (ncon, nt))
    for _ in range(2000 if thorough else 300):
        lines.append("taxels %d %d" % (rng.randint(1, 60000), rng.randint(1, 40)))
    lines += ["chunks 5", "chunks -1 2", "chunks 1 2 3", "taxels 0 3", "taxels 5 0", "chunks x 1", "frob", "chunks 1000000000 1",
              "taxels 12 99999"]
    return lines


def arith_oracle(line, out):
    """Oracle on the extracted code's own output: the index sets must be disjoint, ordered and cover [0,n)."""
    w = line.split()
    if out == "bad-op" or len(w) != 3:
        return None
    n = int(w[1])
    head, _, rest = out.partition("|")
    try:
        c, q = (int(x) for x in head.split())
        rs = [tuple(int(v) for v in r.split(":")) for r in rest.split()]
    except ValueError:
        return "unparsable index sets %r" % out[:100]
    if len(rs) != q:
        return "%d ranges for %d tasks" % (len(rs), q)
    pos = 0
    for lo, x in rs:
        hi = lo + x if w[0] == "chunks" else x
        if lo != pos or hi <= lo:
            return "task ranges overlap, leave a gap or are empty at %d (range %d..%d)" % (pos, lo, hi)
        pos = hi
    if pos != n:
        return "ranges cover [0,%d), expected [0,%d)" % (pos, n)
    if w[0] == "taxels" and q > int(w[2]):
        return "%d tactile tasks for %d threads" % (q, int(w[2]))
    return None


# ------------------------------------------------------------------------------------------ T(ii): toy batches

def toy_prog(rng, nmem_user, conflict):
    """One toy program.  conflict=False: task i reads input cells and writes only its own output cell."""
    ops = []
    for _ in range(rng.randint(1, 5)):
        r = rng.random()
        if r < 0.35:
            ops.append("r%d" % rng.randrange(nmem_user))
        elif r < 0.6:
            ops.append("w%d" % rng.randrange(nmem_user))
        elif r < 0.75:
            ops.append("a%d" % rng.randint(-9, 9))
        elif r < 0.8:
            ops.append("m%d" % rng.choice((-1, 2, 3)))
        elif r < 0.87:
            ops.append("t")
        elif r < 0.94:
            ops.append("sw")
        else:
            ops.append("sr")
    return ops


def toy_lines(ctx, count):
    rng = ctx.rng
    lines, meta = [], []
    for k in range(count):
        nthread = rng.choice((0, 1, 1, 2, 2, 3, 4, 6))
        ntask = rng.choice((0, 1, 2, 3, 4, 5, 6, 8, 12))
        nuser = rng.choice((2, 4, 8))
        scr = nuser
        nmem = scr + nthread + 1
        kind = rng.choice(("racy", "racy", "disjoint"))
        progs = []
        for i in range(ntask):
            if kind == "racy":
                p = toy_prog(rng, nuser, True)
                if sum(1 for o in p if o[0] == "m") > 1:
                    p = [o for o in p if o[0] != "m"] or ["a1"]
            else:
                # reads any input cell of the upper half, goes through the thread's scratch, writes its own cell only
                if i < nuser // 2:
                    src = nuser // 2 + rng.randrange(nuser - nuser // 2)
                    p = ["r%d" % src, "a%d" % rng.randint(1, 9), "sw", "a100", "sr", "w%d" % i]
                else:
                    p = ["a%d" % rng.randint(1, 9), "sw", "sr"]
            progs.append(p)
        if not progs:
            progs = [["-"]] if rng.random() < 0.5 else [["a1"]]
        text = " ; ".join(" ".join(p) for p in progs)
        lines.append("toy %d %d %s %d %d | %s" % (nthread, rng.randint(0, 10 ** 9), rng.choice(STYLES), nmem, scr, text))
        meta.append({"kind": kind, "nthread": nthread, "ntask": len(progs), "nmem": nmem, "scr": scr, "progs": text,
                     "nuser": nuser})
    return lines, meta


def toy_expected_disjoint(meta):
    """Sequential result of a `disjoint` batch on the user cells (what every schedule must produce)."""
    nuser = meta["nuser"]
    mem = [3 * l + 1 for l in range(nuser)]
    init = list(mem)
    for i, p in enumerate(meta["progs"].split(" ; ")):
        w = p.split()
        if i < nuser // 2 and w and w[0].startswith("r"):
            mem[i] = init[int(w[0][1:])] + int(w[1][1:])
    return mem


# ------------------------------------------------------------------------------------------ S: models

def piles_model(rng, thorough):
    """Single-geom free bodies dropped in clusters on a plane: one narrow-phase batch of many pairs, one island per
    cluster of touching bodies."""
    nb = rng.choice((18, 24, 30, 40, 40, 56, 80) if thorough else (18, 24, 30, 40))
    solver = rng.choice(("PGS", "CG", "NEWTON", "NEWTON"))
    cone = rng.choice(("PYRAMIDAL", "ELLIPTIC"))
    jac = rng.choice(("DENSE", "SPARSE", "AUTO"))
    L = ["option timestep %r" % rng.choice((0.002, 0.004, 0.001)),
         "option solver %d" % E("mjSOL_" + solver), "option cone %d" % E("mjCONE_" + cone),
         "option jacobian %d" % E("mjJAC_" + jac), "option iterations %d" % rng.choice((4, 10, 30)),
         "spec memory %d" % (256 << 20)]
    if rng.random() < 0.25:
        L.append("option noslip_iterations %d" % rng.choice((1, 3)))
    dis = 0
    if rng.random() < 0.15:
        dis |= E("mjDSBL_MULTICCD")
    if rng.random() < 0.15:
        dis |= E("mjDSBL_WARMSTART")
    if rng.random() < 0.1:
        dis |= E("mjDSBL_NATIVECCD")
    en = E("mjENBL_ENERGY") if rng.random() < 0.3 else 0
    L += ["option disableflags %d" % dis, "option enableflags %d" % en]
    h = [0]

    def nh():
        h[0] += 1
        return h[0]
    p = nh()
    L += ["geom %d 0" % p, "set %d type %d" % (p, E("mjGEOM_PLANE")), "set %d size 20 20 0.1" % p, "name %d floor" % p]
    ncl = rng.randint(2, 7)
    centers = [(rng.uniform(-6, 6), rng.uniform(-6, 6)) for _ in range(ncl)]
    spread = rng.choice((0.25, 0.4, 0.7))
    qpos = []
    types = rng.choice((("sphere", "capsule", "box", "ellipsoid", "cylinder"), ("sphere", "box"), ("ellipsoid", "cylinder", "capsule"),
                        ("box",), ("sphere",)))
    for i in range(nb):
        b = nh()
        L += ["body %d 0" % b, "name %d b%d" % (b, i)]
        j = nh()
        L += ["freejoint %d %d" % (j, b)]
        g = nh()
        gt = rng.choice(types)
        a, bb, c = (rng.uniform(0.08, 0.2) for _ in range(3))
        size = {"sphere": [a], "capsule": [a, bb], "cylinder": [a, bb], "ellipsoid": [a, bb, c], "box": [a, bb, c]}[gt]
        L += ["geom %d %d" % (g, b), "set %d type %d" % (g, E("mjGEOM_" + gt.upper())), "set %d size %s" % (g, fmt(size)),
              "set %d condim %d" % (g, rng.choice((1, 3, 3, 4, 6)))]
        if rng.random() < 0.2:
            L.append("set %d margin %r" % (g, rng.uniform(0.0, 0.03)))
        cx, cy = rng.choice(centers)
        qpos += [cx + rng.uniform(-spread, spread), cy + rng.uniform(-spread, spread), rng.uniform(0.05, 0.35)] + unit_quat(rng)
    state = {"qpos": qpos, "qvel": [rng.gauss(0, 0.5) for _ in range(6 * nb)]}
    info = {"kind": "piles", "nbody": nb, "solver": solver, "cone": cone, "jacobian": jac, "clusters": ncl}
    return L, state, info


def random_model(rng, thorough):
    prof = {"nbody": (6, 22) if thorough else (6, 16), "free": 0.8, "plane": 1.0, "mocap": 0.0, "static_body": 0.05,
            "sleep": 0.0, "islands": 0.9, "memory": 128 << 20, "keys": 0.0, "geoms": (1, 2), "equalities": 0.3,
            "tendons": 0.3, "frictionloss": 0.3, "limits": 0.4}
    mdl = ModelGen(rng, prof).make()
    st = mdl.random_state(rng)
    info = dict(kind="random", nbody=len(mdl.bodies), **{k: v for k, v in mdl.options.items() if k in ("solver", "cone", "jacobian", "integrator")})
    return list(mdl.lines), st, info


def tactile_model(rng, thorough):
    """A pad with a tactile sensor over a builtin sphere mesh (642 or 2562 taxels; >= 1000 takes the parallel path)."""
    L = ["option timestep 0.002", "spec memory %d" % (256 << 20),
         "option solver %d" % E("mjSOL_" + rng.choice(("PGS", "CG", "NEWTON"))),
         "option cone %d" % E("mjCONE_" + rng.choice(("PYRAMIDAL", "ELLIPTIC")))]
    h = [0]

    def nh():
        h[0] += 1
        return h[0]
    p = nh()
    L += ["geom %d 0" % p, "set %d type %d" % (p, E("mjGEOM_PLANE")), "set %d size 20 20 0.1" % p, "name %d floor" % p]
    npad = rng.choice((1, 1, 2))
    qpos, nfree = [], 0
    for k in range(npad):
        sub = rng.choice((4, 4, 4, 3))
        ms = nh()
        L += ["mesh %d" % ms, "name %d taxels%d" % (ms, k), "makemesh %d %d %d" % (ms, E("mjMESH_BUILTIN_SPHERE"), sub),
              "set %d scale %r %r 0.05" % (ms, rng.uniform(0.2, 0.35), rng.uniform(0.2, 0.35))]
        b = nh()
        px = 2.0 * k
        L += ["body %d 0" % b, "name %d pad%d" % (b, k), "set %d pos %r 0 0.1" % (b, px)]
        movable = rng.random() < 0.4
        if movable:
            j = nh()
            L += ["freejoint %d %d" % (j, b)]
            qpos += [px, 0.0, 0.1, 1.0, 0.0, 0.0, 0.0]
            nfree += 1
        g = nh()
        L += ["geom %d %d" % (g, b), "name %d padgeom%d" % (g, k), "set %d type %d" % (g, E("mjGEOM_BOX")),
              "set %d size 0.3 0.3 0.05" % g]
        for i in range(rng.randint(1, 4)):
            bb = nh()
            L += ["body %d 0" % bb, "name %d obj%d_%d" % (bb, k, i)]
            j = nh()
            L += ["freejoint %d %d" % (j, bb)]
            gg = nh()
            gt = rng.choice(("sphere", "capsule", "box", "ellipsoid"))
            a, c2, c3 = (rng.uniform(0.05, 0.1) for _ in range(3))
            size = {"sphere": [a], "capsule": [a, c2], "ellipsoid": [a, c2, c3], "box": [a, c2, c3]}[gt]
            L += ["geom %d %d" % (gg, bb), "set %d type %d" % (gg, E("mjGEOM_" + gt.upper())), "set %d size %s" % (gg, fmt(size))]
            qpos += [px + rng.uniform(-0.2, 0.2), rng.uniform(-0.2, 0.2), 0.15 + rng.uniform(0.02, 0.09)] + unit_quat(rng)
            nfree += 1
        s = nh()
        L += ["sensor %d" % s, "name %d touch%d" % (s, k), "set %d type %d" % (s, E("mjSENS_TACTILE")),
              "set %d objtype %d" % (s, E("mjOBJ_MESH")), "set %d objname taxels%d" % (s, k),
              "set %d reftype %d" % (s, E("mjOBJ_GEOM")), "set %d refname padgeom%d" % (s, k)]
    state = {"qpos": qpos, "qvel": [rng.gauss(0, 0.3) for _ in range(6 * nfree)]}
    return L, state, {"kind": "tactile", "pads": npad, "nbody": nfree}


PROGS = ("forward", "step3", "step2 forward", "forward inverse", "step2 inverse step2", "forward step3 inverse forward", "step6",
         "fwdpos step1")


def make_case(rng, kind, thorough, idx):
    L, st, info = {"piles": piles_model, "random": random_model, "tactile": tactile_model}[kind](rng, thorough)
    prog = rng.choice(PROGS)
    if kind == "tactile":
        prog = rng.choice(("forward", "step2 forward", "step3 inverse", "forward step2"))
    runs = []
    seeds = lambda: rng.randint(0, 10 ** 9)  # noqa: E731
    nsched = 40 if thorough else 24
    for nt in (0, 1, 2, 3, 4, 8):          # 0 = mju_threadpool(d, 0): no pool at all
        runs.append(("pass", nt, 0, "x"))
    for _ in range(max(3, nsched // 5)):
        runs.append(("free", rng.choice((1, 2, 3, 4, 8)), seeds(), "x"))
    for _ in range(nsched - len(runs)):
        runs.append(("ctrl", rng.choice((1, 2, 2, 3, 4, 4, 8)), seeds(), rng.choice(STYLES)))
    return {"idx": idx, "lines": L, "state": st, "prog": prog, "runs": runs, "info": info}


def case_text(case, plain=False):
    out = ["model"] + case["lines"] + ["end"]
    for k, v in case["state"].items():
        if v:
            out.append("state %s %s" % (k, " ".join(repr(float(x)) for x in v)))
    out += ["prog " + case["prog"], "base"]
    if plain:
        out += ["run plain %d 0 x" % nt for nt in (1, 2, 4, 8)]
    else:
        out += ["run %s %d %d %s" % r for r in case["runs"]]
    return out


def run_cases(exe, cases, plain, nproc, timeout, env=None):
    """Stream the cases through `nproc` harness processes.  -> per case: list of answer lines (None = no answer), stderr"""
    chunks = [cases[i::nproc] for i in range(nproc)]

    def one(ch):
        res = []
        todo = list(ch)
        while todo:
            text, sizes = [], []
            for c in todo:
                t = case_text(c, plain)
                sizes.append(len(t) - len(c["lines"]) - 1)   # answers: model, states…, prog, base, runs
                text += t
            try:
                r = subprocess.run([exe], input="\n".join(text) + "\n", capture_output=True, text=True, timeout=timeout, env=env)
                outs, err, rc = r.stdout.split("\n"), r.stderr, r.returncode
            except subprocess.TimeoutExpired as e:
                so = e.stdout.decode() if isinstance(e.stdout, bytes) else (e.stdout or "")
                outs, err, rc = so.split("\n"), "timeout", "timeout"
            if outs and outs[-1] == "":
                outs.pop()
            pos, done = 0, 0
            for c, n in zip(todo, sizes):
                got = outs[pos:pos + n]
                pos += n
                complete = len(got) == n
                res.append((c, got + [None] * (n - len(got)), err if not complete else "", rc if not complete else 0))
                done += 1
                if not complete:
                    break
            # a process that died on a case is restarted for the cases after it
            todo = todo[done:]
        return res

    with cf.ThreadPoolExecutor(max_workers=nproc) as ex:
        parts = list(ex.map(one, chunks))
    return [x for p in parts for x in p]


def judge(ctx, exe, case, answers, err, rc, plain, stats, seen):
    """Oracle on the implementation's answers of one case."""
    nstate = sum(1 for v in case["state"].values() if v)
    head = answers[:2 + nstate]            # model, states, prog
    base = answers[2 + nstate]
    runs = answers[3 + nstate:]
    runspec = [("plain", nt, 0, "x") for nt in (1, 2, 4, 8)] if plain else case["runs"]

    def replay(extra):
        return dict({"harness": exe, "input_lines": case_text(case, plain)[:4000], "info": case["info"], "prog": case["prog"],
                     "how": "feed input_lines to the harness on stdin; every `run` line must answer `same …`"}, **extra)

    def fail(key, what, extra):
        seen[key] = seen.get(key, 0) + 1
        if seen[key] <= 3:
            ctx.oracle_failure(key, what, replay(extra))
    if head[0] is None or not str(head[0]).startswith("ok"):
        stats["model_rejected"] = stats.get("model_rejected", 0) + 1
        if head[0] is None:
            fail("c02:crash", "harness died while compiling a model (rc=%s): %s" % (rc, err[-300:]), {})
        return
    if base is None or not base.startswith("base "):
        stats["base_error"] = stats.get("base_error", 0) + 1
        if base is None:
            fail("c02:crash", "harness died in the pool-less run (rc=%s): %s" % (rc, err[-300:]), {})
        return
    kv = dict(x.split("=") for x in base.split()[1:])
    bh = kv["h"]
    if not plain:
        for k in ("ncon", "nefc", "nisland", "multi", "maxtask"):
            stats.setdefault(k, []).append(int(kv[k]))
    nontrivial = plain or int(kv.get("multi", 1)) > 0
    for spec, a in zip(runspec, runs):
        line = "run %s %d %d %s" % spec
        if a is None:
            kind = "hang" if (rc == "timeout" or "WATCHDOG" in (err or "")) else "crash"
            fail("c02:" + kind, "pooled run `%s` gave no answer (rc=%s): %s" % (line, rc, (err or "")[-300:]), {"run": line})
            break
        ctx.count((case["idx"], plain, spec), nontrivial=nontrivial)
        stats["runs"] = stats.get("runs", 0) + 1
        if a.startswith("same "):
            rk = dict(x.split("=") for x in a.split()[1:])
            if rk["h"] != bh:
                fail("c02:hash-mismatch", "run reports `same` with a different hash", {"run": line, "answer": a, "base": base})
            if not plain:
                for k in ("pooled", "tasks", "byworker", "inv", "ev"):
                    stats["sum_" + k] = stats.get("sum_" + k, 0) + int(rk[k])
                stats.setdefault("mode_" + spec[0], [0, 0])
                stats["mode_" + spec[0]][0] += 1
                stats["mode_" + spec[0]][1] += 1 if int(rk["pooled"]) > 0 else 0
        elif a.startswith("diff "):
            m = re.search(r"field=(\S+)", a)
            fld = m.group(1) if m else "?"
            fail("c02:pool-run-differs-from-poolless:" + fld,
                 "with a pool of %d workers (%s schedule) %s" % (spec[1], spec[0] + ("/" + spec[3] if spec[0] == "ctrl" else ""), a[:600]),
                 {"run": line, "answer": a[:1500], "base": base})
        elif a.startswith("error "):
            fail("c02:pool-run-error", "pooled run `%s` raised an engine error the pool-less run did not: %s" % (line, a[:400]),
                 {"run": line, "answer": a[:600], "base": base})
            break
        else:
            fail("c02:bad-answer", "unexpected answer %r" % a[:200], {"run": line})
    if base and len(ctx.samples) < 4 and not plain and runs and runs[0]:
        ctx.sample({"model": case["info"], "prog": case["prog"], "base": base, "first_run": "run %s %d %d %s" % runspec[0], "answer": runs[0][:200]})


def kinds_for(tier):
    if tier == "thorough":
        return ["piles"] * 170 + ["random"] * 90 + ["tactile"] * 40
    return ["piles"] * 11 + ["random"] * 5 + ["tactile"] * 4


# ------------------------------------------------------------------------------------------ the check

def run(ctx):
    thorough = ctx.tier == "thorough"
    rng = ctx.rng
    ctx.rule = ("(model, initial state, program of mj_forward / mj_step / mj_inverse calls) x (pool size, scheduler mode, seed): "
                "piles of single-geom free bodies in clusters on a plane (one big narrow-phase batch, one island per cluster), "
                "random articulated models from gen/models.py, pads with tactile sensors over 642 / 2562-taxel meshes; pools of "
                "1,2,3,4,8 workers under the plain dispatcher, seeded yield/sleep noise and seeded controlled schedules; a case "
                "is distinct by (model index, run spec); non-trivial = the program dispatches at least one batch of >= 2 tasks. "
                "Plus op lines `chunks n t` / `taxels n t` (exhaustive small scope + random) and `toy` batches (T).")
    stage, t0 = {}, [time.time()]

    def lap(name):
        stage[name] = round(time.time() - t0[0], 2)
        t0[0] = time.time()
        ctx.extra["stage_seconds"] = stage

    ctx.lean_props(THEOREMS)
    lap("lean_props")
    drv = ctx.driver("drv_c02")
    lap("driver_build")
    deps = ["harness/cc/c03_sched_shim.h", "harness/mjbuild.h", SRC("engine_thread.cc")]
    impl = ctx.harness("harness/cc/c02_threads.cc", "c02_threads", deps=deps)
    plain = ctx.harness("harness/cc/c02_threads.cc", "c02_threads_plain", extra=("-DC02_PLAIN",), deps=["harness/mjbuild.h"])
    lap("harness_build")

    # ---- T(i): index arithmetic extracted from the tree vs the Lean functions
    ex, refusals = extract_sites()
    ctx.extra["extracted_statements"] = {k: v for k, v in ex.items() if isinstance(v, str)}
    ctx.extra["dispatch_sites"] = ex.get("dispatch.sites")
    ctx.oblige("dispatch sites, loop headers and index statements the model relies on are present in the tree (%d items)" % len(ex),
               "translator", not refusals, "; ".join(refusals))
    arith = None
    if not any(k not in ex for k in ("np.chunksize0", "np.chunksize1", "np.nchunk", "task.globalidx", "task.n", "task.pairoff",
                                     "task.nconoff", "tac.batch", "tac.ntask", "tac.start", "tac.end")):
        src = chunks_c_source(ex)
        gdir = os.path.join(common.CACHE, "c02")
        os.makedirs(gdir, exist_ok=True)
        gp = os.path.join(gdir, "chunks_%s.c" % hashlib.sha256(src.encode()).hexdigest()[:16])
        if not os.path.exists(gp):
            with open(gp + ".%d.tmp" % os.getpid(), "w") as f:
                f.write(src)
            os.replace(gp + ".%d.tmp" % os.getpid(), gp)
        arith = ctx.harness(gp, "c02_chunks")
    alines = arith_lines(ctx)
    if drv and arith:
        ctx.differential("chunk / taxel-batch index sets: statements extracted from the tree vs Model/Dispatch.lean",
                         [drv], [arith], alines, keyf=lambda l: l if l.split()[0] in ("chunks", "taxels") and len(l.split()) == 3 else None)
        rc, outs, err = ctx.run_lines([arith], alines)
        nbad = 0
        for l, o in zip(alines, outs):
            why = arith_oracle(l, o)
            if why:
                nbad += 1
                if nbad <= 3:
                    ctx.oracle_failure("c02:index-sets-not-a-partition", "%s -> %s" % (l, why),
                                       {"line": l, "output_of_extracted_code": o[:500], "source": gp})
        ctx.extra["arith_lines"] = len(alines)
    lap("arith")

    # ---- T(ii): toy batches through the real dispatcher, replayed in the model
    if drv and impl:
        tl, tmeta = toy_lines(ctx, 1500 if thorough else 260)
        rc, touts, terr = ctx.run_lines([impl], tl, timeout=1200)
        if rc != 0 or len(touts) != len(tl):
            ctx.oracle_failure("c02:crash", "harness died on a toy batch (rc=%s): %s" % (rc, terr[-300:]),
                               {"line": tl[min(len(touts), len(tl) - 1)], "harness": impl})
        else:
            elines, expect, nsteps, ndisj = [], [], 0, 0
            for l, mt, o in zip(tl, tmeta, touts):
                if not o.startswith("asg"):
                    ctx.oracle_failure("c02:toy-run-error", "toy batch failed on the real dispatcher: %s" % o[:300], {"line": l, "harness": impl})
                    continue
                asg, sched, mem = (x.strip() for x in o.split("|"))
                elines.append("exec %d %d | %s | %s | %s" % (mt["nmem"], mt["scr"], mt["progs"], asg[3:].strip(), sched[5:].strip()))
                expect.append(mem + " | term 1")
                nsteps += len(sched.split(","))
                # oracle on the real pool alone: every id claimed exactly once; footprint-disjoint batches are schedule independent
                ids = sorted(int(x) for e in asg[3:].split() for x in e.split(":")[1].split(",") if x)
                if ids != list(range(mt["ntask"])):
                    ctx.oracle_failure("c02:toy-task-lost-or-duplicated", "claimed ids %r for a batch of %d" % (ids, mt["ntask"]), {"line": l, "answer": o[:500]})
                if mt["kind"] == "disjoint":
                    ndisj += 1
                    got = [int(x) for x in mem.split()[1:1 + mt["nuser"]]]
                    if got != toy_expected_disjoint(mt):
                        ctx.oracle_failure("c02:toy-disjoint-batch-schedule-dependent",
                                           "footprint-disjoint toy batch gave %r, sequential result %r" % (got, toy_expected_disjoint(mt)),
                                           {"line": l, "answer": o[:800], "harness": impl})
            ipath = os.path.join(common.CACHE, "c02", "toy_%s_%d_%d.out" % (ctx.tier, ctx.seed, os.getpid()))
            with open(ipath, "w") as f:
                f.write("".join(x + "\n" for x in expect))
            try:
                ctx.differential("toy batches: final memory of the real pool under the controlled scheduler vs Lean exec on the observed assignment + step schedule",
                                 [drv], ["cat", ipath], elines, keyf=lambda l: l)
            finally:
                try:
                    os.remove(ipath)
                except OSError:
                    pass
            ctx.extra["toy_batches"] = {"count": len(tl), "footprint_disjoint": ndisj, "model_steps_replayed": nsteps}
            if elines:
                ctx.sample({"toy": tl[0][:200], "real_pool": touts[0][:300], "lean_replay_line": elines[0][:300]})
    lap("toy")
    if not (impl and plain):
        return

    # ---- S: the real engine with and without a pool
    kinds = kinds_for(ctx.tier)
    cases = [make_case(rng, k, thorough, i) for i, k in enumerate(kinds)]
    recorded = []
    if getattr(ctx, "replay", None):
        try:
            rp = json.load(open(ctx.replay))
            for f in rp.get("failures", []):
                il = f.get("replay", {}).get("input_lines")
                if il:
                    recorded.append(il)
        except (OSError, ValueError, KeyError, TypeError):
            recorded = []
    for il in recorded[:5]:
        r = subprocess.run([impl if not any(x.startswith("run plain") for x in il) else plain], input="\n".join(il) + "\n",
                           capture_output=True, text=True, timeout=900)
        print("REPLAY answers: " + " | ".join(x for x in r.stdout.split("\n") if x and x != "ok")[:3000])
    lap("generate")
    stats, seen = {}, {}
    nproc = 8 if thorough else 6
    res = run_cases(impl, cases, False, nproc, 3000 if thorough else 600)
    lap("engine_runs_shim")
    for c, answers, err, rc in res:
        judge(ctx, impl, c, answers, err, rc, False, stats, seen)
    pstats = {}
    res2 = run_cases(plain, cases[:: (3 if thorough else 2)], True, nproc, 3000 if thorough else 600)
    lap("engine_runs_plain")
    for c, answers, err, rc in res2:
        judge(ctx, plain, c, answers, err, rc, True, pstats, seen)

    def dist(v):
        v = sorted(v)
        return {"min": v[0], "median": v[len(v) // 2], "max": v[-1]} if v else {}
    ctx.extra["models"] = {"count": len(cases), "by_kind": {k: kinds.count(k) for k in sorted(set(kinds))},
                           "by_solver": {}, "programs": {}}
    for c in cases:
        s = c["info"].get("solver", "?")
        ctx.extra["models"]["by_solver"][s] = ctx.extra["models"]["by_solver"].get(s, 0) + 1
        ctx.extra["models"]["programs"][c["prog"]] = ctx.extra["models"]["programs"].get(c["prog"], 0) + 1
    ctx.extra["poolless_runs"] = {k: dist(stats.get(k, [])) for k in ("ncon", "nefc", "nisland", "multi", "maxtask")}
    ctx.extra["pooled_runs"] = {"runs": stats.get("runs", 0), "plain_library_runs": pstats.get("runs", 0),
                                "by_mode[runs, runs with a pooled dispatch]": {k[5:]: v for k, v in stats.items() if k.startswith("mode_")},
                                "pooled_dispatches": stats.get("sum_pooled", 0), "tasks": stats.get("sum_tasks", 0),
                                "tasks_run_by_workers": stats.get("sum_byworker", 0),
                                "task_order_inversions": stats.get("sum_inv", 0), "scheduler_steps": stats.get("sum_ev", 0),
                                "models_rejected": stats.get("model_rejected", 0), "poolless_errors": stats.get("base_error", 0)}
    ctx.extra["oracle_failures"] = seen
    ctx.extra["compared"] = ("every MJDATA_POINTERS / MJDATA_ARENA_POINTERS array, every mjContact member, ncon ne nf nl nefc nJ nA nY "
                             "nisland nidof n*_awake flags maxuse_con maxuse_efc pstack pbase parena time energy solver[] solver_niter "
                             "solver_nnz solver_fwdinv warning[] - bitwise")

    # ---- thorough: ThreadSanitizer build of the whole tree (supporting evidence only; the clause is not claimed)
    if thorough:
        try:
            common.build.VARIANTS["tsan"] = ["-O1", "-g", "-fsanitize=thread"]
            texe = ctx.harness("harness/cc/c02_threads.cc", "c02_threads_tsan", variant="tsan", extra=("-DC02_PLAIN",),
                               deps=["harness/mjbuild.h"])
            lap("tsan_build")
            if texe:
                sub = ([c for c in cases if c["info"]["kind"] == "piles"][:8] + [c for c in cases if c["info"]["kind"] == "tactile"][:3] +
                       [c for c in cases if c["info"]["kind"] == "random"][:4])
                env = dict(os.environ, TSAN_OPTIONS="halt_on_error=0 report_signal_unsafe=0 exitcode=0")

                def tsan_one(c):
                    txt = case_text(c, True)
                    n = len(txt) - len(c["lines"]) - 1
                    try:
                        r = subprocess.run([texe], input="\n".join(txt) + "\n", capture_output=True, text=True, timeout=2400, env=env)
                        outs, err, rc = r.stdout.split("\n"), r.stderr, r.returncode
                    except subprocess.TimeoutExpired:
                        outs, err, rc = [], "timeout", "timeout"
                    if outs and outs[-1] == "":
                        outs.pop()
                    return c, (outs + [None] * n)[:n], err, rc

                with cf.ThreadPoolExecutor(max_workers=3) as exr:
                    rs = list(exr.map(tsan_one, sub))
                tstats, nrep, first = {}, 0, []
                for c, answers, err, rc in rs:
                    # the sanitizer build is one more build of the real engine: its results are judged like every other run
                    judge(ctx, texe, c, answers, err if any(a is None for a in answers) else "", rc, True, tstats, seen)
                    nrep += len(re.findall(r"WARNING: ThreadSanitizer", err))
                    first += [" / ".join(x)[:300] for x in
                              re.findall(r"WARNING: ThreadSanitizer: ([^\n]*)\n(?:.*\n){0,12}?\s+#0 ([^\n]*)", err)][:3]
                ctx.extra["tsan_supporting_evidence"] = {
                    "models": len(sub), "pooled_runs_compared_bitwise": tstats.get("runs", 0), "reports": nrep,
                    "first_reports": first[:6],
                    "note": "the race-detector clause is not claimed by any theorem; a report here is recorded, it does not by "
                            "itself decide the verdict (a result that differs from the pool-less run does)"}
        except Exception as e:  # the supporting run must never decide the verdict by failing itself
            ctx.extra["tsan_supporting_evidence"] = {"error": repr(e)[:300]}
        lap("tsan")

    def directed(ctx2):
        """A proof / tie obligation broke but the oracle saw nothing: search harder on the real engine alone."""
        r2 = ctx2.rng
        more = [make_case(r2, k, True, 10000 + i) for i, k in enumerate(["piles"] * 24 + ["tactile"] * 8 + ["random"] * 8)]
        st2, seen2 = {}, {}
        before = len(ctx2.oracle_failures)
        for c, answers, err, rc in run_cases(impl, more, False, 6, 1500):
            judge(ctx2, impl, c, answers, err, rc, False, st2, seen2)
        new = ctx2.oracle_failures[before:]
        del ctx2.oracle_failures[before:]
        if new:
            return {"key": new[0]["key"], "what": new[0]["what"], "replay": new[0]["replay"]}
        return None

    ctx.directed_search = directed
    if thorough:
        ctx.leanchecker(["MjProof.Props.C02"])
        lap("leanchecker")
