"""C08  Conservative systems conserve energy and momentum (DESIGN.md §5.C08).

P  lean/MjProof/Props/C08.lean: kinetic_eq_half_vMv (+ mulM / fullM lemmas) over the model of mj_energyVel
   (Model/Energy.lean), spring_force_is_neg_grad over the c2lean-generated mju_polyForce / mju_polyPotential,
   joint_loop_force_is_neg_grad + skip_test_iff_no_potential over the model of the joint loops of mj_energyPos /
   mj_springdamper INCLUDING their skip test (stiffness == 0 && mju_isZero(poly)) and joint-type dispatch
   (Model/Energy.lean: energyPos, springForce),
   rk4_order_conditions (C05's theorem on the generated tableau), rk4_energy_oscillator_partial.
T  translators re-run (c2lean kernels c08_polyForce / c08_polyPotential validated bitwise; RK4 tableau by
   translate/c05_rk4.py); bitwise differential of the Lean energy model on Float against
   mju_mulSymVecSparse + mju_dot + mju_sym2dense (synthetic CSR matrices) and against energy[1] of mj_forward
   on generated models (the op line is built from the engine's own d->M, M_rownnz, M_rowadr, M_colind, qvel);
   bitwise differential of the Lean energyPos / springForce (gravity term, joint springs of all four joint types with
   the skip test, tendon springs with dead band and Jacobian spreading, mjDSBL_SPRING / mjDSBL_GRAVITY) against
   energy[0] and qfrc_spring of mj_forward on every generated state (`epline`: the op line is built from the engine's
   own model arrays, xipos, ten_length, ten_J and the displacement vectors from mju_subQuat / mju_sub3).
S  oracle on generated conservative models (no damping / frictionloss / actuators / contacts / limits /
   equalities; gravity on and off).  Springs are drawn per element from structured classes (none / linear /
   linear+poly / poly0-only / poly1-only / poly-both; the last three have a ZERO linear coefficient and exercise the
   skip tests of both engine loops) on hinge, slide, ball and free joints and on fixed and spatial tendons; a fourth,
   static family (tie + gradient only, no drift runs) adds tendon dead bands and the mjDSBL_SPRING / mjDSBL_GRAVITY
   flags.  The class histogram is recorded in ctx.extra["spring_class_histogram"].
     - energy[1] == 0.5 v' M v recomputed from mj_fullM in exact rational arithmetic (relative 1e-12);
     - energy drift of RK4 over a fixed horizon (64 ms) on the ladder h0/2^k, h0 = 8 ms, k = 0..9: it vanishes with the
       timestep (at the finest step it is <= 1e-9 relative or still shrinking >= 3.3x per halving) and its observed order
       (larger of the two finest pairwise orders among the ladder points between the round-off floor and 1e-4 of the
       energy scale) has median >= 3.5 and is >= 3.0 in every single case for models with hinge/slide joints only.
       Models with ball/free joints: the unmodified engine is second order there (reported under the stable key
       QUAT_KEY, deterministic witness = spherical pendulum); they are still required to show order >= 1.5 (median 1.85);
     - free-floating systems without gravity: linear and angular momentum (mj_subtreeVel, cross-checked by an
       independent recomputation from cvel) vanish with the timestep by the same criterion (<= 1e-9 * scale at the finest step
       or still converging);
     - -d energy[0]/dq (central differences along mj_integratePos) == qfrc_passive - qfrc_bias at rest.
   Ladders on which a sprung ball / free joint comes within 0.14 rad of a half turn from its reference (the kink of the
   shortest-rotation potential; reported by the harness as "maxang") are excluded from the order / convergence criteria.
     - staged / skipped pipeline calls on an already used mjData (`staged`: random sequences of mj_forwardSkip with skipstage
       NONE / POS / VEL and skipsensor 0 / 1, mj_inverseSkip NONE / POS, mj_step1, mj_step, interleaved with velocity-only edits
       (incl. zeroing qvel) and position edits): after every call that runs the velocity stage energy[1] == 0.5 v' M v (current qvel,
       mj_fullM of the same data, exact arithmetic), and whenever the calls made since the last edit cover the edited stage both
       energies equal those of a fresh mjData after mj_forward at the same state (lazy-evaluation flags must not leave stale values).
   Not covered: flex edge springs (no flex in the generator), sleeping bodies (mjENBL_SLEEP off).
"""
import json
import math
from fractions import Fraction

from gen.enums import E
from gen.models import ModelGen
from . import kernelval

META = {
    "technique": "Lean 4 proofs over (i) a hand-written executable model of mj_energyVel (mju_mulSymVecSparse over the "
                 "lower-triangular CSR inertia + the four-accumulator mju_dot), (ii) the c2lean-generated kernels mju_polyForce / "
                 "mju_polyPotential (n = mjNPOLY = 2, regenerated and translation-validated bitwise every run), (ii') a hand-written "
                 "executable model of the gravity / joint-spring / tendon-spring loops of mj_energyPos and mj_springdamper built on those "
                 "kernels (skip test, joint-type dispatch, dead band, mjDSBL flags), (iii) the RK4 tableau "
                 "generated by translate/c05_rk4.py; bitwise differential of the energy model on IEEE doubles against the compiled "
                 "functions and against energy[1], energy[0] and qfrc_spring of mj_forward; property oracle on generated conservative models (energy-drift order "
                 "fit on a timestep ladder, momentum drift, exact-rational kinetic energy, finite-difference potential gradient)",
    "text": "Proved over the reals, for every lower-triangular CSR storage with the diagonal last and columns below the row index "
            "and every velocity: the modelled mj_energyVel returns 1/2 v' M v where M is the symmetric matrix the storage denotes, "
            "mj_mulM is the product with that matrix and mj_fullM returns it; for every stiffness, polynomial coefficients, "
            "reference and position the slide/hinge spring force coded in mj_passive is minus the derivative (HasDerivAt) of the "
            "spring potential coded in mj_energyPos, and both vanish at the reference; the same through the modelled joint loops with "
            "their skip test: for any number of slide/hinge joints qfrc_spring[j] of the modelled mj_springdamper is minus the partial "
            "derivative of energy[0] of the modelled mj_energyPos, and the skip test holds exactly for the springs whose potential is "
            "identically zero (a purely polynomial spring is not skipped); the RK4 tableau extracted from "
            "mj_RungeKutta satisfies the eight order-4 conditions; on the harmonic oscillator one RK4 step with that tableau "
            "multiplies the energy by exactly 1 - z^6/72 + z^8/576 (z = h*omega). PARTIAL: fourth-order energy drift of general "
            "conservative multibody systems and conservation of linear / angular momentum follow from classical theorems "
            "(convergence of Runge-Kutta methods, Newton-Euler) that are NOT formalised: these clauses are decided by the "
            "oracle on sampled models only.",
    "note": "ball/free joint springs (potential through mju_subQuat) and tendon springs are modelled and tied bitwise but have no "
            "derivative theorem; their gradient clause is decided by the finite-difference gradient oracle and the drift oracle on "
            "generated models (all spring classes incl. zero linear + non-zero polynomial coefficients, dead bands, mjDSBL_SPRING). "
            "Flex edge springs and sleeping bodies are outside the model and the generator. The momentum clause is sampled only. "
            "The energy / potential / spring-force models are hand-written (tie: bitwise differential on every generated state), the "
            "spring kernels and the tableau are translated.",
}

THEOREMS = [
    "MjProof.C08.kinetic_eq_half_vMv",
    "MjProof.C08.mulM_eq_matrix_product",
    "MjProof.C08.kinetic_matrix_symm",
    "MjProof.C08.fullM_is_stored_matrix",
    "MjProof.C08.spring_force_is_neg_grad",
    "MjProof.C08.spring_potential_at_ref",
    "MjProof.C08.joint_loop_force_is_neg_grad",
    "MjProof.C08.skip_test_iff_no_potential",
    "MjProof.C08.rk4_order_conditions",
    "MjProof.C08.rk4_energy_oscillator_partial",
]

KERNELS = ["c08_polyForce", "c08_polyPotential"]

BASE = {
    "contacts": 0.0, "plane": 0.0, "limits": 0.0, "damping": 0.0, "frictionloss": 0.0, "actuators": (0, 0),
    "tendons": 0.5, "equalities": 0.0, "sensors": (0, 0), "pairs": 0.0, "excludes": 0.0, "keys": 0.0, "numeric": 0.0,
    "cameras": 0.0, "sites": 0.5, "gravcomp": 0.0, "sleep": 0.0, "energy": 1.0, "integrators": ("RK4",),
    "stiffness": 0.6, "armature": 0.3, "multi_joint": 0.25, "no_eulerdamp": 0.0, "no_warmstart": 0.0,
    "no_filterparent": 0.0, "no_midphase": 0.0, "timestep": (0.002, 0.002),
}
PROFILE_GENERAL = dict(BASE, gravity=0.6, free=0.3, nbody=(1, 6))
PROFILE_FLOATING = dict(BASE, gravity=0.0, free=1.0, static_body=0.0, mocap=0.0, nbody=(1, 5))
PROFILE_SCALAR = dict(BASE, gravity=0.7, free=0.0, ball=0.0, nbody=(2, 6), static_body=0.05)   # hinge / slide joints only
PROFILE_STATIC = dict(BASE, gravity=0.7, free=0.3, nbody=(1, 6), tendons=0.8, sites=0.7)           # no drift runs: tie + gradient only
FAMILIES = (PROFILE_GENERAL, PROFILE_FLOATING, PROFILE_SCALAR, PROFILE_STATIC)
F_GENERAL, F_FLOATING, F_SCALAR, F_STATIC = range(4)

H0 = 0.008           # coarsest step of the ladder
NLADDER = 10         # h0 / 2^k, k = 0..9 (finest step 1.5625e-5)
NCHECK = 8           # checkpoints per run
HORIZON_STEPS0 = 8   # steps at h0 (horizon T = 0.064 s)


def hexf(x):
    import struct
    return "%016x" % struct.unpack("<Q", struct.pack("<d", float(x)))[0]


def unhex(s):
    import struct
    return float("nan") if s == "nan" else struct.unpack("<d", struct.pack("<Q", int(s, 16)))[0]


# spring classes of a joint / tendon: (stiffness, poly0, poly1) with mjNPOLY = 2.  Both engine loops (mj_energyPos,
# mj_springdamper) skip an element iff ALL THREE are zero, so the classes with a zero linear coefficient and a non-zero
# polynomial one are the inputs on which a skip test that looks at fewer coefficients becomes visible.
SPRING_CLASSES = (("none", 0.25), ("linear", 0.2), ("linear+poly", 0.15), ("poly0-only", 0.1), ("poly1-only", 0.2), ("poly-both", 0.1))


def spring_coeffs(rng, stiff=20.0, radial=False):
    r, acc = rng.random(), 0.0
    cls = SPRING_CLASSES[-1][0]
    for name, pr in SPRING_CLASSES:
        acc += pr
        if r < acc:
            cls = name
            break
    if cls == "none":
        return cls, None
    if cls == "linear":
        return cls, (rng.uniform(0.1, stiff),)
    # ball / free joints: the displacement is a norm (>= 0) and a repulsive term would drive the rotation to the cut locus
    # (angle pi) where the shortest-rotation potential has a kink: keep the polynomial terms attractive there
    sgn = (1,) if radial else (-1, 1)
    if cls == "linear+poly":
        return cls, (rng.uniform(0.1, stiff), rng.uniform(0.0 if radial else -2.0, 2.0), rng.uniform(0.0, 8.0))
    if cls == "poly0-only":
        return cls, (0.0, rng.choice(sgn) * rng.uniform(0.5, 10.0), 0.0)
    if cls == "poly1-only":
        return cls, (0.0, 0.0, rng.uniform(0.5, 40.0))
    return cls, (0.0, rng.choice(sgn) * rng.uniform(0.2, 3.0), rng.uniform(0.5, 40.0))


def make_model(rng, family, hist=None):
    """ModelGen model of the family's profile with its spring lines replaced by the structured classes above: every joint
    (hinge / slide / ball, and free joints outside the momentum family) and every tendon (fixed / spatial) draws a spring
    class; tendons lose everything non-conservative (damping, limits, friction loss).  Dynamic families keep the tendon
    potential smooth (no dead band); the static family also draws dead bands and the mjDSBL_SPRING / mjDSBL_GRAVITY flags."""
    mdl = ModelGen(rng, FAMILIES[family]).make()
    hist = hist if hist is not None else {}
    kind = {}          # handle -> "hinge" | "slide" | "ball" | "free" | "fixed" | "spatial"
    jt = {E("mjJNT_HINGE"): "hinge", E("mjJNT_SLIDE"): "slide", E("mjJNT_BALL"): "ball", E("mjJNT_FREE"): "free"}
    for l in mdl.lines:
        w = l.split()
        if w[0] == "joint":
            kind[w[1]] = "hinge"
        elif w[0] == "freejoint":
            kind[w[1]] = "free"
        elif w[0] == "tendon":
            kind[w[1]] = "fixed"
        elif w[0] == "set" and w[2] == "type" and w[1] in kind and kind[w[1]] == "hinge":
            kind[w[1]] = jt[int(w[3])]
        elif w[0] == "wrap" and w[2] == "site":
            kind[w[1]] = "spatial"
    drop = {"stiffness", "springref", "springlength", "damping", "limited", "range", "frictionloss"}
    out = []
    for l in mdl.lines:
        w = l.split()
        if w[0] == "set" and w[1] in kind and kind[w[1]] in ("fixed", "spatial") and w[2] in drop:
            continue
        if w[0] == "set" and w[1] in kind and w[2] in ("stiffness", "springref"):
            continue
        if w[0] == "option" and w[1] == "disableflags" and family == F_STATIC:
            fl = int(w[2])
            if rng.random() < 0.15:
                fl |= E("mjDSBL_SPRING")
            if rng.random() < 0.15:
                fl |= E("mjDSBL_GRAVITY")
            l = "option disableflags %d" % fl
            for nm in ("mjDSBL_SPRING", "mjDSBL_GRAVITY"):
                if fl & E(nm):
                    hist["flag " + nm] = hist.get("flag " + nm, 0) + 1
        out.append(l)
        if w[0] == "name" and w[1] in kind:
            h, k = w[1], kind[w[1]]
            if k == "free" and family == F_FLOATING:
                continue          # a spring to the world breaks momentum conservation
            cls, co = spring_coeffs(rng, 10.0 if k in ("fixed", "spatial") else 20.0, radial=k in ("ball", "free"))
            hist["%s %s" % (k, cls)] = hist.get("%s %s" % (k, cls), 0) + 1
            if co is not None:
                out.append("set %s stiffness %s" % (h, " ".join(repr(x) for x in co)))
            if k in ("hinge", "slide") and rng.random() < 0.6:
                out.append("set %s springref %r" % (h, rng.uniform(-0.5, 0.5)))
            if k in ("fixed", "spatial"):
                band = family == F_STATIC and rng.random() < 0.5
                if k == "spatial":
                    lo = rng.uniform(0.15, 0.4)
                    out.append("set %s springlength %r %r" % (h, lo, lo + (rng.uniform(0.05, 0.4) if band else 0.0)))
                elif band or rng.random() < 0.5:
                    lo = rng.uniform(-0.4, 0.3)
                    out.append("set %s springlength %r %r" % (h, lo, lo + (rng.uniform(0.05, 0.6) if band else 0.0)))
                if band:
                    hist["%s dead band" % k] = hist.get("%s dead band" % k, 0) + 1
    mdl.lines = out
    return mdl


QUAT_KEY = "c08:rk4-energy-drift-second-order-with-quaternion-joints"
# deterministic witness of QUAT_KEY: a spherical pendulum (one ball joint, one off-centre box, gravity on)
WITNESS_LINES = ["option timestep 0.002", "option integrator %d" % E("mjINT_RK4"), "option gravity 0 0 -9.81",
                 "body 1 0", "name 1 b1", "set 1 pos 0 0 1", "joint 2 1", "set 2 type %d" % E("mjJNT_BALL"),
                 "geom 3 1", "set 3 type %d" % E("mjGEOM_BOX"), "set 3 size 0.1 0.2 0.3", "set 3 pos 0.2 0.1 -0.15",
                 "set 3 contype 0", "set 3 conaffinity 0"]
WITNESS_STATE = ([1.0, 0.0, 0.0, 0.0], [2.0, -3.0, 1.5])


# staged pipeline calls: name -> (runs position stage, runs velocity stage)
STAGED_CALLS = {"F0": (1, 1), "F1": (1, 1), "I0": (1, 1), "T": (1, 1), "P0": (0, 1), "P1": (0, 1), "J0": (0, 1), "A0": (0, 0), "S": None}
STAGED_FIRST = ("F0", "F0", "F1", "S", "T", "I0")
STAGED_NEXT = (("V", 0.34), ("Q", 0.08), ("P0", 0.2), ("P1", 0.06), ("J0", 0.06), ("F0", 0.06), ("F1", 0.02), ("I0", 0.04), ("T", 0.04),
               ("A0", 0.05), ("S", 0.05))


def gen_staged(rng, nv, vscale, hist):
    """one `staged` op: a first full call on the freshly loaded state, then 6..12 items drawn from STAGED_NEXT.  Returns the op line
    and, per pipeline call, (name, check_ke, check_fresh) derived from which stage was edited since it was last recomputed."""
    items, toks = [rng.choice(STAGED_FIRST)], []
    for _ in range(rng.randint(6, 12)):
        r, acc = rng.random(), 0.0
        for name, pr in STAGED_NEXT:
            acc += pr
            if r < acc:
                break
        items.append(name)
    pos_dirty = vel_dirty = True
    expect = []
    prev = None
    for it in items:
        hist[it] = hist.get(it, 0) + 1
        if prev in ("V", "Q", "VQ") and it in STAGED_CALLS:
            hist["%s then %s" % (prev, it)] = hist.get("%s then %s" % (prev, it), 0) + 1
        if it == "V":
            mode = rng.random()
            v = [0.0] * nv if mode < 0.15 else [rng.gauss(0, 1) * vscale for _ in range(nv)]
            if mode < 0.15:
                hist["V zero"] = hist.get("V zero", 0) + 1
            toks += ["V"] + [repr(float(x)) for x in v]
            vel_dirty = True
            prev = "VQ" if prev in ("Q", "VQ") else "V"
            continue
        if it == "Q":
            toks += ["Q"] + [repr(rng.gauss(0, 0.05)) for _ in range(nv)]
            pos_dirty = True
            prev = "VQ" if prev in ("V", "VQ") else "Q"
            continue
        prev = it
        toks.append(it)
        st = STAGED_CALLS[it]
        if st is None:              # mj_step: energies are those of an intermediate (pre-step / last RK stage) state
            pos_dirty = vel_dirty = True
            expect.append((it, False, False))
            continue
        if st[0]:
            pos_dirty = False
        if st[1]:
            vel_dirty = False
        expect.append((it, not vel_dirty, not vel_dirty and not pos_dirty))
    return "staged " + " ".join(toks), expect


def gen_script(ctx, nmodels, nstatic):
    rng = ctx.rng
    script, meta = [], []
    hist = ctx.extra.setdefault("spring_class_histogram", {})
    for mi in range(-1, nmodels + nstatic):
        static = mi >= nmodels
        family = F_STATIC if static else mi % 3
        floating = family == F_FLOATING
        if mi < 0:
            lines, nq, nv, quat, floating = WITNESS_LINES, 4, 3, True, False
        else:
            mdl = make_model(rng, family, hist)
            if mdl.nv == 0:
                continue
            lines, nq, nv = mdl.lines, mdl.nq, mdl.nv
            quat = any(j["type"] in ("free", "ball") for j in mdl.joints)
        script.append("model")
        script += lines + ["end"]
        meta.append(("model", {"model": mi, "floating": floating, "nv": nv, "lines": lines}))
        for si in range(1 if mi < 0 else 2):
            if mi < 0:
                st = {"qpos": WITNESS_STATE[0], "qvel": WITNESS_STATE[1]}
            else:
                st = mdl.random_state(rng, scale=rng.choice((0.3, 1.0, 2.0)), perturb=False)
                if floating and si == 1:
                    # slow state for the strict momentum bound: RK4 conserves the momenta only up to its truncation error,
                    # relative drift ~ (h*omega)^2 with quaternion joints; |qvel| <= 0.2 keeps that far below 1e-9 at the finest step
                    vm = max([abs(x) for x in st["qvel"]] + [1e-9])
                    st["qvel"] = [x * min(1.0, 0.2 / vm) for x in st["qvel"]]
            script.append("state %d %d %s" % (nq, nv, " ".join(repr(float(x)) for x in st["qpos"] + st["qvel"])))
            info = {"model": mi, "state": si, "floating": floating, "quat": quat, "slow": bool(floating and si == 1),
                    "qpos": st["qpos"], "qvel": st["qvel"], "static": static}
            meta.append(("state", info))
            script.append("keline")
            meta.append(("keline", info))
            script.append("epline")
            meta.append(("epline", info))
            script.append("gradpot 1e-6")
            meta.append(("gradpot", info))
            op, expect = gen_staged(rng, nv, rng.choice((0.3, 1.0, 3.0)), ctx.extra.setdefault("staged_call_histogram", {}))
            script.append(op)
            meta.append(("staged", dict(info, op=op, expect=expect)))
            if static:
                continue
            for k in range(NLADDER):
                script.append("drift %r %d %d" % (H0 / 2 ** k, HORIZON_STEPS0 * 2 ** k, NCHECK))
                meta.append(("drift", dict(info, k=k)))
    return script, meta


def exact_ke(fullM, v):
    n = len(v)
    fv = [Fraction(x) for x in v]
    s = Fraction(0)
    mag = 0.0
    for i in range(n):
        for j in range(n):
            s += Fraction(fullM[i * n + j]) * fv[i] * fv[j]
            mag += abs(fullM[i * n + j] * v[i] * v[j])
    return float(s / 2), mag / 2


def cross(a, b):
    return [a[1] * b[2] - a[2] * b[1], a[2] * b[0] - a[0] * b[2], a[0] * b[1] - a[1] * b[0]]


def momenta_from_cvel(bodies):
    """independent recomputation: P = sum m v_com, L about the origin = sum x × m v + R I R' w"""
    P, L = [0.0] * 3, [0.0] * 3
    pmag, lmag = 0.0, 0.0
    M = 0.0
    for b in bodies:
        w, lin = b["cvel"][:3], b["cvel"][3:]
        r = [b["xipos"][k] - b["rootcom"][k] for k in range(3)]
        wxr = cross(w, r)
        v = [lin[k] + wxr[k] for k in range(3)]
        m = b["mass"]
        M += m
        R = b["ximat"]
        wl = [sum(R[3 * r_ + c] * w[r_] for r_ in range(3)) for c in range(3)]           # R' w
        Iw = [wl[c] * b["inertia"][c] for c in range(3)]
        Lw = [sum(R[3 * r_ + c] * Iw[c] for c in range(3)) for r_ in range(3)]           # R I R' w
        xv = cross(b["xipos"], [m * x for x in v])
        for k in range(3):
            P[k] += m * v[k]
            L[k] += xv[k] + Lw[k]
        pmag += m * math.sqrt(sum(x * x for x in v))
        lmag += math.sqrt(sum(x * x for x in xv)) + math.sqrt(sum(x * x for x in Lw))
    return P, L, pmag, lmag, M


def fit_order(pts):
    """least-squares slope of log(err) against log(h)"""
    xs = [math.log(h) for h, e in pts]
    ys = [math.log(e) for h, e in pts]
    n = len(pts)
    mx, my = sum(xs) / n, sum(ys) / n
    sxx = sum((x - mx) ** 2 for x in xs)
    return sum((x - mx) * (y - my) for x, y in zip(xs, ys)) / sxx


# thresholds (calibrated on the unmodified tree over seeds 0..9, quick and thorough; see ctx.extra["calibration"])
ORDER_MIN = 3.5           # the property's bound, applied to the MEDIAN observed order over the resolved hinge/slide cases
ORDER_CASE_MIN = 3.0      # hard bound for a single case (observed single-case minimum on the unmodified tree: 3.61)
ORDER_MIN_QUAT = 1.85     # median bound for models with ball / free joints (engine's RK4 is second order there, QUAT_KEY)
ORDER_CASE_MIN_QUAT = 1.5 # single-case bound for those (observed minimum 1.84)
FINEST_REL = 1e-9         # relative energy drift at the finest step accepted without further evidence of convergence
MOM_REL = 1e-9            # same for the momenta; above these the drift must still shrink >= 3.3x per halving of the step
KE_REL = 1e-12
CUT_LOCUS = 3.0           # rad; a sprung ball / free joint that gets this close to a half turn from its reference is at the kink
                          # of the shortest-rotation potential (pi): no Runge-Kutta order can be observed there, the ladder is skipped
GRAD_REL = 1e-6
STAGED_REL = 1e-11        # used vs fresh mjData at the same state (same code on the same inputs: observed 0 or last-ulp differences
                          # from the in-place quaternion renormalisation of qpos); potential energy compared relative to |E| + 10


def run(ctx):
    ctx.rule = ("generated conservative models (three dynamic families: general trees with gravity on/off; free-floating trees without "
                "gravity; hinge/slide-only trees; plus a static family with tendon dead bands and mjDSBL_SPRING / mjDSBL_GRAVITY), every "
                "joint and tendon drawing a spring class (none, linear, linear+poly, three zero-linear polynomial classes), two random "
                "states each; per state: the kinetic-energy and the potential / spring-force op lines from the engine's own arrays, a "
                "finite-difference potential gradient, and (dynamic families) RK4 runs over a fixed horizon on the ladder h0/2^k "
                "(k = 0..9); plus synthetic CSR matrices for the energy model. A case is distinct by (model, state, op); non-trivial = nv > 0")
    man = kernelval.regen(ctx)
    kernelval.validate(ctx, man, KERNELS, 400 if ctx.tier == "thorough" else 60, label="C08 spring kernels")
    ctx.lean_props(THEOREMS)
    drv = ctx.driver("drv_c08")
    impl = ctx.harness("harness/c/c08_energy.c", "c08_energy", deps=["harness/mjbuild.h"])
    if not drv or not impl:
        return
    thorough = ctx.tier == "thorough"
    nmodels = 150 if thorough else 24
    nstatic = 600 if thorough else 60
    script, meta = gen_script(ctx, nmodels, nstatic)
    rc, outs, err = ctx.run_lines([impl], script, timeout=3000)
    if rc != 0 or len(outs) != len(meta):
        ctx.oracle_failure("c08:harness-crash", "energy harness crashed or lost sync (rc=%s, %d outputs for %d commands)" % (rc, len(outs), len(meta)),
                           {"stderr": err[-500:]})
        return
    fails = {}

    def fail(key, what, replay):
        fails[key] = fails.get(key, 0) + 1
        if fails[key] <= 3:
            ctx.oracle_failure(key, what, replay)

    kelines, ke_expect = [], []
    eplines, ep_expect, ep_rp = [], [], []
    stats = {"order_cases": 0, "order_unresolved": 0, "min_order": None, "min_order_quat": None, "max_finest_rel": 0.0, "max_mom_rel": 0.0,
             "max_ke_rel": 0.0, "max_grad_rel": 0.0, "momentum_cases": 0, "drift_runs": 0, "max_recompute_rel": 0.0}
    ladder = {}
    momladder = {}
    nonsmooth = set()     # (model, state) whose trajectory reaches the cut locus of a quaternion spring on some ladder step
    cur_lines = None
    for (kind, info), o in zip(meta, outs):
        if kind == "model":
            cur_lines = info["lines"]
            if not o.startswith("ok"):
                ctx.oracle_failure("c08:model-rejected", "generated conservative model was rejected: " + o[:200], {"model": cur_lines})
                cur_lines = None
            else:
                npoly = int(o.split()[4])
                ctx.oblige("mjNPOLY == 2 (the value the spring kernels are specialised to)", "translator", npoly == 2, "mjNPOLY = %d" % npoly)
            continue
        if cur_lines is None:
            continue
        rp = {"model_lines": cur_lines, "qpos": info.get("qpos"), "qvel": info.get("qvel"), "seed": ctx.seed, "tier": ctx.tier,
              "replay": "feed 'model' + model_lines + 'end', then 'state nq nv qpos qvel', then the op to the c08_energy harness"}
        if o.startswith("error"):
            fail("c08:engine-error", "engine error during %s: %s" % (kind, o[:200]), rp)
            continue
        if kind == "keline":
            e1, line = o.split(" ", 1)
            kelines.append(line)
            ke_expect.append(e1)
            ctx.count(("ke", info["model"], info["state"], ctx.seed))
        elif kind == "epline":
            if o.startswith("skip"):
                fail("c08:model-outside-modelled-scope", "generated conservative model is outside the scope of the potential model: " + o, rp)
                continue
            head, line = o.split(" ep ", 1)
            eplines.append("ep " + line)
            ep_expect.append(head.split())
            ep_rp.append(dict(rp, op="epline"))
            ctx.count(("ep", info["model"], info["state"], ctx.seed))
        elif kind == "gradpot":
            d = json.loads(o)
            sc = max([abs(x) for x in d["force"]] + [abs(x) for x in d["grad"]] + [1e-3])
            for i, (g, f) in enumerate(zip(d["grad"], d["force"])):
                rel = abs(g + f) / sc
                stats["max_grad_rel"] = max(stats["max_grad_rel"], rel)
                if rel > GRAD_REL:
                    fail("c08:force-not-neg-gradient", "dof %d: -d energy[0]/dq = %r but qfrc_passive - qfrc_bias = %r (scale %r)" % (i, -g, f, sc),
                         dict(rp, op="gradpot 1e-6"))
                    break
            ctx.count(("gradpot", info["model"], info["state"], ctx.seed))
        elif kind == "staged":
            recs = json.loads(o)
            if len(recs) != len(info["expect"]):
                fail("c08:harness-crash", "staged op returned %d records for %d calls" % (len(recs), len(info["expect"])), dict(rp, op=info["op"]))
                continue
            for ci, (rec, (name, chk_ke, chk_fresh)) in enumerate(zip(recs, info["expect"])):
                vals = [rec["e0"], rec["e1"], rec["r0"], rec["r1"]] + rec["qvel"] + rec["fullM"]
                if rec["c"] != name or any(x is None or not math.isfinite(x) for x in vals):
                    continue          # diverged / reset state: nothing to compare
                ke, mag = exact_ke(rec["fullM"], rec["qvel"])
                if chk_ke:
                    stats["staged_ke_checked"] = stats.get("staged_ke_checked", 0) + 1
                    rel = abs(ke - rec["e1"]) / max(mag, 1e-300)
                    stats["max_staged_ke_rel"] = max(stats.get("max_staged_ke_rel", 0.0), rel)
                    if rel > KE_REL:
                        fail("c08:staged-kinetic-energy", "after call #%d (%s) of a staged sequence on a used mjData energy[1] = %r but 0.5 v'Mv "
                             "(current qvel, mj_fullM, exact arithmetic) = %r" % (ci, name, rec["e1"], ke), dict(rp, op=info["op"], call=ci))
                        break
                if chk_fresh:
                    stats["staged_fresh_checked"] = stats.get("staged_fresh_checked", 0) + 1
                    d0 = abs(rec["e0"] - rec["r0"]) / (max(abs(rec["e0"]), abs(rec["r0"])) + 10.0)
                    d1 = abs(rec["e1"] - rec["r1"]) / max(mag, abs(rec["r1"]), 1e-300)
                    stats["max_staged_fresh_rel"] = max(stats.get("max_staged_fresh_rel", 0.0), d0, d1)
                    if d0 > STAGED_REL or d1 > STAGED_REL:
                        fail("c08:staged-energy-vs-fresh", "after call #%d (%s) of a staged sequence on a used mjData energy = (%r, %r) but a fresh "
                             "mjData after mj_forward at the same qpos, qvel reports (%r, %r)" % (ci, name, rec["e0"], rec["e1"], rec["r0"], rec["r1"]),
                             dict(rp, op=info["op"], call=ci))
                        break
            ctx.count(("staged", info["model"], info["state"], ctx.seed))
        elif kind == "drift":
            d = json.loads(o)
            stats["drift_runs"] += 1
            k = info["k"]
            h = H0 / 2 ** k
            if d["warn"] or d["nefc"]:
                continue
            E = [a + b for a, b in zip(d["Epot"], d["Ekin"])]
            if not all(math.isfinite(x) for x in E):
                continue
            dE = max(abs(x - E[0]) for x in E)
            kemax = max(d["Ekin"])
            epr = max(d["Epot"]) - min(d["Epot"])
            escale = max(kemax, epr, 1e-3)
            eabs = max(abs(x) for x in d["Epot"]) + kemax
            if d["maxang"] > CUT_LOCUS:
                nonsmooth.add((info["model"], info["state"]))
            ladder.setdefault((info["model"], info["state"]), []).append((k, h, dE, escale, eabs, rp, info["quat"]))
            # kinetic energy at the final state, exact rational recomputation from mj_fullM
            ke, mag = exact_ke(d["fullM"], d["qvel1"])
            rel = abs(ke - d["Ekin"][-1]) / max(mag, 1e-300)
            stats["max_ke_rel"] = max(stats["max_ke_rel"], rel)
            if rel > KE_REL:
                fail("c08:kinetic-energy", "energy[1] = %r but 0.5 v'Mv (mj_fullM, exact arithmetic) = %r" % (d["Ekin"][-1], ke),
                     dict(rp, op="drift %r %d %d" % (h, HORIZON_STEPS0 * 2 ** k, NCHECK)))
            # momentum (free-floating, no gravity): recomputation cross-check here, drift judged on the ladder below
            P0r, L0r, pmag, lmag, mass = momenta_from_cvel(d["bodies0"])
            com0 = d["com"][:3]
            # engine's L is about the system COM: shift the recomputed one
            Lc = [L0r[i] - cross(com0, P0r)[i] for i in range(3)]
            rec = max(max(abs(P0r[i] - d["P"][i]) for i in range(3)) / max(pmag, 1e-9),
                      max(abs(Lc[i] - d["L"][i]) for i in range(3)) / max(lmag, 1e-9))
            stats["max_recompute_rel"] = max(stats["max_recompute_rel"], rec)
            if rec > 1e-9:
                fail("c08:subtree-momentum-mismatch", "mj_subtreeVel momenta differ from the recomputation from cvel by %r (relative)" % rec,
                     dict(rp, op="drift"))
            if info["floating"]:
                n = len(d["P"]) // 3
                dP = max(abs(d["P"][3 * c + i] - d["P"][i]) for c in range(n) for i in range(3))
                dL = max(abs(d["L"][3 * c + i] - d["L"][i]) for c in range(n) for i in range(3))
                relm = max(dP / max(pmag, 1e-9), dL / max(lmag, 1e-9))
                momladder.setdefault((info["model"], info["state"]), []).append((k, h, relm, dP, pmag, dL, lmag, rp, info["slow"]))
            ctx.count(("drift", info["model"], info["state"], k, ctx.seed))
    # ---- drift order per (model, state)
    orders = []
    bykind = {}
    for key, pts in ladder.items():
        pts.sort()
        if len(pts) < NLADDER:
            continue
        if key in nonsmooth:
            stats["cut_locus_skipped"] = stats.get("cut_locus_skipped", 0) + 1
            continue
        escale = max(p[3] for p in pts)
        eabs = max(p[4] for p in pts)
        quat = pts[0][6]
        floor = max(6e-13 * eabs, 1e-300)     # ~60 x the observed round-off level of the reported energy (<= 1e-14 * eabs)
        rp = pts[-1][5]
        finest = pts[-1][2] / escale
        stats["max_finest_rel"] = max(stats["max_finest_rel"], finest)
        stats["max_finest_rel_scalar"] = max(stats.get("max_finest_rel_scalar", 0.0), 0.0 if quat else finest)
        # the drift must vanish with the timestep: at the finest step it is either negligible or still shrinking by > 3.3x per
        # halving (order >= 1.7); a non-conservative system converges to a non-zero drift instead
        if finest > FINEST_REL and pts[-1][2] > floor and pts[-1][2] > 0.3 * pts[-2][2]:
            fail("c08:energy-not-conserved", "RK4 energy drift does not vanish with the timestep: |dE|/scale = %r at h = %r (ladder %r)"
                 % (finest, pts[-1][1], [(p[1], p[2]) for p in pts]), dict(rp, op="drift ladder"))
        window = [(p[1], p[2]) for p in pts if floor < p[2] < 1e-4 * escale]
        # the three finest points of the window are the closest to the asymptotic regime; coarse steps can be
        # pre-asymptotic (observed pairwise orders down to 2.6 at h = 8 ms on the unmodified tree), so the estimate is the
        # larger of the two pairwise orders: a method of order p < 3.5 shows <= p on both
        if len(window) >= 3:
            w = window[-3:]
            order = max(math.log2(w[0][1] / w[1][1]), math.log2(w[1][1] / w[2][1]))
            orders.append(order)
            quat = pts[0][6]
            stats["order_cases"] += 1
            tag = "min_order_quat" if quat else "min_order"
            stats[tag] = order if stats.get(tag) is None else min(stats[tag], order)
            bykind.setdefault(quat, []).append((order, w, rp, [(p[1], p[2]) for p in pts]))
            if order < (ORDER_CASE_MIN_QUAT if quat else ORDER_CASE_MIN):
                fail("c08:energy-drift-order", "observed order of the RK4 energy drift is %.2f < %.1f (points %r; model %s ball/free joints)"
                     % (order, ORDER_CASE_MIN_QUAT if quat else ORDER_CASE_MIN, w, "with" if quat else "without"),
                     dict(rp, op="drift ladder", ladder=[(p[1], p[2]) for p in pts]))
            elif quat and order < ORDER_MIN:
                # genuine deviation of the real code from the property (fourth-order drift): the quaternion position update of
                # mj_RungeKutta combines the stage angular velocities in ONE exponential map (no commutator correction), which is a
                # second-order Lie-group method; reported under a stable key, witness = spherical pendulum
                fail(QUAT_KEY, "RK4 energy drift is only of order %.2f (< %.1f) on a model with ball/free joints whose energy depends on "
                     "orientation (points %r): mj_RungeKutta integrates quaternions with a single exponential of the weighted stage "
                     "velocities" % (order, ORDER_MIN, w), dict(rp, op="drift ladder", ladder=[(p[1], p[2]) for p in pts]))
        else:
            stats["order_unresolved"] += 1
    # median observed order per kind of model (robust against single pre-asymptotic ladders)
    for quat, cases in bykind.items():
        if len(cases) < 6:
            continue
        cases.sort(key=lambda c: c[0])
        med = cases[len(cases) // 2][0]
        stats["median_order_quat" if quat else "median_order"] = med
        bound = ORDER_MIN_QUAT if quat else ORDER_MIN
        if med < bound:
            order, w, rp, lad = cases[0]
            fail("c08:energy-drift-order", "median observed order of the RK4 energy drift over %d models %s ball/free joints is %.2f < %.2f; "
                 "lowest case: order %.2f (points %r)" % (len(cases), "with" if quat else "without", med, bound, order, w),
                 dict(rp, op="drift ladder", ladder=lad))
    # ---- momentum (free-floating, no gravity): same convergence criterion
    for key, pts in momladder.items():
        pts.sort()
        if len(pts) < NLADDER or key in nonsmooth:
            continue
        k, h, relm, dP, pmag, dL, lmag, rp, slow = pts[-1]
        stats["momentum_cases"] += 1
        stats["max_mom_rel"] = max(stats["max_mom_rel"], relm)
        if slow:
            stats["max_mom_rel_slow"] = max(stats.get("max_mom_rel_slow", 0.0), relm)
        if relm > MOM_REL and relm > 0.3 * pts[-2][2]:
            fail("c08:momentum-drift", "free-floating system without gravity: momentum drift %r relative (dP %r of %r, dL %r of %r) at h = %r "
                 "and not vanishing with the timestep (ladder %r)" % (relm, dP, pmag, dL, lmag, h, [(p[1], p[2]) for p in pts]),
                 dict(rp, op="drift ladder"))
        elif relm > MOM_REL:
            stats["momentum_converging_above_1e-9"] = stats.get("momentum_converging_above_1e-9", 0) + 1
    if orders:
        so = sorted(orders)
        stats["order_quantiles"] = [so[0], so[len(so) // 4], so[len(so) // 2], so[-1]]
    # ---- T: energy model vs compiled functions (synthetic + engine lines), bitwise
    lines = list(kelines)
    rng = ctx.rng
    nsyn = 600 if thorough else 150
    for _ in range(nsyn):
        n = rng.choice((0, 1, 2, 3, 4, 5, 6, 7, 8, 9, 12, 17))
        rownnz, rowadr, colind, M = [], [], [], []
        for i in range(n):
            cols = sorted(rng.sample(range(i), rng.randint(0, min(i, 4)))) if i else []
            rowadr.append(len(colind))
            rownnz.append(len(cols) + 1)
            colind += cols + [i]
            M += [rng.gauss(0, 1) * rng.choice((1e-3, 1.0, 1e3)) for _ in cols] + [abs(rng.gauss(0, 1)) + 0.1]
        v = [rng.gauss(0, 1) * rng.choice((1e-2, 1.0, 1e2)) for _ in range(n)]
        lines.append("ke %d %s %d %s" % (n, " ".join(map(str, rownnz + rowadr)), len(colind),
                                         " ".join(list(map(str, colind)) + [hexf(x) for x in M + v])))
    # malformed: upper-triangular column, diagonal not last, short line, bad hex
    lines += ["ke 2 1 2 0 1 3 0 1 1 " + " ".join([hexf(1.0)] * 5), "ke 2 1 2 0 1 3 0 0 1 " + " ".join([hexf(1.0)] * 5),
              "ke 1 1 0 1 0 " + hexf(1.0), "ke 1 1 0 1 0 zz " + hexf(1.0), "frob"]
    # malformed `ep` lines (the C side does not have the op: both must answer bad-op): dof range outside nv, trailing token,
    # bad flag, bad hex, truncated
    z = hexf(0.0)
    lines += ["ep 1 1 %s %s %s 0 1 1 s 1 %s %s %s %s %s 0" % (z, z, z, z, z, z, z, z),
              "ep 1 1 %s %s %s 0 1 1 s 0 %s %s %s %s %s 0 7" % (z, z, z, z, z, z, z, z),
              "ep 1 2 %s %s %s 0 1 0 0" % (z, z, z), "ep 1 1 %s %s zz 0 1 0 0" % (z, z), "ep 3 1 %s" % z,
              "ep 2 1 %s %s %s 0 1 1 b 0 %s %s %s %s %s %s %s %s 0" % (z, z, z, z, z, z, z, z, z, z, z),
              "ep 1 0 %s %s %s 0 1 0 1 %s %s %s %s %s %s 1 1 %s" % (z, z, z, z, z, z, z, z, z, z)]
    ctx.differential("energy model (mulSymVec, dot, sym2dense) vs compiled mju_mulSymVecSparse / mju_dot / mju_sym2dense, bitwise",
                     [drv], [impl], lines, keyf=lambda l: l if len(l.split()) > 8 else None)
    rcm, om, _ = ctx.run_lines([drv], kelines)
    bad = [(l[:80], a, b.split()[1]) for l, a, b in zip(kelines, ke_expect, om) if b.split()[:2] != ["e", a]]
    ctx.oblige("Lean energyVel on the engine's own CSR inertia and qvel reproduces energy[1] of mj_forward bitwise (%d states)" % len(kelines),
               "correspondence", rcm == 0 and not bad and len(om) == len(kelines), json.dumps(bad[:3]))
    # ---- T: potential / spring-force model vs energy[0] and qfrc_spring of mj_forward, bitwise
    rce, oe, _ = ctx.run_lines([drv], eplines)
    bad = []
    if rce == 0 and len(oe) == len(eplines):
        for l, exp, got, rp in zip(eplines, ep_expect, oe, ep_rp):
            nv = int(exp[1])
            want = "e0 " + exp[0] + " | qs" + "".join(" " + x for x in exp[2:2 + nv])
            if got != want:
                bad.append((rp, want, got))
    ctx.oblige("Lean energyPos / springForce on the engine's own joint, tendon and body arrays reproduce energy[0] and qfrc_spring of "
               "mj_forward bitwise (%d states)" % len(eplines), "correspondence", rce == 0 and len(oe) == len(eplines) and not bad,
               json.dumps([(b[1][:200], b[2][:200]) for b in bad[:3]]))
    ctx.disagreements += [{"stream": "potential / spring-force model vs mj_forward", "line": rp, "model": got, "impl": want} for rp, want, got in bad[:20]]
    stats["ep_states"] = len(eplines)
    ctx.extra["oracle_stats"] = stats
    ctx.extra["oracle_failures"] = fails
    ctx.extra["thresholds"] = {"order_median_min": ORDER_MIN, "order_case_min": ORDER_CASE_MIN, "order_median_min_quat": ORDER_MIN_QUAT, "order_case_min_quat": ORDER_CASE_MIN_QUAT, "finest_rel": FINEST_REL, "momentum_rel": MOM_REL, "convergence_ratio": 0.3, "ke_rel": KE_REL, "grad_rel": GRAD_REL, "staged_rel": STAGED_REL, "cut_locus_rad": CUT_LOCUS}
    ctx.assumptions.append("C08: drift order and momentum conservation are sampled on generated models (classical RK/Newton-Euler theorems not formalised)")
    if kelines:
        ctx.sample({"ke_line": kelines[0][:160] + " ...", "energy1_bits": ke_expect[0]})
    ctx.sample({"drift_order_quantiles": stats.get("order_quantiles"), "max_momentum_drift_rel": stats["max_mom_rel"]})
