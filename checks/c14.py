"""C14  Collision pair selection is complete and respects the filters (DESIGN.md §5.C14).

P  Lean theorems (lean/MjProof/Props/C14.lean) about the hand model lean/MjProof/Model/Broadphase.lean (mj_SAP, mj_broadphase,
   the pair loop of mj_collision, contactcompare) and about the *generated* filter kernels (filterBitmask, filterBodyPair,
   filterBox, filterSphereBox, filterSphere: lean/MjProof/Gen/Kernels.lean, regenerated from the tree on every run), against
   the independently transcribed rule set lean/MjProof/Spec/Collide.lean.
T  (a) translator regeneration + bitwise translation validation of the five filter kernels; (b) exact differential of the
   compiled Lean model with the file-static mj_SAP / bfsort / contactSort / contactcompare of the tree (harness/c/c14_pairs.c
   #includes engine_collision_driver.c); (c) scene replay: for generated scenes the harness reports the fields of the real
   mjModel, the AAMMs computed by the real static makeAAMM with the frame the real mj_broadphase used, the outcomes of the real
   mj_filterSphere, the output of the real mj_broadphase and the exact sequence of (g1, g2, margin) the real mj_collision hands
   to the narrow phase (recorder installed in the public table mjCOLLISIONFUNC); the Lean model is run on the same fields and
   must reproduce the broad-phase list and the candidate sequence.
S  property oracle on the real engine: contacts of mj_collision vs an independent brute force (every geom pair through the
   collision function of the tree's table under the documented rules, transcribed a second time in Python), flag behaviour,
   explicit-pair parameters, order determinism (repeat, different mjData history, mid-phase on/off), plus a brute-force
   completeness oracle on the outputs of the static mj_SAP.
"""
import json
import math
import os
import struct

from checks import common, kernelval
from gen import enums

META = {
    "technique": "Lean 4 proofs over a hand model of mj_SAP / mj_broadphase / the mj_collision pair loop that calls the c2lean-generated filter kernels (sweep invariant by induction over the sorted endpoint list using C22 stability; merge-by-signature loop invariant; set equality with an independently transcribed brute-force rule set) + bitwise translation validation of the filter kernels + exact differential of the compiled model with the file-static mj_SAP/bfsort/contactSort + scene replay tie of the broad phase and of the narrow-phase candidate sequence on the unmodified engine + brute-force property oracle on mj_collision",
    "text": "Proved in Lean 4 (no sorry/axiom) about the hand model of engine_collision_driver.c, for every number of boxes/bodies/geoms: (1) sap_complete: for any box list with distinct ids, any comparator that is a total preorder (SAPcmp on non-NaN floats) and xlo<=xhi, mj_SAP (endpoint buffer [min0,max0,min1,...], the C22 stable-sort model, the active-list sweep with memmove removal, the four y/z tests) outputs the ordered pair (i,j) of an earlier box i and a later box j iff the y/z tests pass and xlo_i <= xlo_j < xhi_i, and (j,i) iff xlo_j < xlo_i <= xhi_j (comparisons on the float-cast values); every output pair consists of two different boxes; no pair is output twice or in both orientations (exactly once); corollaries sap_no_drop (strictly overlapping cast intervals are always reported), sap_sound (reported pairs overlap as closed intervals), sap_touching (cast intervals that only touch are reported iff the LEFT box has the HIGHER index -- the behaviour behind the reported finding), mjSAP_all (return value / buffer when maxpair suffices). The proof is an induction over the sorted endpoint list with an active-list invariant and uses stability + sortedness of mjSORT from C22 to translate positions into value comparisons. (2) filters_match_spec and the kernel theorems, about the definitions c2lean regenerates from the C source on every run: filterBitmask = 0 iff (contype1 & conaffinity2) || (contype2 & conaffinity1); filterBodyPair != 0 iff same weld / both dofless / both asleep / asleep vs world-welded / parent-child with both welds non-world and the filter enabled, and it is symmetric; over the reals filterBox = 0 iff the boxes inflated by margin meet on all three axes, filterSphere = 0 iff dist <= bound (bound >= 0), filterSphereBox likewise; the model's calls of these kernels decide exactly filter 3 / filter 4 / exclude of the independently transcribed rule set Spec/Collide.lean. (3) broadphase_exact: when the modelled mj_broadphase returns, its output is sorted by signature and is exactly the add_pair-compatible ordered versions of the init-loop pairs and of the SAP pairs that pass filterBodyPair. (4) driver_eq_bruteforce_partial: for a well-formed model (compiler invariants WF, validated on every generated scene) the pair loop of mj_collision (signature de-duplication, merge of explicit pairs by signature with the merged flag and the [startadr,pairadr) window, canCollide2, exclude scan, single-geom / all-to-all dispatch, filterCollisionPair, type-ordered push) is sound (every dynamic candidate is selected by the documented rule set) and complete (every selected pair whose geoms are `close` is a candidate, given broad-phase completeness for close pairs), and explicit pair k is a candidate iff collision is enabled and it passes the function-table and sphere tests with its own margin, regardless of bitmasks, body relation or excludes; loop invariant by induction over the sorted broad-phase list. (5) contact_order_deterministic: contactcompare is a total preorder, so by C22 contactSort returns a permutation sorted by key in which the contacts of every key keep their generation order: the sorted order is a function of the input list. Non-vacuity: concrete box set / model instances satisfy all hypotheses and the theorems are instantiated on them.",
    "note": "Model boundaries (stated, not hidden): makeAAMM (the AAMMs are an input; in the tie they are produced by the real static makeAAMM with the frame captured from the real mj_broadphase), mj_filterSphere (its outcomes `near`/`nearPair` are inputs produced by the real static function), the mjCOLLISIONFUNC table, the BVH traversal mj_collideTree / mj_collideOBB (a mid-phase body pair is represented by its all-to-all candidate superset; the tie checks that every real mid-phase call lies in that set, the oracle checks that mid-phase on/off give the same active contacts), flexes, sleeping, mjcb_contactfilter, the packing of ids into 16-bit halves (exact for nbody <= 65536). driver_eq_bruteforce is therefore named _partial: completeness assumes BroadComplete (AAMM geometry), which is checked on every scene with close := `the collider called directly reports a contact`. Reals vs doubles: filterBox/filterSphere theorems are over the reals; their translation is validated bitwise on Float. Oracle tolerance: none needed (set/sequence/bit-pattern comparisons; the brute force calls the same collision functions with the documented margin). Gap band: the engine inflates AAMMs by margin+gap but passes margin only at inner BVH nodes and 0.5*o_margin without gap under the override flag, so the oracle demands presence only for pairs closer than margin (strict set) and absence only for pairs the collider rejects with margin+gap (loose set). The order of the contact list with mid-phase differs from the order without it (contactcompare's un-swap of type-ordered geoms is dead code because the stored geoms are already type-ordered), contrary to the code comment; only determinism is claimed and checked (repeat, different mjData history). GENUINE DEFECTS reported under stable keys: (1) c14:broadphase-buffer-full-duplicate-pairs -- mj_broadphase adds a (dof-less plane body, dynamic body) pair twice (init loop + SAP) while mj_collision sizes the buffer nbodyflex*(nbodyflex-1)/2, so valid models (world plane + one mocap plane body + two free spheres near its centre) make mj_collision call mju_error('add_pair: broadphase buffer full'); the Lean model reproduces the error; (2) c14:sap-float32-touching-interval-dropped -- mj_SAP compares (float)-cast endpoints and resolves ties by buffer order, so a pair whose AAMMs overlap by less than one float32 ulp is dropped when the left body has the lower id and kept otherwise: two spheres penetrating by 1e-9 (1e-6 at x~100) get no contact in one body order and a contact in the other (theorem sap_touching is the model-side counterpart). Observation outside this property (reported to the coordinator): an explicit pair between two static geoms yields a contact that mj_island rejects with mju_error('contact N is between two static bodies').",
}

P = "MjProof.C14."
THEOREMS = [P + t for t in (
    "sap_complete", "sap_no_drop", "sap_sound", "sap_touching", "mjSAP_all", "sap_never_truncated", "yzPrune_comm", "cmpInt_totalPreorder",
    "filterBitmask_spec", "filterBodyPair_spec", "filterBodyPair_symm", "filterBox_spec", "filterSphere_spec",
    "filterSphere_keep_iff", "filterSphereBox_spec",
    "filters_match_spec", "broadphase_exact", "driver_eq_bruteforce_partial", "exM_wf", "exM_broad",
    "contactCompare_le_iff", "contactCompare_totalPreorder", "contact_order_deterministic",
)]

KERNELS = ["filterBitmask", "filterBodyPair", "filterBox", "filterSphereBox", "filterSphere"]

KEY_BUFFER = "c14:broadphase-buffer-full-duplicate-pairs"
KEY_TOUCH = "c14:sap-float32-touching-interval-dropped"

PLANE, SPHERE, CAPSULE, ELLIPSOID, CYLINDER, BOX = (enums.E("mjGEOM_" + n) for n in
                                                    ("PLANE", "SPHERE", "CAPSULE", "ELLIPSOID", "CYLINDER", "BOX"))
NT = enums.E("mjNGEOMTYPES")
D_CONSTRAINT, D_CONTACT, D_FILTERPARENT, D_MIDPHASE = (enums.E("mjDSBL_" + n) for n in
                                                       ("CONSTRAINT", "CONTACT", "FILTERPARENT", "MIDPHASE"))
E_OVERRIDE, E_SLEEP = enums.E("mjENBL_OVERRIDE"), enums.E("mjENBL_SLEEP")


def fbits(x):
    return "%016x" % struct.unpack("<Q", struct.pack("<d", x))[0]


def frombits(t):
    return struct.unpack("<d", struct.pack("<Q", int(t, 16)))[0]


def f32(x):
    """(float)x with round-to-nearest-even, overflow to infinity (C cast semantics on x86-64)."""
    if x != x:
        return x
    try:
        return struct.unpack("<f", struct.pack("<f", x))[0]
    except OverflowError:
        return math.copysign(math.inf, x)


# =========================================================================================== SAP cases
def sap_line(axis, maxpair, cols):
    """cols: 6 lists (xmin ymin zmin xmax ymax zmax) of n doubles."""
    n = len(cols[0])
    return "sap %d %d %d %s" % (axis, maxpair, n, " ".join(fbits(v) for c in cols for v in c))


def gen_sap_case(rng, thorough):
    style = rng.choice(("rand", "rand", "grid", "grid", "touch", "f32", "f32", "dense", "runs", "weird", "line", "blocks"))
    blk = None
    if style == "blocks":
        # block-structured input for the tiled merge sort behind mj_SAP: consecutive boxes come in blocks (a block of 16 boxes is one
        # 32-endpoint insertion-sort run, 32 / 64 boxes are the 64 / 128 merge blocks, 8 boxes half a run), every block sits in one
        # of a few clusters along the sweep axis, so whole runs are ordered / reversed / interleaved relative to each other
        bsz = rng.choice((8, 16, 16, 16, 32, 64 if thorough else 32))
        off = rng.choice((0, 0, 0, rng.randrange(bsz)))
        ncl = rng.choice((2, 3, 3, 4))
        sep = rng.choice((0.5, 2.0, 2.0, 3.0))       # cluster spacing (boxes of one cluster span < 2.0): overlapping or disjoint clusters
        nblk = rng.randint(3, 8)
        while off + nblk * bsz > (400 if thorough else 200) and nblk > 3:
            nblk -= 1
        n = off + nblk * bsz
        cl = [rng.randrange(ncl) for _ in range(nblk + 1)]
        blk = [sep * cl[0 if i < off else 1 + (i - off) // bsz] for i in range(n)]
    elif style == "runs":
        n = rng.choice((15, 16, 17, 31, 32, 33, 63, 64, 65, 127, 128, 129)) + rng.choice((-1, 0, 0, 1))
    elif style == "dense":
        n = rng.randint(20, 400 if thorough else 160)
    elif style in ("grid", "touch"):
        n = rng.randint(0, 12)
    else:
        n = rng.randint(0, 40)
    lo = [[0.0] * n for _ in range(3)]
    hi = [[0.0] * n for _ in range(3)]
    for i in range(n):
        for a in range(3):
            if style in ("rand", "runs"):
                c = rng.uniform(-3, 3); h = rng.uniform(0, 1.2)
                l, u = c - h, c + h
            elif style == "dense":
                c = rng.uniform(-1, 1); h = rng.uniform(0.1, 1.5)
                l, u = c - h, c + h
            elif style == "blocks":
                if a == 0:
                    l = blk[i] + rng.uniform(0.0, 1.5); u = l + rng.uniform(0.02, 0.45)
                else:
                    l = rng.uniform(0.0, 1.0); u = l + rng.uniform(0.3, 1.0)
            elif style == "grid":
                l = float(rng.randint(0, 3)); u = l + float(rng.randint(0, 2))
            elif style == "touch":
                # chains of exactly touching intervals, both index orders
                l = float(rng.randint(0, 5)); u = l + 1.0
            elif style == "f32":
                # distinct doubles that collide after the (float) cast; overlaps far below float resolution
                base = rng.choice((1.0, 0.5, 3.0, 100.0, -2.0, 1024.0))
                l = base + rng.randint(-3, 3) * 2.0 ** -40 + (rng.choice((0.0, 1.0, 2.0)) if a == 0 else 0.0)
                u = l + rng.choice((1.0, 1.0 + 2.0 ** -41, 1.0 - 2.0 ** -41, 2.0 ** -45, 0.0))
            elif style == "line":
                l = i * 1.0 if a == 0 else 0.0; u = l + rng.choice((0.5, 1.0, 1.0, 1.5, 3.0))
            else:  # weird: inverted boxes, infinities, NaN (tie only; the oracle skips such cases)
                l = rng.choice((0.0, 1.0, -1.0, math.inf, -math.inf, math.nan, 1e300, -1e300, 5e-324, rng.uniform(-2, 2)))
                u = rng.choice((0.0, 1.0, 2.0, math.inf, -math.inf, math.nan, 1e300, 1e-40, rng.uniform(-2, 2)))
            lo[a][i], hi[a][i] = l, u
    full = n * (n - 1) // 2
    r = rng.random()
    if r < 0.7:
        maxpair = max(full, 1)
    elif r < 0.8:
        maxpair = rng.randint(1, max(1, full))
    elif r < 0.9:
        maxpair = rng.choice((1, 2, 3, full + 5, max(1, full - 1)))
    else:
        maxpair = rng.choice((0, -1, 1))
    axis = rng.choice((0, 0, 0, 1, 2)) if rng.random() < 0.97 else rng.choice((3, -1, 7))
    if style == "blocks":
        axis = rng.choice((0, 1, 2))
        if axis:    # the clustered coordinate is the sweep axis
            lo[0], lo[axis] = lo[axis], lo[0]
            hi[0], hi[axis] = hi[axis], hi[0]
    return style, sap_line(axis, maxpair, lo + hi)


def gen_bfsort_line(rng):
    """Signature lists for the static bfsort: random, or block-structured (whole 32-element runs / 64-element merge blocks with
    keys from one of a few ranges, so runs are ordered / reversed / interleaved relative to each other)."""
    if rng.random() < 0.7:
        n = rng.choice((0, 1, 2, 5, 31, 32, 33, 64, 65, 200))
        kd = rng.choice((2, 5, 1 << 20, (1 << 32) - 1))
        return ("bfsort " + " ".join(str(rng.randint(0, kd)) for _ in range(n))).strip()
    bsz = rng.choice((16, 32, 32, 32, 64, 128))
    off = rng.choice((0, 0, rng.randrange(bsz)))
    nblk = rng.randint(3, 9 if bsz <= 64 else 5)
    ncl = rng.choice((2, 3, 4))
    hi = rng.choice((0, 1, 1 << 15))      # keys with the top bit set: compared as unsigned
    cl = [rng.randrange(ncl) for _ in range(nblk + 1)]
    ks = []
    for i in range(off + nblk * bsz):
        c = cl[0 if i < off else 1 + (i - off) // bsz]
        ks.append(((c * 1000 + rng.randint(0, 1500)) + (hi << 16)) & 0xFFFFFFFF)
    return "bfsort " + " ".join(map(str, ks))


def bfsort_oracle(line, out):
    """bfsort must return its input ordered as unsigned ints (mj_collision merges and de-duplicates body pairs by a linear scan of
    the sorted signature list)."""
    try:
        want = sorted(int(x) for x in line.split()[1:])
        got = [int(x) for x in out.split()]
    except ValueError:
        return None
    if got != want:
        k = next((i for i in range(min(len(got), len(want))) if got[i] != want[i]), min(len(got), len(want)))
        return ("c14:bfsort-unsorted", "bfsort of %d signatures is not the sorted input (first difference at index %d)" % (len(want), k))
    return None


def sap_exhaustive(vals, n):
    """all x-extents over `vals` for n boxes (y/z fixed overlapping): exhaustive small scope for ties/touching."""
    import itertools
    ivs = [(a, b) for a in vals for b in vals if a <= b]
    for combo in itertools.product(ivs, repeat=n):
        lo = [[c[0] for c in combo], [0.0] * n, [0.0] * n]
        hi = [[c[1] for c in combo], [1.0] * n, [1.0] * n]
        yield sap_line(0, max(1, n * (n - 1) // 2), lo + hi)


def sap_oracle(line, out):
    """Brute-force judgement of one mj_SAP output.  Returns (key, what) or None."""
    w = line.split()
    axis, maxpair, n = int(w[1]), int(w[2]), int(w[3])
    if out in ("bad-op", "canary-overwritten"):
        return ("c14:sap-bad-output", "mj_SAP harness output '%s'" % out)
    toks = out.split()
    ret = int(toks[0])
    pairs = [tuple(int(x) for x in t.split(":")) for t in toks[1:]]
    if axis not in (0, 1, 2) or maxpair < 1 or n >= 0x10000:
        return None if ret == -1 and not pairs else ("c14:sap-input-check", "mj_SAP accepted invalid arguments")
    v = [frombits(t) for t in w[4:]]
    col = [v[k * n:(k + 1) * n] for k in range(6)]
    ay, az = {0: (1, 2), 1: (0, 2), 2: (0, 1)}[axis]
    xlo, xhi, ylo, yhi, zlo, zhi = col[axis], col[axis + 3], col[ay], col[ay + 3], col[az], col[az + 3]
    if any(x != x or abs(x) == math.inf for x in v) or any(xlo[i] > xhi[i] or ylo[i] > yhi[i] or zlo[i] > zhi[i] for i in range(n)):
        return None   # not a box set: covered by the model correspondence only
    if ret != len(pairs):
        return ("c14:sap-count", "mj_SAP return value %d != %d pairs written" % (ret, len(pairs)))
    seen = set()
    for (i, j) in pairs:
        if not (0 <= i < n and 0 <= j < n) or i == j:
            return ("c14:sap-bad-pair", "mj_SAP output pair (%d,%d) is not a pair of distinct boxes" % (i, j))
        k = (min(i, j), max(i, j))
        if k in seen:
            return ("c14:sap-duplicate", "mj_SAP reported the pair %s twice" % (k,))
        seen.add(k)
        # soundness: a reported pair overlaps (closed intervals) on all three axes
        if not (xlo[i] <= xhi[j] and xlo[j] <= xhi[i] and ylo[i] <= yhi[j] and ylo[j] <= yhi[i] and zlo[i] <= zhi[j] and zlo[j] <= zhi[i]):
            # the x test is on float-cast values: allow a pair whose cast intervals meet
            if not (f32(xlo[i]) <= f32(xhi[j]) and f32(xlo[j]) <= f32(xhi[i]) and ylo[i] <= yhi[j] and ylo[j] <= yhi[i]
                    and zlo[i] <= zhi[j] and zlo[j] <= zhi[i]):
                return ("c14:sap-unsound", "mj_SAP reported the non-overlapping pair (%d,%d)" % (i, j))
    truncated = ret >= maxpair
    if truncated and maxpair < n * (n - 1) // 2:
        return None   # caller's buffer smaller than the worst case: completeness is not claimed
    for i in range(n):
        for j in range(i + 1, n):
            yz = ylo[i] <= yhi[j] and ylo[j] <= yhi[i] and zlo[i] <= zhi[j] and zlo[j] <= zhi[i]
            if not yz or (i, j) in seen:
                continue
            # completeness: boxes whose interiors overlap on x (as doubles) must be reported
            if xlo[i] < xhi[j] and xlo[j] < xhi[i]:
                if f32(xlo[i]) < f32(xhi[j]) and f32(xlo[j]) < f32(xhi[i]):
                    return ("c14:sap-incomplete", "mj_SAP dropped the overlapping pair (%d,%d)" % (i, j))
                return (KEY_TOUCH, "mj_SAP dropped the pair (%d,%d): the x-intervals [%r,%r] and [%r,%r] overlap as doubles "
                        "but only touch after the (float) cast, and the box that is on the left has the lower index"
                        % (i, j, xlo[i], xhi[i], xlo[j], xhi[j]))
    return None


# =========================================================================================== scenes
class Scene:
    pass


def unit_quat(rng):
    while True:
        q = [rng.gauss(0, 1) for _ in range(4)]
        n = math.sqrt(sum(x * x for x in q))
        if n > 1e-3:
            return [x / n for x in q]


def fmt(v):
    return " ".join(repr(float(x)) for x in v)


def gen_scene(rng, big=False):
    """A model description (harness/mjbuild.h line format) with many bodies / geoms / filters, and a state sampler."""
    sc = Scene()
    L = []
    h = [0]

    def nh():
        h[0] += 1
        return h[0]
    disable = 0
    enable = 0
    if rng.random() < 0.25:
        disable |= D_FILTERPARENT
    if rng.random() < 0.35:
        disable |= D_MIDPHASE
    if rng.random() < 0.04:
        disable |= D_CONTACT
    if rng.random() < 0.03:
        disable |= D_CONSTRAINT
    if rng.random() < 0.12:
        enable |= E_OVERRIDE
        L.append("option o_margin %r" % rng.choice((0.0, 0.02, 0.1)))
    L.append("option disableflags %d" % disable)
    L.append("option enableflags %d" % enable)
    L.append("spec memory 50000000")
    spread = rng.choice((0.3, 0.6, 1.0, 2.0))
    masks = rng.choice(([(1, 1)], [(1, 1), (1, 1), (2, 2), (1, 2), (2, 1), (3, 0), (0, 3), (0, 0), (4, 7)],
                        [(1, 1), (1, 0), (0, 1), (0, 0)], [(1, 1), (2, 2)]))
    geoms = []   # dict(name, body index, type)
    bodies = [{"name": "world", "h": 0, "dofs": 0, "mocap": False, "parent": None, "top": False}]
    joints = []

    def add_geom(bi, gtype=None, plane_ok=False):
        b = bodies[bi]
        g = nh()
        name = "g%d" % len(geoms)
        if gtype is None:
            gtype = rng.choice((SPHERE, SPHERE, CAPSULE, ELLIPSOID, CYLINDER, BOX, BOX))
            if plane_ok and rng.random() < 0.35:
                gtype = PLANE
        L.append("geom %d %d" % (g, b["h"]))
        L.append("name %d %s" % (g, name))
        L.append("set %d type %d" % (g, gtype))
        a, bb, c = (rng.uniform(0.04, 0.3) for _ in range(3))
        size = {PLANE: [rng.choice((0.0, 1.0, 3.0)), rng.choice((0.0, 1.0, 3.0)), 0.1], SPHERE: [a], CAPSULE: [a, bb], CYLINDER: [a, bb],
                ELLIPSOID: [a, bb, c], BOX: [a, bb, c]}[gtype]
        L.append("set %d size %s" % (g, fmt(size)))
        if bi == 0:
            pos = [rng.uniform(-spread, spread), rng.uniform(-spread, spread), rng.uniform(-0.3, 0.3)] if gtype != PLANE else [0, 0, rng.uniform(-0.3, 0.0)]
        else:
            pos = [rng.uniform(-0.25, 0.25) for _ in range(3)]
        L.append("set %d pos %s" % (g, fmt(pos)))
        if rng.random() < 0.6 and not (gtype == PLANE and bi == 0 and rng.random() < 0.7):
            L.append("set %d quat %s" % (g, fmt(unit_quat(rng))))
        ct, ca = rng.choice(masks)
        L.append("set %d contype %d" % (g, ct))
        L.append("set %d conaffinity %d" % (g, ca))
        if rng.random() < 0.3:
            L.append("set %d margin %r" % (g, rng.choice((0.01, 0.05, 0.2, rng.uniform(0, 0.1)))))
        if rng.random() < 0.15:
            L.append("set %d gap %r" % (g, rng.choice((0.01, 0.05, rng.uniform(0, 0.05)))))
        if rng.random() < 0.3:
            L.append("set %d condim %d" % (g, rng.choice((1, 3, 4, 6))))
        if rng.random() < 0.15:
            L.append("set %d priority %d" % (g, rng.choice((0, 1, 2))))
        geoms.append({"name": name, "body": bi, "type": gtype})

    # world geoms
    r = rng.random()
    if r < 0.6:
        add_geom(0, PLANE)
    if rng.random() < 0.25:
        add_geom(0)
    if rng.random() < 0.1:
        add_geom(0, PLANE)
    nb = rng.randint(2, 28 if big else 11)
    for bi in range(1, nb + 1):
        parent = 0 if (bi == 1 or rng.random() < 0.55) else rng.randrange(1, bi)
        b = nh()
        name = "b%d" % bi
        L.append("body %d %d" % (b, bodies[parent]["h"]))
        L.append("name %d %s" % (b, name))
        top = parent == 0
        pos = [rng.uniform(-spread, spread), rng.uniform(-spread, spread), rng.uniform(0.0, spread)] if top else \
            [rng.uniform(-0.4, 0.4) for _ in range(3)]
        L.append("set %d pos %s" % (b, fmt(pos)))
        if rng.random() < 0.5:
            L.append("set %d quat %s" % (b, fmt(unit_quat(rng))))
        info = {"name": name, "h": b, "dofs": 0, "mocap": False, "parent": parent, "top": top}
        r = rng.random()
        kind = "joint"
        if top and r < 0.12:
            L.append("set %d mocap 1" % b)
            info["mocap"] = True
            kind = "mocap"
        elif r < 0.27:
            kind = "static"
        elif top and r < 0.65:
            j = nh()
            L.append("freejoint %d %d" % (j, b))
            joints.append(("free", None))
            kind = "free"
        else:
            nj = 2 if rng.random() < 0.2 else 1
            for _ in range(nj):
                j = nh()
                jt = rng.choice(("hinge", "hinge", "slide", "ball") if nj == 1 else ("hinge", "slide"))
                L.append("joint %d %d" % (j, b))
                L.append("set %d type %d" % (j, enums.E("mjJNT_" + jt.upper())))
                L.append("set %d pos %s" % (j, fmt([rng.uniform(-0.2, 0.2) for _ in range(3)])))
                if jt != "ball":
                    ax = [rng.gauss(0, 1) for _ in range(3)]
                    L.append("set %d axis %s" % (j, fmt(ax if any(abs(x) > 1e-3 for x in ax) else [0, 0, 1])))
                joints.append((jt, None))
        info["kind"] = kind
        bodies.append(info)
        # geoms: planes only on dof-less bodies whose whole parent chain is dof-less
        static_chain = kind in ("mocap", "static") and all(bodies[a]["kind"] in ("mocap", "static") for a in ancestors(bodies, parent))
        ng = rng.choice((1, 1, 1, 2, 2, 3, 4)) if rng.random() < 0.93 else 0
        for _ in range(ng):
            add_geom(bi, plane_ok=static_chain and rng.random() < 0.5)
        if kind in ("joint", "free") and ng == 0:
            L.append("set %d mass 1" % b)
            L.append("set %d inertia 0.1 0.1 0.1" % b)
    # explicit pairs
    npair = rng.choice((0, 0, 1, 2, 3, 6)) if len(geoms) >= 2 else 0
    pairs = []
    for _ in range(npair):
        a, b2 = rng.sample(range(len(geoms)), 2)
        if geoms[a]["type"] == PLANE and geoms[b2]["type"] == PLANE:
            continue
        p = nh()
        L.append("pair %d" % p)
        L.append("set %d geomname1 %s" % (p, geoms[a]["name"]))
        L.append("set %d geomname2 %s" % (p, geoms[b2]["name"]))
        L.append("set %d condim %d" % (p, rng.choice((1, 3, 4, 6))))
        if rng.random() < 0.6:
            L.append("set %d margin %r" % (p, rng.choice((0.0, 0.03, 0.3, 1.0))))
        if rng.random() < 0.3:
            L.append("set %d gap %r" % (p, rng.choice((0.0, 0.01, 0.1))))
        if rng.random() < 0.5:
            L.append("set %d friction %s" % (p, fmt([rng.uniform(0.1, 2), rng.uniform(0.1, 2), 0.01, 0.001, 0.002])))
        pairs.append((a, b2))
    nex = rng.choice((0, 0, 1, 2, 4))
    for _ in range(nex):
        a, b2 = rng.sample(range(len(bodies)), 2)
        x = nh()
        L.append("exclude %d" % x)
        L.append("set %d bodyname1 %s" % (x, bodies[a]["name"]))
        L.append("set %d bodyname2 %s" % (x, bodies[b2]["name"]))
    sc.lines = L
    sc.joints = joints
    sc.nmocap = sum(1 for b in bodies if b["mocap"])
    sc.spread = spread
    sc.disable, sc.enable = disable, enable
    return sc


def ancestors(bodies, i):
    out = []
    while i is not None and i != 0:
        out.append(i)
        i = bodies[i]["parent"]
    return out


def scene_state(rng, sc):
    q = []
    s = sc.spread
    for jt, _ in sc.joints:
        if jt == "free":
            q += [rng.uniform(-s, s), rng.uniform(-s, s), rng.uniform(-0.1, s)] + unit_quat(rng)
        elif jt == "ball":
            q += unit_quat(rng)
        elif jt == "slide":
            q.append(rng.uniform(-0.5, 0.5))
        else:
            q.append(rng.uniform(-2.5, 2.5))
    mp = [rng.uniform(-s, s) if k % 3 != 2 else rng.uniform(-0.2, s) for k in range(3 * sc.nmocap)]
    mq = [x for _ in range(sc.nmocap) for x in unit_quat(rng)]
    return q, mp, mq


def directed_scenes():
    """Deterministic probes (no randomness): (a) duplicate (plane body, dynamic body) broad-phase pairs that exceed the buffer
    mj_collision allocates; (b) two spheres whose AAMMs overlap by less than float32 resolution, both body orders."""
    out = []

    def spheres(xs, r=0.5):
        L = ["option disableflags 0", "option enableflags 0"]
        k = 0
        for x in xs:
            L += ["body %d 0" % (k + 1), "name %d b%d" % (k + 1, k // 3 + 1), "set %d pos %r 0 0" % (k + 1, x),
                  "freejoint %d %d" % (k + 2, k + 1), "geom %d %d" % (k + 3, k + 1), "name %d g%d" % (k + 3, k // 3),
                  "set %d type %d" % (k + 3, SPHERE), "set %d size %r" % (k + 3, r)]
            k += 3
        return L
    for xs in ((0.0, 1 - 1e-9), (1 - 1e-9, 0.0), (100.0, 101 - 1e-6), (101 - 1e-6, 100.0), (0.0, 1 - 1e-4), (1 - 1e-4, 0.0)):
        out.append(("touch", "two free spheres r=0.5 at x=%r and x=%r (penetration %.1e)" % (xs[0], xs[1], 1 - abs(xs[0] - xs[1])),
                    spheres(xs)))

    def planes(k, m, worldplane):
        L = ["option disableflags 0", "option enableflags 0", "spec memory 10000000"]
        h = 0
        if worldplane:
            h += 1
            L += ["geom %d 0" % h, "set %d type %d" % (h, PLANE), "set %d size 5 5 0.1" % h]
        for i in range(k):
            b = h + 1
            L += ["body %d 0" % b, "set %d mocap 1" % b, "set %d pos 0 0 0" % b, "geom %d %d" % (b + 1, b),
                  "set %d type %d" % (b + 1, PLANE), "set %d size 1 1 0.1" % (b + 1)]
            h += 2
        for i in range(m):
            b = h + 1
            L += ["body %d 0" % b, "set %d pos %r 0 0.05" % (b, 0.01 * i), "freejoint %d %d" % (b + 1, b),
                  "geom %d %d" % (b + 2, b), "set %d type %d" % (b + 2, SPHERE), "set %d size 0.1" % (b + 2)]
            h += 3
        return L
    # (c) every geom in the world body (the `cnt == 0` early return of mj_broadphase), bodies without geoms
    out.append(("static", "world plane + world box, two bodies without geoms",
                ["option disableflags 0", "option enableflags 0", "geom 1 0", "set 1 type %d" % PLANE, "set 1 size 1 1 0.1",
                 "geom 2 0", "set 2 type %d" % BOX, "set 2 size 0.1 0.1 0.1", "body 3 0", "set 3 mass 1", "set 3 inertia 0.1 0.1 0.1",
                 "freejoint 4 3", "body 5 0", "set 5 pos 1 0 0"]))
    for (k, m, wp) in ((1, 1, True), (1, 2, True), (2, 4, False), (2, 3, False), (1, 3, True)):
        out.append(("buffer", "%s%d mocap plane bod%s at the origin + %d free spheres resting on them"
                    % ("world plane + " if wp else "", k, "y" if k == 1 else "ies", m), planes(k, m, wp)))
    return out


def gen_cluster_scene(rng, maxbodies=140):
    """Many-body scene for the sorts behind the broad phase (SAPsort has 2 endpoints per collidable body, bfsort one key per body
    pair): consecutive bodies come in blocks of 8 / 16 / 32 / 64 free bodies, every block sits in one of a few clusters along a
    random direction (the principal axis mj_broadphase sweeps along), inside a cluster neighbouring spheres overlap.  Returns
    (what, lines)."""
    # block size vs the sort: 16 bodies = 32 endpoints = one insertion-sort run of SAPsort, 32 / 64 bodies = the blocks produced by
    # its first / second merge pass; at least one merge pass must see three or more blocks, else the blocks are too few to interact
    bsz = rng.choice((8, 16, 16, 16, 16, 32, 64))
    nblk = {8: rng.randint(5, 9), 16: rng.randint(3, 7), 32: rng.randint(5, 7), 64: rng.randint(3, 4)}[bsz]
    if nblk * bsz > maxbodies:
        bsz, nblk = 16, rng.randint(3, max(3, min(7, maxbodies // 16)))
    ncl = rng.choice((2, 3, 3, 4))
    off = rng.choice((0, 0, 0, rng.randrange(bsz)))     # bodies before the first full block (misaligns blocks and sort runs)
    cl = [rng.randrange(ncl) for _ in range(nblk + 1)]
    if len(set(cl[1:])) == 1:
        cl[rng.randrange(1, nblk + 1)] = (cl[1] + 1) % ncl
    d = [rng.gauss(0, 1) for _ in range(3)]
    dn = math.sqrt(sum(x * x for x in d)) or 1.0
    d = [x / dn for x in d] if rng.random() < 0.6 else [1.0, 0.0, 0.0]
    rad = rng.choice((0.03, 0.05))
    length = max(1.0, bsz / 16.0)                         # extent of one cluster along d (about 16 spheres per unit length)
    sep = length * rng.choice((1.5, 1.5, 3.0, 0.6))       # cluster spacing: disjoint (mostly) or overlapping clusters
    L = ["option disableflags 0", "option enableflags 0", "spec memory 200000000"]
    h = 0
    if rng.random() < 0.3:
        h += 1
        L += ["geom %d 0" % h, "set %d type %d" % (h, PLANE), "set %d size 5 5 0.1" % h, "set %d pos 0 0 -50" % h]
    nb = off + nblk * bsz
    for i in range(nb):
        c = cl[0 if i < off else 1 + (i - off) // bsz]
        t = sep * c + rng.uniform(0.0, length)
        o = [rng.uniform(-0.02, 0.02) for _ in range(3)]
        pos = [t * d[k] + o[k] for k in range(3)]
        b = h + 1
        L += ["body %d 0" % b, "name %d b%d" % (b, i + 1), "set %d pos %s" % (b, fmt(pos)), "freejoint %d %d" % (b + 1, b),
              "geom %d %d" % (b + 2, b), "set %d type %d" % (b + 2, SPHERE), "set %d size %r" % (b + 2, rad)]
        h += 3
    what = ("%d free spheres r=%g in %d blocks of %d consecutive bodies (+%d leading), block clusters %s spaced %g along %s"
            % (nb, rad, nblk, bsz, off, cl, sep, [round(x, 3) for x in d]))
    return what, L


def cluster_blocks(rng, nscene, maxbodies=140):
    blocks, meta = [], []
    for _ in range(nscene):
        what, L = gen_cluster_scene(rng, maxbodies)
        blocks.append(["model"] + L + ["end", "flags 0 0", "run"])
        meta.append({"kind": "cluster", "what": what, "lines": L})
    return blocks, meta


def new_stats():
    return {"models": 0, "compile_rejected": 0, "runs": 0, "narrowphase_calls": 0, "contacts": 0, "midphase_groups": 0,
            "runs_with_explicit_pairs": 0, "runs_with_excludes": 0, "engine_errors": 0, "bodies_hist": {}, "geoms_hist": {}}


def search_cluster_scenes(c, impl, r2, skip_keys, batches=6, per_batch=20, maxbodies=260):
    """Engine-level search on many-body cluster scenes: the first brute-force oracle failure of mj_collision whose key is not in
    skip_keys, as (key, what, replay), or None."""
    for _ in range(batches):
        found2 = []
        b2, m2 = cluster_blocks(r2, per_batch, maxbodies)
        judge_scenes(c, run_harness_scenes(c, impl, b2), m2, lambda k, w, rp: found2.append((k, w, rp)), new_stats())
        for f in found2:
            if f[0] not in skip_keys:
                return f
    return None


# ------------------------------------------------------------------------------------------- model-side line
def scene_line(j):
    """The op line for drv_c14 from the harness' JSON (all values are fields of the real mjModel / outputs of the real
    static functions)."""
    dis = j["disable"]
    nb = j["nbody"]
    ga = [a if n > 0 else 0 for a, n in zip(j["body_geomadr"], j["body_geomnum"])]
    kv = [
        ("nbody", [nb]), ("ngeom", [j["ngeom"]]), ("nt", [NT]), ("plane", [PLANE]),
        ("flags", [1 if dis & D_CONSTRAINT else 0, 1 if dis & D_CONTACT else 0, 1 if dis & D_FILTERPARENT else 0,
                   1 if dis & D_MIDPHASE else 0]),
        ("bw", j["body_weldid"]), ("bp", j["body_parentid"]), ("bd", j["body_dofnum"]), ("bga", ga), ("bgn", j["body_geomnum"]),
        ("bct", j["body_contype"]), ("bca", j["body_conaffinity"]), ("bbvh", j["body_bvhadr"]),
        ("gt", j["geom_type"]), ("gct", j["geom_contype"]), ("gca", j["geom_conaffinity"]), ("gb", j["geom_bodyid"]),
        ("ps", j["pair_signature"]), ("pg1", j["pair_geom1"]), ("pg2", j["pair_geom2"]), ("xs", j["exclude_signature"]),
        ("func", j["func"]),
    ]
    s = "scene " + " ".join("%s=%s" % (k, ",".join(str(int(x)) for x in v)) for k, v in kv)
    s += " near=" + ",".join("%d:%d" % (a, b) for a, b in j["near"])
    s += " nearp=" + ",".join(str(k) for k in j["nearpair"])
    s += " aamm=" + ",".join(j["aamm"])
    return s


def parse_model_out(out):
    """'bf s,s | items | sap b:b,...' -> (bf list or error string, items or error string, sap pair list)"""
    if " | " not in out:
        return None
    parts = out.split(" | ")
    if len(parts) != 3 or not parts[2].startswith("sap"):
        return None
    a, b = parts[0], parts[1]
    sap = [tuple(int(x) for x in t.split(":")) for t in parts[2][3:].strip().split(",") if t]
    bf = None
    if a.startswith("bf-error "):
        bf = ("error", a[9:])
    elif a == "bf" or a.startswith("bf "):
        bf = ("ok", [int(x) for x in a[3:].split(",") if x])
    items = None
    if b.startswith("error "):
        items = ("error", b[6:])
    else:
        its = []
        for t in b.split():
            if t.startswith("M:"):
                head, rest = t.split("[", 1)
                _, b1, b2 = head.split(":")
                cs = [tuple(int(x) for x in c.split(":")) for c in rest.rstrip("]").split(";") if c]
                its.append(("mid", int(b1), int(b2), cs))
            else:
                g1, g2, k = (int(x) for x in t.split(":"))
                its.append(("cand", g1, g2, k))
        items = ("ok", its)
    return bf, items, sap


def expected_margin(j, g1, g2, k):
    ov = bool(j["enable"] & E_OVERRIDE)
    if k >= 0:
        m = j["o_margin"] if ov else j["pair_margin"][k]
        return m + j["pair_gap"][k]
    m = j["o_margin"] if ov else (j["geom_margin"][g1] + j["geom_margin"][g2])
    return m + (j["geom_gap"][g1] + j["geom_gap"][g2])


def compare_scene(j, mout):
    """Tie: model output vs what the real engine did.  Returns None or a description of the first disagreement."""
    pm = parse_model_out(mout)
    if pm is None or pm[0] is None or pm[1] is None:
        return "model output unparsable: " + mout[:200]
    bf, items, _ = pm
    if "error" in j:
        # the engine raised mju_error: the model must raise the same error
        if items[0] == "error" and items[1].strip() == j["error"].strip():
            return None
        return "engine error '%s' vs model %s" % (j["error"], str(items)[:200])
    if bf[0] != "ok":
        return "model broadphase error '%s' but the engine returned %d pairs" % (bf[1], len(j["bfpair"]))
    if bf[1] != j["bfpair"]:
        return "mj_broadphase output %s vs model %s" % (j["bfpair"][:40], bf[1][:40])
    if items[0] != "ok":
        return "model mj_collision error '%s' but the engine succeeded" % items[1]
    calls = j["calls"]
    gb = j["geom_bodyid"]
    idx = 0
    for it in items[1]:
        if it[0] == "cand":
            if idx >= len(calls):
                return "model candidate %s beyond the %d narrow-phase calls of the engine" % (it[1:], len(calls))
            c = calls[idx]
            if (c[0], c[1]) != (it[1], it[2]):
                return "narrow-phase call #%d is (%d,%d), model candidate is (%d,%d,ipair %d)" % (idx, c[0], c[1], it[1], it[2], it[3])
            em = expected_margin(j, it[1], it[2], it[3])
            if fbits(em) != c[2]:
                return "narrow-phase call #%d (%d,%d) got margin %r, documented margin for ipair %d is %r" % (
                    idx, c[0], c[1], frombits(c[2]), it[3], em)
            idx += 1
        else:
            _, b1, b2, cs = it
            allowed = set((a, b) for a, b in cs)
            while idx < len(calls) and {gb[calls[idx][0]], gb[calls[idx][1]]} == {b1, b2}:
                c = calls[idx]
                if (c[0], c[1]) not in allowed:
                    return "mid-phase call (%d,%d) for bodies (%d,%d) is not among the model's all-to-all candidates" % (c[0], c[1], b1, b2)
                em = expected_margin(j, c[0], c[1], -1)
                if fbits(em) != c[2]:
                    return "mid-phase call (%d,%d) got margin %r, expected %r" % (c[0], c[1], frombits(c[2]), em)
                idx += 1
    if idx != len(calls):
        return "engine made %d narrow-phase calls, the model accounts for %d (next: %s)" % (len(calls), idx, calls[idx][:2])
    return None


def check_hypotheses(j, mout):
    """The hypotheses of driver_eq_bruteforce_partial on one real scene: WF (compiler invariants), symmetry of the sphere test,
    and BroadComplete for close := "the narrow phase reports a contact".  Returns a list of violated hypothesis names."""
    bad = []
    nb, ng = j["nbody"], j["ngeom"]
    gb = j["geom_bodyid"]
    if nb > 65536:
        bad.append("nbody_le")
    for b in range(nb):
        rng_ = set(range(j["body_geomadr"][b], j["body_geomadr"][b] + j["body_geomnum"][b])) if j["body_geomnum"][b] else set()
        if rng_ != {g for g in range(ng) if gb[g] == b}:
            bad.append("geom_body")
            break
    for k in range(j["npair"]):
        b1, b2 = gb[j["pair_geom1"][k]], gb[j["pair_geom2"][k]]
        if j["pair_signature"][k] != (b1 << 16) + b2 or b1 > b2:
            bad.append("pair_sig")
            break
    if j["pair_signature"] != sorted(j["pair_signature"]):
        bad.append("pairs_sorted")
    if j["exclude_signature"] != sorted(j["exclude_signature"]):
        bad.append("excl_sorted")
    for b in range(nb):
        ct = ca = 0
        for g in range(ng):
            if gb[g] == b:
                ct |= j["geom_contype"][g]
                ca |= j["geom_conaffinity"][g]
        if (ct, ca) != (j["body_contype"][b], j["body_conaffinity"][b]):
            bad.append("body_masks")
            break
    if j["body_weldid"][0] != 0 or j["body_parentid"][0] != 0:
        bad.append("world")
    near = set((a, b) for a, b in j["near"])
    if any((b, a) not in near for (a, b) in near):
        bad.append("near_symm")
    pm = parse_model_out(mout)
    if pm is not None and "error" not in j:
        sap = set(pm[2])
        w, dof, gt = j["body_weldid"], j["body_dofnum"], j["geom_type"]

        def always(b):
            if b == 0:
                return j["body_geomnum"][0] > 0
            return dof[w[b]] == 0 and any(gt[g] == PLANE for g in range(ng) if gb[g] == b)
        ov = bool(j["enable"] & E_OVERRIDE)
        for row in j["brute"]:
            g1, g2, _, mind, mg = row
            b1, b2 = gb[g1], gb[g2]
            if b1 == 0 or b2 == 0 or b1 == b2:
                continue
            # close := the collider reports a contact closer than the margin (contacts in the gap band [margin, margin+gap) are
            # inactive; the engine inflates AAMMs by 0.5*o_margin without the gap under the override flag: see META note)
            margin = j["o_margin"] if ov else j["geom_margin"][g1] + j["geom_margin"][g2]
            if not (mind < margin or mg == margin):
                continue
            # only pairs whose bodies can be in the SAP list at all (collidable) matter for BroadComplete as used
            if not (j["body_contype"][b1] or j["body_conaffinity"][b1]) or not (j["body_contype"][b2] or j["body_conaffinity"][b2]):
                continue
            if not (always(b1) or always(b2) or (b1, b2) in sap or (b2, b1) in sap):
                bad.append("BroadComplete(%d,%d)" % (g1, g2))
                break
    return bad


# ------------------------------------------------------------------------------------------- property oracle (Python transcription of the documented rules)
def documented_dynamic(j, a, b):
    """doc/computation 'Selection': may the body-pair mechanism produce the geom pair {a, b}?  (filters 3, 4, exclude)"""
    gb, w, par, dof = j["geom_bodyid"], j["body_weldid"], j["body_parentid"], j["body_dofnum"]
    b1, b2 = gb[a], gb[b]
    w1, w2 = w[b1], w[b2]
    if w1 == w2:                                    # same body (welded bodies count as one)
        return False
    if dof[w1] == 0 and dof[w2] == 0:               # neither body can move
        return False
    if not (j["disable"] & D_FILTERPARENT):
        pw1, pw2 = w[par[w1]], w[par[w2]]
        if (pw2 == w1 and w1 != 0) or (pw1 == w2 and w2 != 0):   # parent and child, unless the parent is the world
            return False
    ct, ca = j["geom_contype"], j["geom_conaffinity"]
    if not ((ct[a] & ca[b]) or (ct[b] & ca[a])):
        return False
    lo, hi = min(b1, b2), max(b1, b2)
    if ((lo << 16) + hi) in j["_exclude_set"]:
        return False
    return True


def scene_oracle(j, fail):
    """Judges one `run` of the real engine.  `fail(key, what)` reports."""
    if "error" in j:
        key = KEY_BUFFER if "broadphase buffer full" in j["error"] else "c14:engine-error"
        fail(key, "mj_collision raised mju_error('%s') on a valid model" % j["error"])
        return
    dis = j["disable"]
    ncon_by_pair = {}
    order = []
    for c in j["contacts"]:
        k = (c[0], c[1])
        if k not in ncon_by_pair:
            order.append(k)
        ncon_by_pair.setdefault(k, []).append(c)
    if dis & (D_CONTACT | D_CONSTRAINT):
        if j["contacts"] or j["calls"]:
            fail("c14:flag-contact-disabled", "contacts / narrow-phase calls although contact or constraint is disabled")
        return
    if j["warn_contactfull"]:
        return
    j["_exclude_set"] = set(j["exclude_signature"])
    explicit = {}
    for k, (a, b) in enumerate(zip(j["pair_geom1"], j["pair_geom2"])):
        explicit.setdefault(frozenset((a, b)), []).append(k)
    # expected sets.  loose: collider (called with margin+gap) returned contacts; strict: some contact closer than margin
    loose, strict = {}, {}
    ov = bool(j["enable"] & E_OVERRIDE)
    for (g1, g2, nc, mind, mg) in j["brute"]:
        fs = frozenset((g1, g2))
        if fs in explicit or not documented_dynamic(j, g1, g2):
            continue
        loose[fs] = nc
        margin = j["o_margin"] if ov else j["geom_margin"][g1] + j["geom_margin"][g2]
        if mind < margin or mg == margin:
            strict[fs] = nc
    for (k, g1, g2, nc, mind, mg) in j["brutepair"]:
        fs = frozenset((g1, g2))
        loose[fs] = loose.get(fs, 0) + nc if fs in loose and explicit[fs][0] != k else nc
        margin = j["o_margin"] if ov else j["pair_margin"][k]
        if mind < margin or mg == margin:
            strict[fs] = nc
    got = {}
    for (g1, g2), cs in ncon_by_pair.items():
        got[frozenset((g1, g2))] = got.get(frozenset((g1, g2)), 0) + len(cs)
    for fs in strict:
        if fs not in got:
            a, b = sorted(fs)
            fail("c14:missing-pair:" + pair_class(j, a, b), "geom pair (%d,%d) is within margin (brute-force collider returns %d contacts) and "
                 "passes the documented filters, but mj_collision produced no contact for it" % (a, b, strict[fs]))
            return
    for fs in got:
        a, b = sorted(fs) if len(fs) == 2 else (list(fs)[0], list(fs)[0])
        if fs not in loose:
            fail("c14:extra-pair:" + pair_class(j, a, b), "mj_collision produced a contact for geom pair (%d,%d) which the documented rules "
                 "exclude (or whose geoms are not within margin)" % (a, b))
            return
        if len(explicit.get(fs, ())) <= 1 and got[fs] != loose[fs]:
            fail("c14:contact-count", "geom pair (%d,%d): %d contacts from mj_collision, %d from the collider called directly" % (a, b, got[fs], loose[fs]))
            return
    # explicit pairs use their own parameters
    for (g1, g2), cs in ncon_by_pair.items():
        ks = explicit.get(frozenset((g1, g2)))
        if ks and len(ks) == 1:
            k = ks[0]
            for c in cs:
                em = j["o_margin"] if ov else j["pair_margin"][k]
                if c[3] != em:
                    fail("c14:pair-params", "contact of explicit pair %d has includemargin %r, pair margin is %r" % (k, c[3], em))
                    return
                if c[4] != j["pair_dim"][k] and not ov:
                    fail("c14:pair-params", "contact of explicit pair %d has dim %d, pair condim is %d" % (k, c[4], j["pair_dim"][k]))
                    return
                if not ov and (c[6], c[7], c[8]) != (j["pair_friction"][5 * k], j["pair_friction"][5 * k + 2], j["pair_friction"][5 * k + 3]):
                    fail("c14:pair-params", "contact of explicit pair %d does not carry the pair's friction" % k)
                    return
    if not j["repeat_equal"]:
        fail("c14:order-repeat", "a second mj_collision on the same mjData gave a different contact list")
    if not j["history_equal"]:
        fail("c14:order-history", "mj_collision on an mjData with a different history gave a different contact list")


def pair_class(j, a, b):
    gb, w = j["geom_bodyid"], j["body_weldid"]
    t = sorted((j["geom_type"][a], j["geom_type"][b]))
    multi = j["body_geomnum"][gb[a]] > 1 or j["body_geomnum"][gb[b]] > 1
    return "%s-%s%s" % ("plane" if t[0] == PLANE else "geom", "plane" if t[1] == PLANE else "geom", ":multigeom" if multi else "")


def active_seq(j):
    return [(c[0], c[1], c[2]) for c in j["contacts"] if not c[5]]


# =========================================================================================== run
def scene_block(lines, states, flagsets):
    """harness input lines for one model: description, then for every state and flag set a `run`."""
    out = ["model"] + lines + ["end"]
    nrun = 0
    for (q, mp, mq) in states:
        if q:
            out.append("qpos " + fmt(q))
        else:
            out.append("qpos")
        if mp:
            out.append("mocap_pos " + fmt(mp))
            out.append("mocap_quat " + fmt(mq))
        for (d, e) in flagsets:
            out.append("flags %d %d" % (d, e))
            out.append("run")
            nrun += 1
    return out


def run_harness_scenes(ctx, impl, blocks):
    """Feeds the blocks, returns per block the list of parsed JSON results (or None when the model did not compile)."""
    lines = [l for b in blocks for l in b]
    rc, outs, err = ctx.run_lines([impl], lines)
    if rc != 0:
        raise common.Infra("c14 harness crashed rc=%d: %s" % (rc, err[-400:]))
    res = []
    k = 0
    for b in blocks:
        # one output line for 'model' (description lines are consumed by the builder), then one per command
        cmds = b[b.index("end") + 1:]
        head = outs[k]
        k += 1
        runs = []
        compiled = head.startswith("ok")
        for c in cmds:
            o = outs[k]
            k += 1
            if c == "run" and compiled:
                try:
                    runs.append(json.loads(o))
                except ValueError:
                    # an engine error after partial output: the next line carries it
                    o = outs[k]
                    k += 1
                    try:
                        runs.append(json.loads(o))
                    except ValueError:
                        raise common.Infra("c14 harness: unparsable run output: " + o[:200])
        res.append((head, runs) if compiled else (head, None))
    return res


def gen_blocks(rng, nscene, nstates, directed):
    blocks, meta = [], []
    if directed:
        for kind, what, L in directed_scenes():
            blocks.append(["model"] + L + ["end", "flags 0 0", "run"])
            meta.append({"kind": kind, "what": what, "lines": L})
    for s in range(nscene):
        sc = gen_scene(rng, big=(s % 7 == 0))
        states = [scene_state(rng, sc) for _ in range(nstates)]
        fl = [(sc.disable & ~D_MIDPHASE, sc.enable), (sc.disable | D_MIDPHASE, sc.enable)]
        blocks.append(scene_block(sc.lines, states, fl))
        meta.append({"kind": "random", "what": "generated scene %d" % s, "lines": sc.lines, "states": states, "flags": fl})
    return blocks, meta


def judge_scenes(ctx, results, meta, fail, stats):
    """Property oracle over the harness results; returns the model-side op lines (and their scenes) for the tie."""
    mlines, mref = [], []
    for bi, ((head, runs), mt) in enumerate(zip(results, meta)):
        if runs is None:
            stats["compile_rejected"] += 1
            ctx.extra.setdefault("compile_rejections", {})
            msg = head[:60]
            ctx.extra["compile_rejections"][msg] = ctx.extra["compile_rejections"].get(msg, 0) + 1
            continue
        stats["models"] += 1
        for ri, j in enumerate(runs):
            stats["runs"] += 1
            rp = {"what": mt["what"], "kind": mt["kind"], "model_lines": mt["lines"], "run_index": ri,
                  "replay": "feed 'model' + model_lines + 'end' + the state/flags lines + 'run' to the c14_pairs harness"}
            if "states" in mt:
                st = mt["states"][ri // len(mt["flags"])]
                rp["qpos"], rp["mocap_pos"], rp["mocap_quat"] = st
                rp["flags"] = mt["flags"][ri % len(mt["flags"])]

            def report(k, w, mt=mt, rp=rp):
                fail(KEY_TOUCH if (mt["kind"] == "touch" and k.startswith("c14:missing-pair")) else k, w + " [" + mt["what"] + "]", rp)
            if "error" in j:
                stats["engine_errors"] += 1
                scene_oracle(j, report)
                continue
            if ri == 0:
                for key, v in (("bodies_hist", j["nbody"]), ("geoms_hist", j["ngeom"])):
                    bk = "<=4" if v <= 4 else "<=8" if v <= 8 else "<=16" if v <= 16 else "<=32" if v <= 32 else ">32"
                    stats[key][bk] = stats[key].get(bk, 0) + 1
            stats["narrowphase_calls"] += len(j["calls"])
            stats["contacts"] += len(j["contacts"])
            stats["runs_with_explicit_pairs"] += 1 if j["npair"] else 0
            stats["runs_with_excludes"] += 1 if j["nexclude"] else 0
            scene_oracle(j, report)
            if j["enable"] & E_SLEEP or j["nflex"]:
                continue
            mlines.append(scene_line(j))
            mref.append((j, rp))
        # mid-phase on/off must give the same active contacts
        if "flags" in mt and runs:
            nf = len(mt["flags"])
            for s0 in range(0, len(runs) - nf + 1, nf):
                a, b = runs[s0], runs[s0 + 1]
                if "error" in a or "error" in b or a["warn_contactfull"] or b["warn_contactfull"]:
                    continue
                # (the *order* may differ: contactcompare sorts mid-phase contacts by the type-ordered (geom[0], geom[1]),
                #  which is not the all-to-all push order; only determinism of the order is claimed)
                sa, sb = sorted(active_seq(a)), sorted(active_seq(b))
                if sa != sb:
                    what = ("active contacts differ between mid-phase enabled and disabled: only with mid-phase %s, only without %s"
                            % (sorted(set(sa) - set(sb))[:3], sorted(set(sb) - set(sa))[:3]))
                    fail("c14:midphase-drops-pair", what + " [" + mt["what"] + "]",
                         {"what": mt["what"], "model_lines": mt["lines"], "state": mt["states"][s0 // nf], "flags": mt["flags"]})
    return mlines, mref


def run(ctx):
    thorough = ctx.tier == "thorough"
    rng = ctx.rng
    ctx.rule = ("(1) kernel cases: bit patterns per generated filter kernel (random masks / small body ids hitting every equality / "
                "touching boxes), distinct by full line; (2) mj_SAP op lines: box sets in named styles (random, small integer grid with "
                "ties, chains of touching intervals, doubles that collide after the float cast, dense, sizes at the 32/64/128 run "
                "boundaries of the sort, block-structured sets whose runs / merge blocks are ordered, reversed or interleaved, "
                "NaN/inf/inverted boxes for the tie only) + an exhaustive small scope; bfsort / contactSort / "
                "contactcompare lines; (3) scenes: generated models (2..28 bodies, 0..4 geoms each, planes on world/static/mocap "
                "bodies, contype/conaffinity sets incl. 0, margins, gaps, explicit pairs incl. same-body and overriding ones, "
                "excludes, flags) x sampled states x {mid-phase on, off}, plus many-body cluster scenes (40..260 free spheres in "
                "blocks of consecutive bodies placed in a few clusters along one direction); a scene case is distinct by its full JSON; non-trivial = "
                "at least one narrow-phase call")
    ctx.lean_props(THEOREMS)
    manifest = kernelval.regen(ctx)
    ctx.extra["kernel_body_sha256"] = {n: manifest.get("kernels", {}).get(n, {}).get("sha256", "")[:16] for n in KERNELS}
    kernelval.validate(ctx, manifest, KERNELS, 4000 if thorough else 600, gens={n: kernel_gen(n) for n in KERNELS},
                       label="C14 filter kernels")
    drv = ctx.driver("drv_c14")
    impl = ctx.harness("harness/c/c14_pairs.c", "c14_pairs", deps=["harness/mjbuild.h"])
    if not drv or not impl:
        return
    found = []

    def fail(key, what, replay):
        if sum(1 for f in found if f[0] == key) < 3:
            found.append((key, what, replay))

    # ---------------------------------------------------------------- (2) stateless ops: exact differential + SAP oracle
    lines = []
    hist = {}
    for n in ((1, 2, 3) if not thorough else (1, 2, 3, 4)):
        vals = (0.0, 1.0, 2.0) if n >= 3 else (0.0, 1.0, 2.0, 3.0)
        if n == 4:
            vals = (0.0, 1.0)
        for l in sap_exhaustive(vals, n):
            lines.append(l)
            hist["exhaustive"] = hist.get("exhaustive", 0) + 1
    ctx.extra["sap_exhaustive_scope"] = "all x-extents lo<=hi over {0,1,2,3} for n<=2, {0,1,2} for n=3%s boxes (y/z overlapping)" % (
        ", {0,1} for n=4" if thorough else "")
    for _ in range(20000 if thorough else 2500):
        st, l = gen_sap_case(rng, thorough)
        lines.append(l)
        hist[st] = hist.get(st, 0) + 1
    for _ in range(3000 if thorough else 400):
        lines.append(gen_bfsort_line(rng))
        ng = rng.randint(1, 12)
        types = [rng.randint(0, NT - 1) for _ in range(ng)]
        k = rng.choice((0, 1, 2, 3, 10, 33, 70))
        cs = [rng.randrange(ng) for _ in range(2 * k)]
        lines.append("csort %d %s %d %s" % (ng, " ".join(map(str, types)), k, " ".join(map(str, cs))))
        lines.append("ccmp %d %s %s" % (ng, " ".join(map(str, types)), " ".join(str(rng.randrange(ng)) for _ in range(4))))
    lines += ["frob 1 2", "sap 0 1", "csort 2 0 1 1 0 5"]
    ctx.extra["sap_case_styles"] = hist
    rc, outs, err = ctx.run_lines([impl], lines)
    ctx.differential("static mj_SAP / bfsort / contactSort / contactcompare vs Lean model", [drv], [impl], lines,
                     keyf=lambda l: l if len(l.split()) > 4 else None)
    if rc == 0 and len(outs) == len(lines):
        nsap = 0
        for l, o in zip(lines, outs):
            if l.startswith("sap ") and len(l.split()) >= 4 and o != "bad-op":
                nsap += 1
                r = sap_oracle(l, o)
                if r:
                    fail(r[0], r[1], {"op": l[:50000], "mj_SAP_output": o[:500], "replay": "echo '<op>' | c14_pairs"})
            elif l.startswith("bfsort ") and o != "bad-op":
                r = bfsort_oracle(l, o)
                if r:
                    fail(r[0], r[1], {"op": l[:6000], "bfsort_output": o[:6000], "replay": "echo '<op>' | c14_pairs"})
        ctx.extra["sap_oracle_checked"] = nsap
        ctx.sample({"op": lines[len(lines) // 3][:200], "model_and_impl_output": outs[len(lines) // 3][:200]})
    else:
        fail("c14:harness-crash", "c14 harness crashed on the stateless ops (rc=%s)" % rc, {"stderr": err[-400:]})

    # ---------------------------------------------------------------- (3) scenes
    nscene = 600 if thorough else 70
    stats = new_stats()
    blocks, meta = gen_blocks(rng, nscene, 3 if thorough else 2, True)
    # many-body cluster scenes: > 32 collidable bodies / > 64 body pairs, the sizes at which SAPsort / bfsort run several merge passes
    cb, cm = cluster_blocks(rng, 80 if thorough else 12, 260 if thorough else 140)
    blocks += cb
    meta += cm
    results = run_harness_scenes(ctx, impl, blocks)
    mlines, mref = judge_scenes(ctx, results, meta, fail, stats)
    # tie: model vs engine, scene by scene
    rcm, mouts, merr = ctx.run_lines([drv], mlines)
    if rcm != 0 or len(mouts) != len(mlines):
        raise common.Infra("drv_c14 failed on scene lines: rc=%d %s" % (rcm, merr[-300:]))
    bad = []
    hyp_bad, hyp_samples = {}, []
    for l, o, (j, rp) in zip(mlines, mouts, mref):
        ctx.count(l, nontrivial=bool(j.get("calls")))
        why = compare_scene(j, o) if o != "bad-op" else "the model driver rejected the scene line (bad-op)"
        if why:
            bad.append({"line": l[:1500], "model": o[:600], "impl": why, "scene": rp["what"]})
        for hname in check_hypotheses(j, o):
            hyp_bad[hname.split("(")[0]] = hyp_bad.get(hname.split("(")[0], 0) + 1
            if hname.startswith("BroadComplete"):
                # the unmodelled makeAAMM / float-cast geometry: an oracle failure (not a tie failure)
                fail(KEY_TOUCH if rp["kind"] == "touch" else "c14:broadphase-incomplete",
                     "hypothesis %s fails: the narrow phase reports a contact for this geom pair but its bodies are neither in the "
                     "init-loop class nor reported by mj_SAP on the AAMMs computed by makeAAMM [%s]" % (hname, rp["what"]), rp)
        stats["midphase_groups"] += o.count("M:")
    ctx.oblige("correspondence mj_broadphase output + narrow-phase candidate sequence of mj_collision vs Lean model (%d scene runs)"
               % len(mlines), "correspondence", not bad, json.dumps(bad[:3])[:1900])
    if bad:
        ctx.disagreements += [dict(b, stream="scenes") for b in bad[:20]]
    # hypotheses of driver_eq_bruteforce_partial hold on the real scenes (so the theorem applies to them).  BroadComplete is the
    # unmodelled makeAAMM geometry: its violations are reported as oracle failures, not as tie failures
    wf_bad = {k: v for k, v in hyp_bad.items() if k != "BroadComplete"}
    ctx.oblige("hypotheses of driver_eq_bruteforce_partial (WF: geom/body partition, pair signatures, sortedness, body masks, world "
               "weld; symmetric sphere test) hold on all %d scene runs" % len(mlines), "hypothesis-check", not wf_bad, json.dumps(wf_bad))
    ctx.extra["hypothesis_violations"] = hyp_bad
    if mlines:
        ctx.sample({"scene_op": mlines[len(mlines) // 2][:300] + " ...", "model_output": mouts[len(mlines) // 2][:200]})
    ctx.extra["scene_stats"] = stats
    # a sort-level failure of the static mj_SAP / bfsort ops: look for an engine-level witness (mj_collision drops / invents a
    # pair on a many-body scene) so that the replay also shows the property itself failing
    sort_keys = ("c14:sap-incomplete", "c14:sap-unsound", "c14:sap-duplicate", "c14:sap-bad-pair", "c14:sap-count", "c14:bfsort-unsorted")
    if any(f[0] in sort_keys for f in found) and not any(f[0].startswith(("c14:missing-pair", "c14:extra-pair")) for f in found):
        import random
        try:
            f = search_cluster_scenes(ctx, impl, random.Random(ctx.seed * 7919 + 15), {k["key"] for k in ctx.known()})
        except common.Infra:
            f = None
        if f:
            found.append(f)
    for key, what, rp in found:
        ctx.oracle_failure(key, what, rp)
    ctx.extra["oracle_failures"] = len(found)

    def directed(c):
        """A proof / tie obligation broke but the oracle was silent: search harder (more and larger scenes, fresh randomness).
        Stages: (A) many-body cluster scenes (the only inputs on which the sorts behind the broad phase run more than one merge
        pass: > 32 collidable bodies / > 64 body pairs) judged by the brute-force contact oracle; (B) block-structured mj_SAP /
        bfsort ops judged by their oracles; (C) more of the ordinary generated scenes.  When the broken obligation is the tie of
        the static mj_SAP / bfsort / contactSort ops, the size-dependent stages A and B run first."""
        import random
        r2 = random.Random(ctx.seed * 7919 + 14)
        kn = {k["key"] for k in c.known()}

        def first_new(found2):
            for k, w, rp in found2:
                if k not in kn:
                    return {"key": k, "what": w, "replay": rp}
            return None

        def stage_cluster():
            f = search_cluster_scenes(c, impl, r2, kn)
            return {"key": f[0], "what": f[1], "replay": f[2]} if f else None

        def stage_ops():
            found2 = []
            lines2 = [gen_sap_case(r2, True)[1] for _ in range(8000)] + [gen_bfsort_line(r2) for _ in range(2000)]
            rc2, outs2, _ = c.run_lines([impl], lines2)
            if rc2 == 0 and len(outs2) == len(lines2):
                for l, o in zip(lines2, outs2):
                    r = None
                    if o != "bad-op":
                        r = sap_oracle(l, o) if l.startswith("sap ") else bfsort_oracle(l, o)
                    if r:
                        found2.append((r[0], r[1], {"op": l[:50000], "output": o[:2000], "replay": "echo '<op>' | c14_pairs"}))
            return first_new(found2)

        def stage_scenes():
            found2 = []
            b2, m2 = gen_blocks(r2, 500, 3, False)
            judge_scenes(c, run_harness_scenes(c, impl, b2), m2, lambda k, w, rp: found2.append((k, w, rp)), new_stats())
            return first_new(found2)

        sort_tie = any(str(dg.get("stream", "")).startswith("static mj_SAP") for dg in c.disagreements) or any(
            (not o["ok"]) and "static mj_SAP" in o["name"] for o in c.obligations)
        stages = (stage_cluster, stage_ops, stage_scenes) if sort_tie else (stage_scenes, stage_cluster, stage_ops)
        for st in stages:
            try:
                r = st()
            except common.Infra:
                r = None
            if r:
                return r
        return None
    ctx.directed_search = directed
    if thorough:
        ctx.leanchecker(["MjProof.Props.C14"])


def kernel_gen(name):
    def g(rng, inputs):
        if name == "filterBitmask":
            st = rng.choice(("small", "bits", "neg"))
            if st == "small":
                return [rng.randint(0, 4) for _ in inputs]
            if st == "bits":
                return [rng.choice((0, 1, 2, 4, 1 << 30, (1 << 31) - 1, rng.getrandbits(31))) for _ in inputs]
            return [rng.choice((-1, -2, 0, 1, -(1 << 31), rng.randint(-8, 8))) for _ in inputs]
        if name == "filterBodyPair":
            return [rng.randint(0, 3) if nm.startswith("weld") else rng.randint(0, 1) if nm.startswith(("asleep", "dsbl")) else
                    rng.choice((0, 0, 1, 6)) for nm, _ in inputs]
        if name in ("filterBox", "filterSphereBox"):
            st = rng.choice(("grid", "rand", "default"))
            if st == "grid":
                return [float(rng.randint(-2, 2)) * rng.choice((0.5, 1.0)) for _ in inputs]
            if st == "rand":
                return [rng.uniform(-1, 1) if "aabb" not in nm or nm[-1] in "012" else rng.uniform(0, 1) for nm, _ in inputs]
        if name == "filterSphere" and rng.random() < 0.4:
            # Pythagorean offsets: distsqr == bound*bound exactly
            a, b, c, d = rng.choice(((1, 2, 2, 3), (2, 3, 6, 7), (0, 3, 4, 5), (1, 4, 8, 9)))
            s = rng.choice((1.0, 0.5, 0.25))
            return [a * s, b * s, c * s, 0.0, 0.0, 0.0, d * s * rng.choice((1.0, 1.0, 1.0 + 2 ** -52, 1.0 - 2 ** -53, -1.0))]
        return kernelval.default_gen(rng, inputs)
    return g
