"""C09  Forward and inverse dynamics agree (DESIGN.md §5.C09).

P  lean/MjProof/Props/C09.lean: inverse_of_forward, inverse_residual_is_gradient (+ its link to C10's gradient),
   both_reach_constraintUpdate (on the generated call graph), invdiscrete_euler, invdiscrete_implicit.
T  translate/c09_calls.py regenerates the call graph of engine_inverse.c / engine_forward.c / engine_solver.c /
   engine_core_constraint.c on every run (Gen/C09Calls.lean: the theorem is re-checked against it); the dense model of
   mj_discreteAcc (Model/FwdInv.lean, compiled: drv_c09) is compared on doubles with the real static function,
   fed with the engine's own M and M - h*qDeriv (implicit) / M + h*diag(B) (Euler).
S  oracle on generated scenes (equality, friction loss, limits, contacts; every cone type; Newton and CG; islands on/off):
   forward with tolerance 1e-12 / 200 iterations, mj_inverse at the resulting qacc: where the forward solver converged,
   qfrc_inverse == qfrc_applied + J'xfrc_applied + qfrc_actuator and efc_force(inverse) == efc_force(forward) within
   1e-6 * scale; the same with mjENBL_INVDISCRETE at the discrete acceleration (v' - v)/h of an Euler / implicit /
   implicitfast step.
"""
import json
import math
import os
import struct
import sys

from gen.enums import E
from gen.models import ModelGen
from . import common

META = {
    "technique": "Lean 4 proofs over an abstract linear-algebra model of the two pipelines (Mathlib matrices), a decidable check of "
                 "call paths on a call graph regenerated from the C sources on every run, and algebra over the documented "
                 "discrete-time correction; tolerance differential of the dense Lean model of mj_discreteAcc against the static C "
                 "function; property oracle: forward with a tight solver, then mj_inverse, on generated scenes incl. invdiscrete",
    "text": "Proved over the reals for every inertia M, Jacobian J, reference acceleration, bias and passive force and EVERY constraint "
            "law F: if the acceleration a satisfies the forward stationarity equation M a = qfrc_smooth + J' F(J a - aref), the "
            "modelled inverse dynamics returns qfrc_inverse = qfrc_applied + J'xfrc_applied + qfrc_actuator and the same constraint "
            "forces; without convergence the discrepancy qfrc_inverse - expected is exactly the gradient of the solver's objective "
            "(the quantity C10's certificate bounds); on the call graph extracted from the sources mj_inverseSkip reaches "
            "mj_constraintUpdate_impl through mj_invConstraint and mj_fwdConstraint reaches the same function through "
            "mj_solNewton / mj_solCG / the island task -> mj_solPrimal -> PrimalUpdateConstraint and through warmstart; for "
            "positive definite M the discrete-time correction of mj_discreteAcc (Euler with implicit joint damping: "
            "M^-1 (M + h diag B) a_d; implicit: M^-1 (M - h D) a_d) maps the integrator's discrete acceleration back to the "
            "continuous one.",
    "note": "the model is abstract (matrices and an arbitrary force law); that the engine's arrays instantiate it (same M, J, aref, "
            "bias, passive force in both pipelines; qfrc_smooth composition; mj_rne / tendon bias) is covered by the oracle only. "
            "The call-graph check shows reachability of the shared function, not that it is the last writer of efc_force. PGS (dual "
            "solver: its efc_force is not an output of mj_constraintUpdate and its qacc is computed from its forces, so stationarity "
            "holds by construction) is outside the theorem: it is judged where it left its loop through its own exit test, at a looser "
            "tolerance. 'The forward solver has converged' is decided from the solver's outputs: scaled stationarity residual "
            "|M qacc - qfrc_smooth - qfrc_constraint| / (meaninertia nv) < 1e-9 (Newton, CG). One genuine deviation of the tree is "
            "reported under a stable key, only for PGS with elliptic cones: c09:pgs-elliptic-forward-inverse-mismatch (PGS stops off "
            "the optimum; same root cause as c10:pgs-elliptic-converges-off-optimum). c09:invdiscrete-ignores-disabled-damper "
            "(mj_discreteAcc ignored mjDSBL_DAMPER; fixed in /repo by 12e0c5659, the model's branch condition eulerDampActive now has "
            "both flags) stays as a silent regression probe with a directed input (damped two-link pendulum, Euler + invdiscrete + "
            "mjDSBL_DAMPER) plus the random mjDSBL_DAMPER configurations and the dacce tie with the flag set.",
}

THEOREMS = [
    "MjProof.C09.inverse_of_forward",
    "MjProof.C09.inverse_residual_is_gradient",
    "MjProof.C09.inverse_residual_is_c10_gradient",
    "MjProof.C09.both_reach_constraintUpdate",
    "MjProof.C09.discreteAcc_recovers",
    "MjProof.C09.invdiscrete_euler",
    "MjProof.C09.invdiscrete_euler_flags",
    "MjProof.C09.invdiscrete_implicit",
]

PROFILE = {
    "nbody": (1, 5), "free": 0.4, "ball": 0.15, "slide": 0.25, "plane": 0.9, "contacts": 1.0, "limits": 0.5,
    "damping": 0.6, "stiffness": 0.3, "frictionloss": 0.4, "actuators": (0, 3),
    "actuator_kinds": ("motor", "position", "velocity", "intvelocity", "damper", "general"),
    "tendons": 0.4, "equalities": 0.5, "sensors": (0, 0), "sleep": 0.0, "energy": 0.0, "keys": 0.0, "numeric": 0.0,
    "cameras": 0.0, "mocap": 0.05, "integrators": ("Euler", "implicit", "implicitfast"), "islands": 1.0, "no_warmstart": 0.0,
    "gravity": 0.95, "condim": (1, 3, 4, 6), "timestep": (0.001, 0.004), "no_eulerdamp": 0.15,
}

NEWTON, CG, PGS = E("mjSOL_NEWTON"), E("mjSOL_CG"), E("mjSOL_PGS")
SOLNAME = {NEWTON: "Newton", CG: "CG", PGS: "PGS"}
ITER = {NEWTON: 200, CG: 1000, PGS: 5000}
TOL = 1e-12
REL = 1e-6             # the property's tolerance, relative to the scale of the forces involved
REL_PGS = 1e-3         # PGS (dual solver, exits on its own dual improvement): calibrated, see oracle_stats
PGS_ELLIPTIC_KEY = "c09:pgs-elliptic-forward-inverse-mismatch"
DAMPER_KEY = "c09:invdiscrete-ignores-disabled-damper"
DACC_REL = 1e-8        # Lean dense model of mj_discreteAcc vs the C function (different factorisations of M)


def hexf(x):
    return "%016x" % struct.unpack("<Q", struct.pack("<d", float(x)))[0]


def unhex(s):
    return float("nan") if s == "nan" else struct.unpack("<d", struct.pack("<Q", int(s, 16)))[0]


def fmt(v):
    return " ".join(repr(float(x)) for x in v)


# directed input of the regression probe DAMPER_KEY (defect fixed in /repo by 12e0c5659): a damped two-link pendulum,
# Euler + mjENBL_INVDISCRETE + mjDSBL_DAMPER.  Before the fix qfrc_inverse was off by ~1e-2 of the force scale here.
DAMPER_PROBE = ["option timestep 0.002", "option integrator %d" % E("mjINT_EULER"), "option gravity 0 0 -9.81",
                "body 1 0", "name 1 b1", "set 1 pos 0 0 1", "joint 2 1", "set 2 type %d" % E("mjJNT_HINGE"), "set 2 axis 0 1 0",
                "set 2 damping 2.0", "geom 3 1", "set 3 type %d" % E("mjGEOM_CAPSULE"), "set 3 size 0.05 0.2", "set 3 pos 0.2 0 0",
                "set 3 contype 0", "set 3 conaffinity 0",
                "body 4 1", "name 4 b2", "set 4 pos 0.4 0 0", "joint 5 4", "set 5 type %d" % E("mjJNT_HINGE"), "set 5 axis 0 1 0",
                "set 5 damping 0.5", "set 5 limited %d" % E("mjLIMITED_TRUE"), "set 5 range -0.5 0.5",
                "geom 6 4", "set 6 type %d" % E("mjGEOM_CAPSULE"), "set 6 size 0.04 0.15", "set 6 pos 0.15 0 0",
                "set 6 contype 0", "set 6 conaffinity 0"]
DAMPER_PROBE_STATE = ["state qpos 0.3 0.7", "state qvel 1.5 -2.0", "state warm 0 0"]


def gen_script(ctx, nmodels):
    rng = ctx.rng
    script, meta = [], []
    INTEG = {"Euler": E("mjINT_EULER"), "implicit": E("mjINT_IMPLICIT"), "implicitfast": E("mjINT_IMPLICITFAST")}
    # regression probe first
    script += ["model"] + DAMPER_PROBE + ["end"]
    meta.append(("model", {"model": -1, "lines": DAMPER_PROBE}))
    pinfo = {"model": -1, "state": 0, "set": DAMPER_PROBE_STATE, "settle": 0}
    for l in DAMPER_PROBE_STATE:
        script.append(l)
        meta.append(("state", pinfo))
    script.append("dacc %d %d" % (INTEG["Euler"], E("mjDSBL_DAMPER")))
    meta.append(("dacc", dict(pinfo, op=script[-1])))
    script.append("settle 0")
    meta.append(("settle", pinfo))
    for dis in (E("mjDSBL_DAMPER"), 0, E("mjDSBL_EULERDAMP")):
        op = "fwdinv %d %d %d 1 %d 1 %d %d %r" % (NEWTON, E("mjCONE_PYRAMIDAL"), E("mjJAC_DENSE"), INTEG["Euler"], dis, ITER[NEWTON], TOL)
        script.append(op)
        meta.append(("fwdinv", dict(pinfo, op=op, solver=NEWTON, discrete=1, integ=INTEG["Euler"], cone=E("mjCONE_PYRAMIDAL"), dis=dis)))
    for mi in range(nmodels):
        mdl = ModelGen(rng, PROFILE).make()
        if mdl.nv == 0 or mdl.nv > 26:
            continue
        script.append("model")
        script += mdl.lines + ["end"]
        meta.append(("model", {"model": mi, "lines": mdl.lines}))
        for si in range(2):
            st = mdl.random_state(rng, scale=rng.choice((0.3, 1.0)))
            for j in mdl.joints:
                if j["type"] == "free" and rng.random() < 0.6:
                    st["qpos"][j["qposadr"] + 2] = rng.uniform(0.05, 0.4)
            setlines = []
            for f in ("qpos", "qvel", "act", "ctrl", "qfrc_applied", "xfrc_applied", "mocap_pos", "mocap_quat"):
                if st[f]:
                    setlines.append("state %s %s" % (f, fmt(st[f])))
            setlines.append("state warm %s" % fmt([rng.gauss(0, 3) for _ in range(mdl.nv)]))
            nsettle = rng.choice((0, 0, 2, 5))
            info = {"model": mi, "state": si, "set": setlines, "settle": nsettle}
            for l in setlines:
                script.append(l)
                meta.append(("state", info))
            # the dacc tie uses the random `warm` vector as discrete acceleration: before settle overwrites it
            for integ, dis in (("Euler", 0), ("implicit", 0), ("Euler", rng.choice((E("mjDSBL_DAMPER"), E("mjDSBL_EULERDAMP"))))):
                script.append("dacc %d %d" % (INTEG[integ], dis))
                meta.append(("dacc", dict(info, op="dacc %d %d" % (INTEG[integ], dis))))
            script.append("settle %d" % nsettle)
            meta.append(("settle", info))
            cone = rng.choice((E("mjCONE_PYRAMIDAL"), E("mjCONE_ELLIPTIC")))
            for solver in (NEWTON, CG, PGS):
                noisland = rng.choice((0, 1))
                jac = rng.choice((E("mjJAC_DENSE"), E("mjJAC_SPARSE")))
                cfgs = [(INTEG["Euler"], 0, 0)]
                if solver != PGS:
                    cfgs += [(INTEG[rng.choice(("Euler", "Euler", "implicit", "implicitfast"))], 1, 0)]
                    if rng.random() < 0.3:
                        cfgs += [(INTEG["Euler"], 1, E("mjDSBL_EULERDAMP"))]
                    if rng.random() < 0.3:
                        cfgs += [(INTEG[rng.choice(("Euler", "Euler", "implicit", "implicitfast"))], 1, E("mjDSBL_DAMPER"))]
                for integ, discrete, dis in cfgs:
                    op = "fwdinv %d %d %d %d %d %d %d %d %r" % (solver, cone, jac, noisland, integ, discrete, dis, ITER[solver], TOL)
                    script.append(op)
                    meta.append(("fwdinv", dict(info, op=op, solver=solver, discrete=discrete, integ=integ, cone=cone, dis=dis)))
    return script, meta


GRAD_CONV = 1e-9       # "the forward solver has converged": scaled stationarity residual (the solver's own `gradient` statistic,
                       # recomputed from its outputs) below 1e3 x the tolerance it was given


def grad_scaled(d):
    return math.sqrt(sum(x * x for x in d["grad_fwd"])) / (d["meaninertia"] * max(1, d["nv"]))


def converged(d):
    return grad_scaled(d) < GRAD_CONV


def converged_niter(d):
    """PGS: qacc is computed FROM its dual forces, so the stationarity residual vanishes by construction; what is left is the
    solver's own exit test (it stopped before the iteration limit)"""
    n = 1 if d["nisland"] <= 0 else min(d["nisland"], len(d["niter"]))
    return all(d["niter"][i] < d["iterations"] for i in range(n))


def run(ctx):
    ctx.rule = ("generated scenes, two states each (random, optionally settled), one cone type per state; per state: forward with "
                "Newton / CG / PGS at tolerance 1e-12 then mj_inverse (continuous), and for Newton / CG the discrete variant "
                "(mj_step, a_d = (v'-v)/h, mjENBL_INVDISCRETE) under Euler / implicit / implicitfast, islands and Jacobian storage "
                "random; plus two mj_discreteAcc op lines per state. A case is distinct by (model, state, op); non-trivial = nefc > 0")
    r = common.sh([sys.executable, os.path.join(common.VERIF, "translate", "c09_calls.py")], timeout=300)
    mp = os.path.join(common.LEAN, "MjProof", "Gen", "c09_calls_manifest.json")
    man = json.load(open(mp)) if os.path.exists(mp) else {"refused": "manifest missing"}
    ctx.oblige("c09_calls extracts the call graph and finds the five call paths (%s functions, %s edges)" % (man.get("functions"), man.get("edges")),
               "translator", r.returncode == 0 and not man.get("refused"), (r.stdout + r.stderr)[-500:] + str(man.get("refused")))
    ctx.extra["call_paths"] = man.get("paths")
    ctx.lean_props(THEOREMS)
    drv = ctx.driver("drv_c09")
    impl = ctx.harness("harness/c/c09_fwdinv.c", "c09_fwdinv", deps=["harness/mjbuild.h"])
    if not drv or not impl:
        return
    thorough = ctx.tier == "thorough"
    script, meta = gen_script(ctx, 150 if thorough else 20)
    rc, outs, err = ctx.run_lines([impl], script, timeout=3000)
    if rc != 0 or len(outs) != len(meta):
        ctx.oracle_failure("c09:harness-crash", "fwd/inv harness crashed or lost sync (rc=%s, %d outputs for %d commands)" % (rc, len(outs), len(meta)),
                           {"stderr": err[-500:]})
        return
    fails = {}

    def fail(key, what, replay):
        fails[key] = fails.get(key, 0) + 1
        if fails[key] <= 3:
            ctx.oracle_failure(key, what, replay)

    stats = {"fwdinv": 0, "judged": {}, "not_converged": {}, "max_rel_qfrc": {}, "max_rel_force": {}, "nefc_hist": {}, "dacc": 0,
             "max_dacc_rel": 0.0, "engine_errors": 0, "max_fwdinv_stat": 0.0}
    dlines, dexpect, dinfo = [], [], []
    cur = None
    for (kind, info), o in zip(meta, outs):
        if kind == "model":
            cur = info["lines"] if o.startswith("ok") else None
            if cur is None:
                ctx.oracle_failure("c09:model-rejected", "generated model rejected: " + o[:200], {"model": info["lines"]})
            continue
        if cur is None or kind in ("state", "settle"):
            continue
        rp = {"model_lines": cur, "state_lines": info["set"], "settle": info["settle"], "op": info["op"], "seed": ctx.seed, "tier": ctx.tier,
              "replay": "feed 'model' + model_lines + 'end', the state_lines, ('settle N' before a fwdinv op), then the op to the c09_fwdinv harness"}
        if o.startswith("error"):
            stats["engine_errors"] += 1
            fail("c09:engine-error", "engine error in %s: %s" % (info["op"], o[:200]), rp)
            continue
        if kind == "dacc":
            x, line = o.split(" | ", 1)
            dlines.append(line)
            dexpect.append([unhex(t) for t in x.split()])
            dinfo.append(rp)
            continue
        d = json.loads(o)
        stats["fwdinv"] += 1
        elliptic = any(t == E("mjCNSTR_CONTACT_ELLIPTIC") for t in d["type"])
        name = SOLNAME[d["solver"]] + ("/elliptic" if (elliptic and d["solver"] == PGS) else "") + ("/discrete" if d["discrete"] else "")
        ctx.count((info["model"], info["state"], info["op"], ctx.seed), nontrivial=d["nefc"] > 0)
        b = "0" if d["nefc"] == 0 else "1-10" if d["nefc"] <= 10 else "11-40" if d["nefc"] <= 40 else ">40"
        stats["nefc_hist"][b] = stats["nefc_hist"].get(b, 0) + 1
        if d["warn"] or not all(math.isfinite(x) for x in d["qfrc_inverse"] + d["qacc"]):
            continue
        if d["nefc_inv"] != d["nefc"]:
            fail("c09:constraint-count-differs", "%s: forward built %d constraint rows, inverse %d" % (name, d["nefc"], d["nefc_inv"]), rp)
            continue
        # scale of the forces the identity is made of
        fsc = max([1.0] + [abs(x) for x in d["expected"]] + [abs(x) for x in d["qfrc_constraint_fwd"]])
        if not d["discrete"] and d["solver"] != PGS:
            # sharper identity, valid whether or not the solver converged (Props/C09: inverse_residual_is_gradient, with equal
            # constraint forces): qfrc_inverse - expected == the stationarity residual of the forward solve
            esc0 = max([1.0] + [abs(x) for x in d["force_fwd"]])
            same_forces = d["nefc"] == 0 or max(abs(a - b_) for a, b_ in zip(d["force_inv"], d["force_fwd"])) <= REL * esc0
            rr = max(abs((a - b_) - g) for a, b_, g in zip(d["qfrc_inverse"], d["expected"], d["grad_fwd"])) / fsc
            if same_forces:
                stats["max_rel_residual_identity"] = max(stats.get("max_rel_residual_identity", 0.0), rr)
                if rr > REL:
                    fail("c09:residual-is-not-gradient", "%s: qfrc_inverse - expected differs from the forward stationarity residual "
                         "M qacc - qfrc_smooth - qfrc_constraint by %r relative to %r" % (name, rr, fsc), rp)
        if d["nefc"] and (not converged(d) or (d["solver"] == PGS and not converged_niter(d))):
            stats["not_converged"][name] = stats["not_converged"].get(name, 0) + 1
            continue
        stats["judged"][name] = stats["judged"].get(name, 0) + 1
        rq = max(abs(a - b_) for a, b_ in zip(d["qfrc_inverse"], d["expected"])) / fsc
        stats["max_rel_qfrc"][name] = max(stats["max_rel_qfrc"].get(name, 0.0), rq)
        if not d["discrete"]:
            stats["max_fwdinv_stat"] = max(stats["max_fwdinv_stat"], d["fwdinv1"] / fsc)
        rel = REL_PGS if d["solver"] == PGS else REL
        if d["solver"] == PGS and elliptic and rq > rel:
            fail(PGS_ELLIPTIC_KEY, "PGS with elliptic cones left its loop through its own exit test (%r iterations of %d) but mj_inverse at its qacc "
                 "returns qfrc_inverse differing from qfrc_applied + J'xfrc_applied + qfrc_actuator by %r relative to the force scale %r (same "
                 "root cause as c10:pgs-elliptic-converges-off-optimum: the returned acceleration is not the optimum)"
                 % (d["niter"][:3], d["iterations"], rq, fsc), rp)
            continue
        damper_off = bool(info["dis"] & E("mjDSBL_DAMPER")) and d["discrete"] and info["integ"] == E("mjINT_EULER")
        if damper_off:
            stats["max_rel_damper_off"] = max(stats.get("max_rel_damper_off", 0.0), rq)
        if damper_off and rq > rel:
            fail(DAMPER_KEY, "REGRESSION of the defect fixed by 12e0c5659: Euler + mjENBL_INVDISCRETE + mjDSBL_DAMPER: mj_EulerSkip skips the "
                 "implicit damping (it tests EULERDAMP and DAMPER) but mj_discreteAcc applies qfrc = (M + h*diag(B))*qacc: qfrc_inverse "
                 "differs from the applied forces by %r relative to the force scale %r (%s converged)" % (rq, fsc, name), rp)
            continue
        if rq > rel:
            fail("c09:qfrc-inverse-mismatch" + ("-discrete" if d["discrete"] else ""),
                 "%s (integrator %d) converged (%r iterations) but qfrc_inverse differs from qfrc_applied + J'xfrc_applied + qfrc_actuator by %r "
                 "relative to the force scale %r" % (name, info["integ"], d["niter"][:3], rq, fsc), rp)
        if d["nefc"]:
            esc = max([1.0] + [abs(x) for x in d["force_fwd"]])
            rf = max(abs(a - b_) for a, b_ in zip(d["force_inv"], d["force_fwd"])) / esc
            stats["max_rel_force"][name] = max(stats["max_rel_force"].get(name, 0.0), rf)
            if rf > rel:
                fail("c09:efc-force-mismatch" + ("-discrete" if d["discrete"] else ""),
                     "%s (integrator %d) converged but the inverse constraint forces differ from the forward ones by %r relative to %r"
                     % (name, info["integ"], rf, esc), rp)
    # ---- T: mj_discreteAcc vs the dense Lean model
    if dlines:
        rcl, lo, errl = ctx.run_lines([drv], dlines + ["dacc 0", "dacc 1 zz", "frob"])
        bad = []
        if rcl != 0 or len(lo) != len(dlines) + 3 or lo[-3:] != ["bad-op"] * 3:
            bad.append({"line": "driver", "model": lo[-3:] if lo else None, "impl": "rc=%s" % rcl})
        else:
            for line, out, exp, rp in zip(dlines, lo, dexpect, dinfo):
                if out == "fail":
                    bad.append({"line": line[:200], "model": out, "impl": exp[:4]})
                    continue
                xs = [unhex(t) for t in out.split()]
                sc = max([1.0] + [abs(v) for v in exp])
                dev = max([abs(a - b_) for a, b_ in zip(xs, exp)] + [0.0]) / sc if len(xs) == len(exp) else float("inf")
                stats["max_dacc_rel"] = max(stats["max_dacc_rel"], dev)
                stats["dacc"] += 1
                ctx.count(("dacc", line[:80], ctx.seed))
                if dev > DACC_REL:
                    bad.append({"line": line[:200], "model": xs[:4], "impl": exp[:4], "dev": dev, "replay": rp["op"]})
        ctx.oblige("correspondence mj_discreteAcc (static, engine_inverse.c) vs the dense Lean model on the engine's own M and Mhat "
                   "(%d lines, max relative deviation %.2e, tolerance %g)" % (stats["dacc"], stats["max_dacc_rel"], DACC_REL),
                   "correspondence", not bad, json.dumps(bad[:3], default=str))
        if bad:
            ctx.disagreements += [dict(b, stream="discreteAcc") for b in bad[:20]]
    ctx.extra["oracle_stats"] = stats
    ctx.extra["oracle_failures"] = fails
    ctx.extra["thresholds"] = {"rel": REL, "dacc_rel": DACC_REL, "tolerance": TOL}
    ctx.assumptions.append("C09: that the engine's arrays instantiate the abstract model (shared M, J, aref, bias and passive forces) is sampled, not proved")
    if dlines:
        ctx.sample({"dacc_line": dlines[0][:160] + " ..."})
    ctx.sample({"judged": stats["judged"], "max_rel_qfrc": stats["max_rel_qfrc"], "max_rel_force": stats["max_rel_force"]})
