"""C28  Sensors report the quantities they are documented to measure (DESIGN.md §5.C28).

P  Lean theorems (lean/MjProof/Props/C28.lean) over the reals about the hand model lean/MjProof/Model/Sensor.lean, which
   is written on top of the *generated* kernels (mju_clip, mju_min, mju_mulMatTVec3, mju_negQuat, mju_mulQuat, mju_cross,
   mju_transformSpatial[_world]; regenerated from the working tree by translate/c2lean.py on every run).
T  translator regeneration + bitwise translation validation of those kernels, and a bitwise differential of the hand
   model (Lean on Float, lean/Drivers/C28.lean) against the *unmodified* functions of engine_sensor.c (apply_cutoff,
   mj_computeSensor -> mj_computeSensorPos/Vel/Acc, reached by #include in harness/c/c28_sensors.c) on crafted
   mjModel/mjData views, and of the sensor_adr layout against mj_compile.
S  property oracle on the real engine: generated models carrying every sensor type this module can attach; every reading
   is recomputed in Python from mjData primitives and from Jacobian-API reference motions, cutoff applied where documented,
   two poison values detect entries a sensor did not write.
"""
import json
import math
import os

from checks import common, kernelval
from gen import enums
from gen.models import ModelGen, unit_quat, unit_vec, fmt

E = enums.E

META = {
    "technique": "hand model of the sensor stage over the c2lean-generated kernels (regenerated every run) + Lean 4 proofs over the reals (unfolding, case split, ring; list induction for the slice layout) + bitwise translation validation of the kernels + bitwise differential of the model against the unmodified static functions of engine_sensor.c on crafted mjModel/mjData views + property oracle on generated models (independent recomputation of every attached sensor from mjData primitives and Jacobian-API reference motions; poison values for unwritten entries)",
    "text": "Proved over the reals for all inputs about the model (tied bitwise to apply_cutoff / mj_computeSensor of the tree): apply_cutoff never changes the number of entries; for a positive cutoff and a non-exempt type every REAL entry becomes the clamp of the entry to [-c, c] (in range, identity on in-range entries, idempotent) and every POSITIVE entry becomes min(c, x) (<= c, identity below c); AXIS and QUATERNION data, the exempt types CONTACT and GEOMFROMTO, and every sensor with cutoff <= 0 are left untouched.  For every list of sensor dimensions the slices [adr_i, adr_i + dim_i) produced by the running-sum layout are pairwise disjoint, ordered, contained in [0, nsensordata) and every index below nsensordata lies in exactly one slice (they tile sensordata); nsensordata is the sum of the dimensions.  Frame sensors: FRAMEPOS with a reference frame equals R_ref^T (p - p_ref) and (for orthogonal R_ref) p = p_ref + R_ref * reading; FRAMEXAXIS/Y/Z with a reference equals R_ref^T times the object's axis, i.e. column k of R_ref^T R; FRAMEQUAT with a reference is conj(q_ref) * q, so q_ref * reading = q for a unit reference and its rotation matrix is R(q_ref)^T R(q); without a reference the readings are the global position / axis / quaternion; FRAMELINVEL / FRAMEANGVEL with a reference equal R_ref^T (v - v_ref - w_ref x (p - p_ref)) and R_ref^T (w - w_ref), and the linear one is the time derivative of the FRAMEPOS reading whenever dR_ref/dt = [w_ref]x R_ref (stated algebraically); mj_objectVelocity (site frame: velocimeter, gyro) is R^T (v_c + w x (p - c)), R^T w of the com-based spatial velocity; mj_objectAcceleration (accelerometer, framelinacc) adds the w x v term to the transported spatial acceleration; force / torque sensors are R^T f and R^T (tau - (p - c) x f) of cfrc_int; objects welded to a dof-less body read zero velocity and acceleration.",
    "note": "Stated over the reals (the differential is bitwise on doubles; the oracle uses tolerance 1e-9 x scale).  `_partial`: only the cutoff, layout, FRAME*, velocimeter, gyro, accelerometer, force and torque computations are modelled and proved; every other attached type (joint/tendon/actuator pos/vel/frc, limit pos/vel/frc, ball quat/angvel, touch, subtree com/linvel/angmom, magnetometer, clock, kinetic/potential energy, insidesite, user sensors with every datatype) is decided by the oracle only, as are the values of cacc / cfrc_int themselves (mj_rnePostConstraint is not modelled: the accelerometer oracle compares with J qacc + Jdot qvel - g through the Jacobian API, force/torque with cfrc_int).  TWO GENUINE DEFECTS of the tree (recorded as known findings) are reported by the oracle under stable keys, each assigned only when the specific signature is observed (E_KINETIC: energy flag set, first forward = kinetic energy of the previous evaluation, second forward = correct value; accelerometer: dof-less body and a reading of exactly zero) -- any other wrong reading of the same sensor types is reported as c28:E_KINETIC:wrong-value / c28:E_KINETIC:not-a-function-of-the-state / c28:ACCELEROMETER:value: (1) c28:E_KINETIC:value -- mjSENS_E_KINETIC is a POSITION-stage sensor guarded by d->flg_energyvel, but that flag is only cleared by mj_fwdVelocity, which runs AFTER mj_sensorPos; with mjENBL_ENERGY set the flag is still 1 from the previous evaluation, so the sensor returns the kinetic energy of the PREVIOUS mj_forward / mj_step (one-step lag; after qvel is changed from 0 it reads 0) and repeating mj_forward on the same state changes the reading; (2) c28:accelerometer:static-body-reads-zero -- mj_objectAcceleration returns zero for every object welded to a dof-less body (world, static, mocap), so an accelerometer mounted there reads (0,0,0) although the documentation says it measures the linear acceleration of the site *including gravity* (a resting accelerometer reads -g; the model-side counterpart is theorem static_body_zero_motion).  FRAMELINACC documents no gravity term at all, so both 0 and -g are accepted for it on such bodies.  Every 9th oracle model is a directed touch scene (contact point outside the zone, normal ray through it) so that the re-projection rule of the touch sensor is exercised in both body orders.  Every built-in sensor is also recomputed through the public mj_computeSensor into a canary-guarded buffer (a sensor of dimension d must write exactly d entries).  Not attached / not checked: rangefinder, camprojection, geomdist/normal/fromto, contact, tactile, plugin sensors, sensor history (delay / interval).  get_xpos_xmat / get_xquat array selection is part of the model and of the differential.  The enumerator numerals never appear in Lean: op lines carry names (read by the model) and the header values (read by the C side), both derived from the tree's headers by this module.",
}

P = "MjProof.C28."
THEOREMS = [P + t for t in (
    "applyCutoff_length", "cutoff_clamps_real", "cutoff_clamps_positive", "cutoff_noop", "cutoff_idempotent",
    "nsensordata_eq_sum", "sensorAdr_length", "sensor_slices_disjoint", "sensor_slices_tile", "sensor_slice_bound",
    "framePos_eq_spec", "framePos_global", "framePos_inverts", "frameAxis_eq_spec", "frameQuat_eq_spec",
    "frameQuat_recovers", "frameQuat_matrix", "frameVel_eq_spec", "frameLinVel_is_derivative", "objectVelocity_local_eq_spec",
    "objectVelocity_world_eq_spec", "objectAcceleration_eq_spec", "siteWrench_eq_spec", "static_body_zero_motion",
    "computeSensor_frame_eq_spec_partial",
)]

KERNELS = ["mju_clip", "mju_min", "mju_mulMatTVec3", "mju_negQuat", "mju_mulQuat", "mju_cross", "mju_transformSpatial",
           "mju_transformSpatial_world"]

TOL = 1e-9
OBJ = {"body": "mjOBJ_BODY", "xbody": "mjOBJ_XBODY", "geom": "mjOBJ_GEOM", "site": "mjOBJ_SITE", "camera": "mjOBJ_CAMERA"}
DT = {"real": "mjDATATYPE_REAL", "positive": "mjDATATYPE_POSITIVE", "axis": "mjDATATYPE_AXIS", "quaternion": "mjDATATYPE_QUATERNION"}
KINDS = {"framepos": "mjSENS_FRAMEPOS", "framexaxis": "mjSENS_FRAMEXAXIS", "frameyaxis": "mjSENS_FRAMEYAXIS",
         "framezaxis": "mjSENS_FRAMEZAXIS", "framequat": "mjSENS_FRAMEQUAT", "velocimeter": "mjSENS_VELOCIMETER",
         "gyro": "mjSENS_GYRO", "framelinvel": "mjSENS_FRAMELINVEL", "frameangvel": "mjSENS_FRAMEANGVEL",
         "accelerometer": "mjSENS_ACCELEROMETER", "force": "mjSENS_FORCE", "torque": "mjSENS_TORQUE",
         "framelinacc": "mjSENS_FRAMELINACC", "frameangacc": "mjSENS_FRAMEANGACC"}
SITE_KINDS = ("velocimeter", "gyro", "accelerometer", "force", "torque")
REF_KINDS = ("framepos", "framexaxis", "frameyaxis", "framezaxis", "framequat", "framelinvel", "frameangvel")


def fb(x):
    return kernelval.fbits(float(x))


# ------------------------------------------------------------------------------------------ small vector math
def dot(a, b):
    return sum(x * y for x, y in zip(a, b))


def sub(a, b):
    return [x - y for x, y in zip(a, b)]


def add(a, b):
    return [x + y for x, y in zip(a, b)]


def scl(a, s):
    return [x * s for x in a]


def cross(a, b):
    return [a[1] * b[2] - a[2] * b[1], a[2] * b[0] - a[0] * b[2], a[0] * b[1] - a[1] * b[0]]


def norm(a):
    return math.sqrt(dot(a, a))


def mv(m, v):
    return [m[0] * v[0] + m[1] * v[1] + m[2] * v[2], m[3] * v[0] + m[4] * v[1] + m[5] * v[2], m[6] * v[0] + m[7] * v[1] + m[8] * v[2]]


def mtv(m, v):
    return [m[0] * v[0] + m[3] * v[1] + m[6] * v[2], m[1] * v[0] + m[4] * v[1] + m[7] * v[2], m[2] * v[0] + m[5] * v[1] + m[8] * v[2]]


def mtm(a, b):
    """a^T b, row-major"""
    return [sum(a[3 * k + i] * b[3 * k + j] for k in range(3)) for i in range(3) for j in range(3)]


def qmul(a, b):
    return [a[0] * b[0] - a[1] * b[1] - a[2] * b[2] - a[3] * b[3],
            a[0] * b[1] + a[1] * b[0] + a[2] * b[3] - a[3] * b[2],
            a[0] * b[2] - a[1] * b[3] + a[2] * b[0] + a[3] * b[1],
            a[0] * b[3] + a[1] * b[2] - a[2] * b[1] + a[3] * b[0]]


def qconj(q):
    return [q[0], -q[1], -q[2], -q[3]]


def qmat(q):
    q0, q1, q2, q3 = q
    return [q0 * q0 + q1 * q1 - q2 * q2 - q3 * q3, 2 * (q1 * q2 - q0 * q3), 2 * (q1 * q3 + q0 * q2),
            2 * (q1 * q2 + q0 * q3), q0 * q0 - q1 * q1 + q2 * q2 - q3 * q3, 2 * (q2 * q3 - q0 * q1),
            2 * (q1 * q3 - q0 * q2), 2 * (q2 * q3 + q0 * q1), q0 * q0 - q1 * q1 - q2 * q2 + q3 * q3]


def maxdiff(a, b):
    return max((abs(x - y) for x, y in zip(a, b)), default=0.0)


def finite(xs):
    return all(x == x and abs(x) != float("inf") for x in xs)


# ------------------------------------------------------------------------------------------ differential op lines
SPECIAL = [0.0, -0.0, 1.0, -1.0, 0.5, 2.0, 1e-300, 1e300, float("inf"), float("-inf"), float("nan"), 1e-15, 3.0, -7.5]


def rnum(rng):
    r = rng.random()
    if r < 0.15:
        return rng.choice(SPECIAL)
    if r < 0.3:
        return rng.uniform(-1, 1) * 10 ** rng.randint(-8, 8)
    return rng.gauss(0, 2)


def gen_cutoff_lines(ctx, n):
    rng = ctx.rng
    sens = sorted((v, k) for k, v in enums.load().items() if k.startswith("mjSENS_"))
    exempt = {E("mjSENS_CONTACT"), E("mjSENS_GEOMFROMTO")}
    lines = []
    hist = {}
    # every sensor type x every datatype at least once
    combos = [(t, d) for t, _ in sens for d in DT]
    for i in range(n):
        t, d = combos[i] if i < len(combos) else (rng.choice(sens)[0], rng.choice(list(DT)))
        r = rng.random()
        c = rng.choice((0.0, -0.0, -1.0, float("nan"), float("inf"), 1e-300)) if r < 0.2 else abs(rng.gauss(0, 1.5)) + 1e-3
        cnt = rng.choice((0, 1, 1, 3, 4, 6, rng.randint(0, 12)))
        xs = [rnum(rng) for _ in range(cnt)]
        if rng.random() < 0.3 and cnt and c == c and c > 0:
            xs[0] = c * rng.choice((1.0, -1.0))            # exactly at the boundary
        cls = "exempt" if t in exempt else "regular"
        lines.append("cutoff %s %d %s %d %s %d %s" % (cls, t, d, E(DT[d]), fb(c), cnt, " ".join(fb(x) for x in xs)))
        k = "cutoff:%s:%s:%s" % (cls, d, "c<=0|nan" if not (c > 0) else "c>0")
        hist[k] = hist.get(k, 0) + 1
    ctx.extra.setdefault("differential_input_classes", {}).update(hist)
    return [l.rstrip() for l in lines]


def gen_layout_lines(ctx, n):
    rng = ctx.rng
    lines = ["layout", "layout 0", "layout 0 0 3 0", "layout 1", "layout 3 4 1 6 1"]
    for _ in range(n):
        k = rng.choice((1, 2, 3, 5, 8, 13, rng.randint(0, 40)))
        lines.append(("layout " + " ".join(str(rng.choice((0, 1, 1, 3, 3, 4, 6, rng.randint(0, 50)))) for _ in range(k))).strip())
    return lines


def rand_mat(rng, style):
    if style == "rot":
        return qmat(unit_quat(rng))
    return [rng.gauss(0, 1) for _ in range(9)]


def gen_scene(rng):
    nb = rng.randint(1, 4)
    style = rng.choice(("rot", "rot", "any"))
    toks = []
    cnts = [rng.randint(1, 3) for _ in range(3)]
    for b in range(nb):
        toks += [str(rng.randrange(nb)), str(rng.randrange(nb)), str(rng.choice((0, 0, 1, 3, 6)))]
        vals = ([rng.gauss(0, 1) for _ in range(3)] + rand_mat(rng, style) + [rng.gauss(0, 1) for _ in range(3)] + rand_mat(rng, style) +
                (unit_quat(rng) if style == "rot" else [rng.gauss(0, 1) for _ in range(4)]) +
                (unit_quat(rng) if style == "rot" else [rng.gauss(0, 1) for _ in range(4)]) +
                [rng.gauss(0, 2) for _ in range(18)] + [rng.gauss(0, 1) for _ in range(3)])
        if rng.random() < 0.1:
            vals[rng.randrange(len(vals))] = rng.choice((0.0, -0.0, 1e300, float("inf")))
        toks += [fb(v) for v in vals]
    for k in range(3):
        for i in range(cnts[k]):
            toks.append(str(rng.randrange(nb)))
            vals = [rng.gauss(0, 1) for _ in range(3)] + rand_mat(rng, style) + (unit_quat(rng) if style == "rot" else [rng.gauss(0, 1) for _ in range(4)])
            toks += [fb(v) for v in vals]
    return nb, cnts, toks, style


def gen_sensor_lines(ctx, n):
    rng = ctx.rng
    lines, hist = [], {}
    kinds = list(KINDS)
    objs = list(OBJ)
    i = 0
    while len(lines) < n:
        kind = kinds[i % len(kinds)]
        i += 1
        nb, cnts, toks, style = gen_scene(rng)
        count = {"body": nb, "xbody": nb, "geom": cnts[0], "site": cnts[1], "camera": cnts[2]}
        ot = "site" if kind in SITE_KINDS else rng.choice(objs)
        oid = rng.randrange(count[ot])
        if kind in REF_KINDS and rng.random() < 0.65:
            rt = rng.choice(objs)
            rid = rng.randrange(count[rt])
            rtok = "%s %d %d" % (rt, E(OBJ[rt]), rid)
        else:
            rt = None
            rtok = "none %d -1" % E("mjOBJ_UNKNOWN")
        r = rng.random()
        dtn = "quaternion" if kind == "framequat" else "axis" if kind in ("framexaxis", "frameyaxis", "framezaxis") else "real"
        if r < 0.1:
            dtn = rng.choice(list(DT))      # the C function takes whatever datatype the model says
        c = 0.0 if rng.random() < 0.5 else abs(rng.gauss(0, 1)) + 1e-3
        lines.append("sensor %s %d %s %d %s %s %d %d %s %d %d %d %d %s" % (
            kind, E(KINDS[kind]), dtn, E(DT[dtn]), fb(c), ot, E(OBJ[ot]), oid, rtok, nb, cnts[0], cnts[1], cnts[2], " ".join(toks)))
        k = "sensor:%s:obj=%s:ref=%s:%s" % (kind, ot, rt, style)
        hist[k] = hist.get(k, 0) + 1
    ctx.extra.setdefault("differential_input_classes", {}).update({"sensor-lines": len(lines), "sensor-classes": len(hist)})
    # malformed lines: both sides must reject
    lines.append("sensor framepos %d real %d %s site %d 0 none %d -1 1 1 1 1" % (E("mjSENS_FRAMEPOS"), E("mjDATATYPE_REAL"), fb(0.0), E("mjOBJ_SITE"), E("mjOBJ_UNKNOWN")))
    lines.append("sensor nosuchkind 1 real 0 %s site 6 0 none 0 -1 0 0 0 0" % fb(0.0))
    lines.append("frob 1 2 3")
    return lines


# ------------------------------------------------------------------------------------------ oracle: model generation
PROFILE = {"nbody": (2, 6), "sensors": (0, 0), "sites": 1.0, "cameras": 0.5, "tendons": 0.8, "actuators": (1, 3),
           "limits": 0.6, "mocap": 0.15, "static_body": 0.25, "energy": 0.5, "ball": 0.25, "free": 0.4, "keys": 0.0,
           "integrators": ("Euler", "implicit", "implicitfast"), "sleep": 0.0, "equalities": 0.3, "gravity": 0.85}

SITE_SHAPES = ("SPHERE", "BOX", "ELLIPSOID", "CAPSULE", "CYLINDER")
TOUCH_SHAPES = ("SPHERE", "BOX", "ELLIPSOID")
NO_CUTOFF = ("FRAMEQUAT", "BALLQUAT", "FRAMEXAXIS", "FRAMEYAXIS", "FRAMEZAXIS")


class Scene:
    """a generated model with the sensors this module attached"""

    def __init__(self, rng, all_types=False):
        g = ModelGen(rng, PROFILE)
        mdl = g.make()
        self.mdl, self.rng = mdl, rng
        self.h = g.h
        L = mdl.lines.append
        # name -> handle, cameras, tendon coefficients
        self.handle, self.cams, self.tendon_wrap = {}, [], {}
        kinds = {}
        for ln in mdl.lines:
            w = ln.split()
            if w[0] in ("camera", "tendon", "site", "joint", "body", "geom", "actuator", "freejoint"):
                kinds[w[1]] = w[0]
            if w[0] == "name":
                self.handle[w[2]] = int(w[1])
                if kinds.get(w[1]) == "camera":
                    self.cams.append(w[2])
            if w[0] == "wrap":
                self.tendon_wrap.setdefault(int(w[1]), []).append(w[2:])
        # site shapes (the generator leaves the default tiny sphere): give every site a zone of a definite shape
        self.site_shape = {}
        for s in mdl.sites:
            shape = rng.choice(SITE_SHAPES)
            size = [rng.uniform(0.08, 0.4) for _ in range(3)]
            L("set %d type %d" % (self.handle[s["name"]], E("mjGEOM_" + shape)))
            L("set %d size %s" % (self.handle[s["name"]], fmt(size)))
            self.site_shape[s["name"]] = shape
        # tendons: limits chosen here so that the check knows them; one tendon-transmission motor for TENDONACTFRC
        self.tendon_limited = {}
        for t in mdl.tendons:
            th = self.handle[t["name"]]
            if rng.random() < 0.6:
                rg = (-0.4, 0.4) if t["kind"] == "fixed" else (0.15, 0.7)
                L("set %d limited %d" % (th, E("mjLIMITED_TRUE")))
                L("set %d range %s" % (th, fmt(rg)))
                if rng.random() < 0.5:
                    L("set %d margin %r" % (th, rng.uniform(0.0, 0.3)))
                self.tendon_limited[t["name"]] = True
            else:
                L("set %d limited %d" % (th, E("mjLIMITED_FALSE")))
                self.tendon_limited[t["name"]] = False
        if mdl.tendons and rng.random() < 0.7:
            t = rng.choice(mdl.tendons)
            ah = self.newh()
            an = "at%d" % ah
            L("actuator %d" % ah)
            L("name %d %s" % (ah, an))
            L("set %d trntype %d" % (ah, E("mjTRN_TENDON")))
            L("set %d target %s" % (ah, t["name"]))
            L("set %d gear %r" % (ah, rng.uniform(0.5, 2)))
            mdl.actuators.append({"name": an, "kind": "motor", "joint": None, "tendon": t["name"], "na": 0})
            mdl.nu += 1
        for j in mdl.joints:
            if j["limited"] and rng.random() < 0.5:
                L("set %d margin %r" % (j["handle"], rng.uniform(0.0, 0.3)))
        if rng.random() < 0.5:
            L("option magnetic %s" % fmt([rng.gauss(0, 0.5) for _ in range(3)]))
        self.sensors = []
        self.attach(all_types)

    def newh(self):
        self.h += 1
        return self.h

    def frame_objects(self):
        m = self.mdl
        out = [("body", b["name"]) for b in m.bodies] + [("xbody", b["name"]) for b in m.bodies] + [("body", "world"), ("xbody", "world")]
        out += [("geom", g["name"]) for g in m.geoms] + [("site", s["name"]) for s in m.sites] + [("camera", c) for c in self.cams]
        return out

    def add(self, stype, objtype=None, objname=None, reftype=None, refname=None, cutoff=None, **extra):
        L = self.mdl.lines.append
        sh = self.newh()
        sn = "sn%d" % (len(self.sensors) + 1)
        # the compiler rejects a cutoff on AXIS / QUATERNION data ("cutoff applied to axis or quaternion datatype"):
        # those datatypes meet apply_cutoff only in the differential ops
        if stype in NO_CUTOFF or extra.get("datatype") in (E("mjDATATYPE_AXIS"), E("mjDATATYPE_QUATERNION")):
            cutoff = None
        L("sensor %d" % sh)
        L("name %d %s" % (sh, sn))
        L("set %d type %d" % (sh, E("mjSENS_" + stype)))
        if objtype:
            L("set %d objtype %d" % (sh, E(objtype)))
            L("set %d objname %s" % (sh, objname))
        if reftype:
            L("set %d reftype %d" % (sh, E(reftype)))
            L("set %d refname %s" % (sh, refname))
        if cutoff is not None:
            L("set %d cutoff %r" % (sh, cutoff))
        for k, v in extra.items():
            L("set %d %s %s" % (sh, k, v))
        self.sensors.append({"name": sn, "type": stype, "objtype": objtype, "objname": objname, "reftype": reftype,
                             "refname": refname, "cutoff": cutoff, "extra": extra})

    def attach(self, all_types):
        rng, m = self.rng, self.mdl
        sj = [j for j in m.joints if j["type"] in ("hinge", "slide")]
        balls = [j for j in m.joints if j["type"] == "ball"]
        limited = [j for j in m.joints if j["limited"]]
        fo = self.frame_objects()
        cands = []   # (type, thunk)

        def cut(p=0.35, lo=0.05, hi=3.0):
            return rng.uniform(lo, hi) if rng.random() < p else None

        for st in ("JOINTPOS", "JOINTVEL", "JOINTACTFRC"):
            if sj:
                cands.append((st, lambda st=st: self.add(st, "mjOBJ_JOINT", rng.choice(sj)["name"], cutoff=cut())))
        for st in ("JOINTLIMITPOS", "JOINTLIMITVEL", "JOINTLIMITFRC"):
            if limited:
                cands.append((st, lambda st=st: self.add(st, "mjOBJ_JOINT", rng.choice(limited)["name"], cutoff=cut())))
        for st in ("BALLQUAT", "BALLANGVEL"):
            if balls:
                cands.append((st, lambda st=st: self.add(st, "mjOBJ_JOINT", rng.choice(balls)["name"], cutoff=cut())))
        for st in ("TENDONPOS", "TENDONVEL", "TENDONACTFRC"):
            if m.tendons:
                cands.append((st, lambda st=st: self.add(st, "mjOBJ_TENDON", rng.choice(m.tendons)["name"], cutoff=cut())))
        lt = [t for t in m.tendons if self.tendon_limited[t["name"]]]
        for st in ("TENDONLIMITPOS", "TENDONLIMITVEL", "TENDONLIMITFRC"):
            if lt:
                cands.append((st, lambda st=st: self.add(st, "mjOBJ_TENDON", rng.choice(lt)["name"], cutoff=cut())))
        for st in ("ACTUATORPOS", "ACTUATORVEL", "ACTUATORFRC"):
            if m.actuators:
                cands.append((st, lambda st=st: self.add(st, "mjOBJ_ACTUATOR", rng.choice(m.actuators)["name"], cutoff=cut())))
        if m.sites:
            for st in ("ACCELEROMETER", "VELOCIMETER", "GYRO", "FORCE", "TORQUE", "MAGNETOMETER"):
                cands.append((st, lambda st=st: self.add(st, "mjOBJ_SITE", rng.choice(m.sites)["name"], cutoff=cut())))
            ts = [s for s in m.sites if self.site_shape[s["name"]] in TOUCH_SHAPES]
            if ts:
                cands.append(("TOUCH", lambda: self.add("TOUCH", "mjOBJ_SITE", rng.choice(ts)["name"], cutoff=cut(0.3, 0.5, 50.0))))
            cands.append(("INSIDESITE", lambda: self.add("INSIDESITE", *self.pick_obj(fo), "mjOBJ_SITE", rng.choice(m.sites)["name"])))
        for st in ("FRAMEPOS", "FRAMEQUAT", "FRAMEXAXIS", "FRAMEYAXIS", "FRAMEZAXIS", "FRAMELINVEL", "FRAMEANGVEL", "FRAMELINACC", "FRAMEANGACC"):
            def mk(st=st, ref=False):
                o = self.pick_obj(fo)
                r = self.pick_obj(fo) if ref else (None, None)
                self.add(st, o[0], o[1], r[0], r[1], cutoff=cut())
            cands.append((st, mk))
            if st not in ("FRAMELINACC", "FRAMEANGACC"):
                cands.append((st + "+ref", lambda mk=mk: mk(ref=True)))
        for st in ("SUBTREECOM", "SUBTREELINVEL", "SUBTREEANGMOM"):
            cands.append((st, lambda st=st: self.add(st, "mjOBJ_BODY", rng.choice([b["name"] for b in m.bodies] + ["world"]), cutoff=cut())))
        for st in ("CLOCK", "E_POTENTIAL", "E_KINETIC"):
            cands.append((st, lambda st=st: self.add(st, cutoff=cut())))

        def user():
            dt = rng.choice(list(DT))
            dim = 3 if dt == "axis" else 4 if dt == "quaternion" else rng.choice((0, 1, 2, 3, 5))
            self.add("USER", cutoff=cut(0.8, 0.1, 2.0), dim=dim, datatype=E(DT[dt]),
                     needstage=E(rng.choice(("mjSTAGE_POS", "mjSTAGE_VEL", "mjSTAGE_ACC"))))
        cands.append(("USER", user))
        if all_types:
            chosen = list(cands)
            rng.shuffle(chosen)
        else:
            chosen = [rng.choice(cands) for _ in range(rng.randint(4, 14))]
        for _, thunk in chosen:
            thunk()

    def pick_obj(self, fo):
        k, n = self.rng.choice(fo)
        return OBJ[k], n

    def state_lines(self, rng):
        m = self.mdl
        st = m.random_state(rng)
        if rng.random() < 0.25:
            st["qvel"] = [0.0] * m.nv
        lines = []
        for k in ("qpos", "qvel", "act", "ctrl", "mocap_pos", "mocap_quat", "qfrc_applied", "xfrc_applied"):
            if st[k]:
                lines.append("state %s %s" % (k, fmt(st[k])))
        lines.append("state time %r" % rng.uniform(0, 3))
        uv = [rng.gauss(0, 1.5) for _ in range(rng.randint(1, 9))]
        lines.append("usersensor " + fmt(uv))
        return lines, uv


class TouchScene:
    """directed scene for the re-projection rule of the touch sensor: a free sphere pressed into the floor; zone s1 sits
    on the sphere's body just *outside* the surface below the contact point, zone s2 on the world body just above the
    floor, zone s3 contains the contact point.  The contact point is outside s1 and s2, the normal ray leaving the
    sensorised body passes through them, the opposite ray does not."""

    def __init__(self, rng):
        from gen.models import Model
        m = Model()
        L = m.lines.append
        self.mdl, self.rng = m, rng
        self.r = rng.uniform(0.08, 0.2)
        self.x, self.y = rng.uniform(-0.5, 0.5), rng.uniform(-0.5, 0.5)
        L("option timestep 0.002")
        L("geom 1 0"); L("set 1 type %d" % E("mjGEOM_PLANE")); L("set 1 size 5 5 0.1"); L("name 1 floor")
        L("body 2 0"); L("name 2 b1"); L("set 2 pos 0 0 0")
        L("freejoint 3 2"); L("name 3 j1")
        L("geom 4 2"); L("name 4 g1"); L("set 4 type %d" % E("mjGEOM_SPHERE")); L("set 4 size %r" % self.r)
        zone = rng.uniform(0.02, 0.04)
        for h, body, nm, pos, size in ((5, 2, "s1", [0, 0, -(self.r + zone + 0.012)], zone),
                                       (6, 0, "s2", [self.x, self.y, zone + 0.012], zone),
                                       (7, 2, "s3", [0, 0, -self.r], 0.06)):
            L("site %d %d" % (h, body)); L("name %d %s" % (h, nm)); L("set %d pos %s" % (h, fmt(pos)))
            L("set %d type %d" % (h, E("mjGEOM_SPHERE"))); L("set %d size %r" % (h, size))
        m.sites = [{"name": "s1", "body": "b1"}, {"name": "s2", "body": "world"}, {"name": "s3", "body": "b1"}]
        m.nq, m.nv = 7, 6
        self.h = 7
        self.handle, self.tendon_wrap, self.sensors = {}, {}, []
        for nm in ("s1", "s2", "s3", "s1"):
            self.h += 1
            c = rng.uniform(1.0, 30.0) if rng.random() < 0.3 else None
            L("sensor %d" % self.h); L("name %d sn%d" % (self.h, len(self.sensors) + 1))
            L("set %d type %d" % (self.h, E("mjSENS_TOUCH"))); L("set %d objtype %d" % (self.h, E("mjOBJ_SITE")))
            L("set %d objname %s" % (self.h, nm))
            if c:
                L("set %d cutoff %r" % (self.h, c))
            self.sensors.append({"name": "sn%d" % (len(self.sensors) + 1), "type": "TOUCH", "objtype": "mjOBJ_SITE", "objname": nm,
                                 "reftype": None, "refname": None, "cutoff": c, "extra": {}})

    def state_lines(self, rng):
        pen = rng.uniform(0.001, 0.006)
        lines = ["state qpos %s" % fmt([self.x, self.y, self.r - pen, 1, 0, 0, 0]), "state qvel 0 0 0 0 0 0",
                 "state time 0.0", "usersensor 0.0"]
        return lines, [0.0]


# ------------------------------------------------------------------------------------------ oracle: parsing the harness output
def parse_eval(out, pos):
    """parse the lines of one `eval` starting at out[pos]; returns (record, next position)"""
    rec = {"sens": [], "arr": {}, "con": [], "refobj": {}, "refref": {}, "error": None, "names": {}, "recomp": {}}
    while pos < len(out):
        w = out[pos].split()
        pos += 1
        if not w:
            continue
        if w[0] == "done":
            return rec, pos
        if w[0] == "error":
            rec["error"] = " ".join(w[1:])
        elif w[0] == "sizes":
            rec["sizes"] = [int(x) for x in w[1:]]
        elif w[0] == "sens":
            rec["sens"].append({"i": int(w[1]), "type": int(w[2]), "datatype": int(w[3]), "needstage": int(w[4]), "objtype": int(w[5]),
                                "objid": int(w[6]), "reftype": int(w[7]), "refid": int(w[8]), "dim": int(w[9]), "adr": int(w[10]),
                                "cutoff": float(w[11]), "intprm": [int(w[12]), int(w[13])]})
        elif w[0] == "arr":
            rec["arr"][w[1]] = [float(x) for x in w[3:]]
        elif w[0] == "recomp":
            rec["recomp"][int(w[1])] = [int(x) for x in w[2:5]]
        elif w[0] == "names":
            rec["names"][w[1]] = w[3:]
        elif w[0] == "iarr":
            rec["arr"][w[1]] = [int(x) for x in w[3:]]
        elif w[0] == "con":
            v = [float(x) for x in w[8:]]
            rec["con"].append({"geom": [int(w[2]), int(w[3])], "body": [int(w[4]), int(w[5])], "efc": int(w[6]), "dim": int(w[7]),
                               "dist": v[0], "pos": v[1:4], "frame": v[4:13], "force": v[13:19]})
        elif w[0] == "ref":
            (rec["refobj"] if w[1] == "obj" else rec["refref"])[int(w[2])] = {"body": int(w[3]), "m": [float(x) for x in w[4:]]}
    rec["error"] = rec["error"] or "truncated output"
    return rec, pos


SENS = {v: k[len("mjSENS_"):] for k, v in enums.load().items() if k.startswith("mjSENS_")}


def apply_cutoff(vals, cutoff, datatype, stype):
    if not cutoff > 0 or stype in ("CONTACT", "GEOMFROMTO"):
        return list(vals)
    if datatype == E("mjDATATYPE_REAL"):
        return [max(-cutoff, min(cutoff, x)) for x in vals]
    if datatype == E("mjDATATYPE_POSITIVE"):
        return [min(cutoff, x) for x in vals]
    return list(vals)


def frame_of(A, objtype, oid):
    if objtype == E("mjOBJ_BODY"):
        return oid, A["xipos"][3 * oid:3 * oid + 3], A["ximat"][9 * oid:9 * oid + 9]
    if objtype == E("mjOBJ_XBODY"):
        return oid, A["xpos"][3 * oid:3 * oid + 3], A["xmat"][9 * oid:9 * oid + 9]
    for nm, bid in (("geom", "geom_bodyid"), ("site", "site_bodyid"), ("cam", "cam_bodyid")):
        if objtype == E({"geom": "mjOBJ_GEOM", "site": "mjOBJ_SITE", "cam": "mjOBJ_CAMERA"}[nm]):
            return A[bid][oid], A[nm + "_xpos"][3 * oid:3 * oid + 3], A[nm + "_xmat"][9 * oid:9 * oid + 9]
    return None


def quat_of(A, objtype, oid):
    xq = A["xquat"]
    if objtype == E("mjOBJ_XBODY"):
        return xq[4 * oid:4 * oid + 4]
    if objtype == E("mjOBJ_BODY"):
        return qmul(xq[4 * oid:4 * oid + 4], A["body_iquat"][4 * oid:4 * oid + 4])
    for nm, bid in (("geom", "geom_bodyid"), ("site", "site_bodyid"), ("cam", "cam_bodyid")):
        if objtype == E({"geom": "mjOBJ_GEOM", "site": "mjOBJ_SITE", "cam": "mjOBJ_CAMERA"}[nm]):
            b = A[bid][oid]
            return qmul(xq[4 * b:4 * b + 4], A[nm + "_quat"][4 * oid:4 * oid + 4])
    return None


def cvel_motion(A, body, pos):
    """velocity of a point fixed to `body` from the com-based spatial velocity (primitive route)"""
    root = A["body_rootid"][body]
    c = A["subtree_com"][3 * root:3 * root + 3]
    w = A["cvel"][6 * body:6 * body + 3]
    v = A["cvel"][6 * body + 3:6 * body + 6]
    return add(v, cross(w, sub(pos, c))), w


def ray_zone(shape, size, pos, mat, pnt, vec):
    """does the ray pnt + t vec, t >= 0, meet the zone?  (sphere / box / ellipsoid)"""
    o = mtv(mat, sub(pnt, pos))
    d = mtv(mat, vec)
    if shape == "BOX":
        t0, t1 = 0.0, float("inf")
        for k in range(3):
            if abs(d[k]) < 1e-300:
                if abs(o[k]) > size[k]:
                    return False, 0.0
                continue
            a, b = (-size[k] - o[k]) / d[k], (size[k] - o[k]) / d[k]
            if a > b:
                a, b = b, a
            t0, t1 = max(t0, a), min(t1, b)
        return t0 <= t1, t1 - t0
    if shape == "SPHERE":
        s = [size[0]] * 3
    else:
        s = size
    o = [o[k] / s[k] for k in range(3)]
    d = [d[k] / s[k] for k in range(3)]
    a, b, c = dot(d, d), dot(o, d), dot(o, o) - 1
    disc = b * b - a * c
    if disc < 0 or a <= 0:
        return False, disc
    t1 = (-b + math.sqrt(disc)) / a
    return t1 >= 0, min(abs(t1), abs(disc))


def inside_zone(shape, size, pos, mat, p):
    v = sub(p, pos)
    if shape == "SPHERE":
        return dot(v, v) < size[0] ** 2, abs(dot(v, v) - size[0] ** 2)
    q = mtv(mat, v)
    if shape == "BOX":
        return all(abs(q[k]) < size[k] for k in range(3)), min(abs(abs(q[k]) - size[k]) for k in range(3))
    if shape == "ELLIPSOID":
        s = sum(q[k] ** 2 / size[k] ** 2 for k in range(3))
        return s < 1, abs(s - 1)
    if shape == "CYLINDER":
        r2 = q[0] ** 2 + q[1] ** 2
        return abs(q[2]) < size[1] and r2 < size[0] ** 2, min(abs(abs(q[2]) - size[1]), abs(r2 - size[0] ** 2))
    if shape == "CAPSULE":
        zc = max(-size[1], min(size[1], q[2]))
        s = q[0] ** 2 + q[1] ** 2 + (q[2] - zc) ** 2
        return s < size[0] ** 2, abs(s - size[0] ** 2)
    return None, 0.0


GEOMNAME = {E("mjGEOM_" + n): n for n in ("SPHERE", "BOX", "ELLIPSOID", "CAPSULE", "CYLINDER", "PLANE")}


class Dev:
    def __init__(self):
        self.m = {}

    def see(self, key, dev, allowed):
        r = dev / allowed if allowed > 0 else (0.0 if dev == 0 else float("inf"))
        if not (r <= self.m.get(key, 0.0)):
            self.m[key] = r
        return dev <= allowed


def subtree_bodies(A, root):
    par = A["body_parentid"]
    out = []
    for b in range(len(par)):
        k = b
        while k != root and k != 0:
            k = par[k]
        if k == root:
            out.append(b)
    return out


KNOWN_E_KINETIC = "c28:E_KINETIC:value"
KNOWN_ACCEL_STATIC = "c28:accelerometer:static-body-reads-zero"


def judge(scene, rec, uservals, dev, prev_kinetic=None):
    """returns a list of (key, what, detail) failures for one evaluated state, from the harness output alone.
    prev_kinetic: 1/2 v'Mv of the state evaluated just before this one on the same mjData (None for the first state)"""
    fails = []
    A = rec["arr"]
    sa, sb = A["sensordata_a"], A["sensordata_b"]
    nsd = rec["sizes"][11]
    g = A["opt.gravity"]
    # ---- layout: slices tile sensordata
    adr = 0
    for s in rec["sens"]:
        if s["adr"] != adr or s["dim"] < 0:
            fails.append(("c28:layout", "sensor_adr is not the running sum of sensor_dim", {"sensor": s}))
        adr += s["dim"]
    if adr != nsd:
        fails.append(("c28:layout", "nsensordata is not the sum of sensor_dim", {"sum": adr, "nsensordata": nsd}))
    if len(rec["sens"]) != len(scene.sensors):
        fails.append(("c28:layout", "number of compiled sensors differs from the description", {}))
        return fails
    has_dof = [A["body_dofnum"][A["body_weldid"][b]] > 0 for b in range(len(A["body_weldid"]))]
    qacc_scale = max([1.0] + [abs(x) for x in A["qacc"]] + [abs(x) for x in A["cacc"]] + [abs(x) for x in A["qvel"]])
    frc_scale = max([1.0] + [abs(x) for x in A["cfrc_int"]])
    vel_scale = max([1.0] + [abs(x) for x in A["cvel"]] + [abs(x) for x in A["qvel"]])
    mass = A["body_mass"]
    for s, spec in zip(rec["sens"], scene.sensors):
        t = SENS[s["type"]]
        if t != spec["type"]:
            fails.append(("c28:layout", "compiled sensor type differs from the description", {"sensor": s}))
            continue
        lo, hi = s["adr"], s["adr"] + s["dim"]
        got, got_b = sa[lo:hi], sb[lo:hi]
        tag = t + ("+ref" if s["refid"] >= 0 and t.startswith("FRAME") else "")
        # entries the sensor did not write keep the poison (or a clamped poison): the two runs then differ
        if any(not (x == y or (x != x and y != y)) for x, y in zip(got, got_b)):
            pa = apply_cutoff([7.7e77], s["cutoff"], s["datatype"], t)[0]
            pb = apply_cutoff([-3.3e33], s["cutoff"], s["datatype"], t)[0]
            if any(x == pa and y == pb for x, y in zip(got, got_b)):
                fails.append(("c28:%s:unwritten-entry" % t, "a sensor entry keeps the previous content of sensordata (entry not written)",
                              {"sensor": s, "spec": spec, "run_a": got, "run_b": got_b}))
            else:
                key = "c28:%s:not-a-function-of-the-state" % t
                what = "the reading changes when mj_forward is repeated on the same state"
                if t == "E_KINETIC":
                    # KNOWN FINDING, kept narrow: energy flag set, the first forward returns exactly the kinetic energy of the
                    # PREVIOUS evaluation and the second forward returns the kinetic energy of this state.  Any other way of
                    # being wrong keeps its own key.
                    ke = A.get("ref_kinetic", [0.0])
                    sc = max(1.0, abs(ke[0]), abs(prev_kinetic or 0.0))
                    cutk = lambda v: apply_cutoff(v, s["cutoff"], s["datatype"], t)
                    if (A["opt.flags"][1] & E("mjENBL_ENERGY")) and prev_kinetic is not None and \
                            maxdiff(got, cutk([prev_kinetic])) <= TOL * sc and maxdiff(got_b, cutk(ke)) <= TOL * sc:
                        key = KNOWN_E_KINETIC
                        what = ("with mjENBL_ENERGY the e_kinetic sensor (position stage, guarded by flg_energyvel which only "
                                "mj_fwdVelocity clears) returns the kinetic energy of the previous evaluation; repeating mj_forward "
                                "gives the right value")
                fails.append((key, what, {"sensor": s, "spec": spec, "first_forward": got, "second_forward": got_b,
                                          "previous_kinetic_energy": prev_kinetic, "enableflags": A["opt.flags"][1]}))
            continue
        exp, scale, skip = None, 1.0, False
        oid, rid = s["objid"], s["refid"]
        rc = rec["recomp"].get(s["i"])
        if rc and rc[0]:
            fails.append(("c28:%s:out-of-slice-write" % t, "mj_computeSensor wrote beyond the sensor's own sensor_dim entries",
                          {"sensor": s, "spec": spec}))
        if rc and not rc[1] and s["cutoff"] <= 0:
            fails.append(("c28:%s:%s" % (t, "wrong-value" if t == "E_KINETIC" else "value"), "sensordata after mj_forward differs from mj_computeSensor on the same state",
                          {"sensor": s, "spec": spec, "sensordata": got}))

        def chk(key, a, b, allowed, what, extra=None):
            if not finite(a):
                fails.append(("c28:%s:nonfinite" % t, "non-finite sensor reading", {"sensor": s, "got": a}))
                return
            if not dev.see(tag + ":" + key, maxdiff(a, b), allowed) or len(a) != len(b):
                d = {"sensor": s, "spec": spec, "got": a, "expected": b, "allowed": allowed}
                d.update(extra or {})
                fails.append(("c28:%s:%s" % (t, key), what + " (deviation %.3g > allowed %.3g)" % (maxdiff(a, b), allowed), d))

        cut = lambda v: apply_cutoff(v, s["cutoff"], s["datatype"], t)
        if t == "JOINTPOS":
            exp = [A["qpos"][A["jnt_qposadr"][oid]]]
        elif t == "JOINTVEL":
            exp = [A["qvel"][A["jnt_dofadr"][oid]]]
        elif t == "JOINTACTFRC":
            exp = [A["qfrc_actuator"][A["jnt_dofadr"][oid]]]
            scale = max(1.0, abs(exp[0]))
        elif t == "BALLQUAT":
            q = A["qpos"][A["jnt_qposadr"][oid]:A["jnt_qposadr"][oid] + 4]
            n = norm(q)
            exp = [x / n for x in q]
        elif t == "BALLANGVEL":
            exp = A["qvel"][A["jnt_dofadr"][oid]:A["jnt_dofadr"][oid] + 3]
            scale = vel_scale
        elif t in ("TENDONPOS", "TENDONVEL"):
            key = "ten_length" if t == "TENDONPOS" else "ten_velocity"
            exp = [A[key][oid]]
            scale = vel_scale
            # independent of ten_length / ten_velocity: fixed tendons are linear in the joint coordinates,
            # two-site spatial tendons are the distance between the sites
            wraps = scene.tendon_wrap.get(scene.handle[spec["objname"]], [])
            if wraps and all(w[0] == "joint" for w in wraps):
                tot = 0.0
                for w in wraps:
                    jid = rec["names"]["joint"].index(w[1])
                    tot += float(w[2]) * (A["qpos"][A["jnt_qposadr"][jid]] if t == "TENDONPOS" else A["qvel"][A["jnt_dofadr"][jid]])
                chk("independent", cut([tot]), got, TOL * scale, "tendon sensor differs from sum coef * joint coordinate")
            elif len(wraps) == 2 and all(w[0] == "site" for w in wraps):
                ids = [rec["names"]["site"].index(w[1]) for w in wraps]
                p = [A["site_xpos"][3 * i:3 * i + 3] for i in ids]
                dvec = sub(p[0], p[1])
                if t == "TENDONPOS":
                    chk("independent", cut([norm(dvec)]), got, TOL, "spatial tendon length differs from the distance between its two sites")
        elif t == "TENDONACTFRC":
            tot = 0.0
            for k in range(len(A["actuator_trntype"])):
                if A["actuator_trntype"][k] == E("mjTRN_TENDON") and A["actuator_trnid"][2 * k] == oid:
                    tot += A["actuator_force"][k]
            exp = [tot]
            scale = max(1.0, abs(tot))
        elif t in ("ACTUATORPOS", "ACTUATORVEL", "ACTUATORFRC"):
            key = {"ACTUATORPOS": "actuator_length", "ACTUATORVEL": "actuator_velocity", "ACTUATORFRC": "actuator_force"}[t]
            exp = [A[key][oid]]
            scale = max(1.0, abs(exp[0]), vel_scale)
            jid = A["actuator_trnid"][2 * oid]
            if (A["actuator_trntype"][oid] == E("mjTRN_JOINT") and t != "ACTUATORFRC" and
                    A["jnt_type"][jid] in (E("mjJNT_HINGE"), E("mjJNT_SLIDE"))):
                gear = A["actuator_gear"][6 * oid]
                v = gear * (A["qpos"][A["jnt_qposadr"][jid]] if t == "ACTUATORPOS" else A["qvel"][A["jnt_dofadr"][jid]])
                chk("independent", cut([v]), got, TOL * scale, "actuator sensor differs from gear * joint coordinate")
        elif t in ("JOINTLIMITPOS", "JOINTLIMITVEL", "JOINTLIMITFRC", "TENDONLIMITPOS", "TENDONLIMITVEL", "TENDONLIMITFRC"):
            ct = E("mjCNSTR_LIMIT_JOINT") if t.startswith("JOINT") else E("mjCNSTR_LIMIT_TENDON")
            row = next((j for j in range(len(A["efc_type"])) if A["efc_type"][j] == ct and A["efc_id"][j] == oid), None)
            if row is None:
                exp = [0.0]
            elif t.endswith("POS"):
                exp = [A["efc_pos"][row] - A["efc_margin"][row]]
            elif t.endswith("VEL"):
                exp = [A["efc_vel"][row]]
                scale = vel_scale
            else:
                exp = [A["efc_force"][row]]
                scale = max(1.0, abs(exp[0]))
                if exp[0] < -1e-12:
                    fails.append(("c28:%s:negative-limit-force" % t, "limit force is negative", {"sensor": s, "force": exp[0]}))
            # independent of the efc arrays: distance to the violated / nearest limit
            if t.startswith("JOINT"):
                jt = A["jnt_type"][oid]
                if jt in (E("mjJNT_HINGE"), E("mjJNT_SLIDE")):
                    q = A["qpos"][A["jnt_qposadr"][oid]]
                    v = A["qvel"][A["jnt_dofadr"][oid]]
                    rlo, rhi = A["jnt_range"][2 * oid:2 * oid + 2]
                    mg = A["jnt_margin"][oid]
                    val = (q, v)
                else:
                    val = None
            else:
                val = (A["ten_length"][oid], A["ten_velocity"][oid])
                rlo, rhi = A["tendon_range"][2 * oid:2 * oid + 2]
                mg = A["tendon_margin"][oid]
            if val is not None and not t.endswith("FRC"):
                dl, dh = val[0] - rlo, rhi - val[0]
                near = min(abs(dl - mg), abs(dh - mg))
                if near > 1e-9:
                    if dl < mg:
                        ind = dl - mg if t.endswith("POS") else val[1]
                    elif dh < mg:
                        ind = dh - mg if t.endswith("POS") else -val[1]
                    else:
                        ind = 0.0
                    # a violated limit whose Jacobian row is empty (tendon between bodies without dofs) gets no constraint
                    # row at all and the sensor then reads 0: whether the row exists is mj_makeConstraint's business (C11)
                    if row is None and ind != 0.0:
                        ind = 0.0
                        dev.m["skipped:limit-without-row"] = dev.m.get("skipped:limit-without-row", 0) + 1
                    chk("independent", cut([ind]), got, TOL * max(1.0, vel_scale), "limit sensor differs from the distance/velocity to the limit",
                        {"value": val, "range": [rlo, rhi], "margin": mg})
        elif t in ("FRAMEPOS", "FRAMEXAXIS", "FRAMEYAXIS", "FRAMEZAXIS"):
            _, p, R = frame_of(A, s["objtype"], oid)
            v = p if t == "FRAMEPOS" else [R["XYZ".index(t[5])], R["XYZ".index(t[5]) + 3], R["XYZ".index(t[5]) + 6]]
            if rid >= 0:
                _, pr, Rr = frame_of(A, s["reftype"], rid)
                v = mtv(Rr, sub(p, pr)) if t == "FRAMEPOS" else mtv(Rr, v)
            exp = v
            scale = max(1.0, norm(p))
        elif t == "FRAMEQUAT":
            q = quat_of(A, s["objtype"], oid)
            _, _, R = frame_of(A, s["objtype"], oid)
            Rexp = R
            if rid >= 0:
                q = qmul(qconj(quat_of(A, s["reftype"], rid)), q)
                _, _, Rr = frame_of(A, s["reftype"], rid)
                Rexp = mtm(Rr, R)
            exp = q
            chk("matrix", qmat(got), Rexp, 1e-8, "rotation matrix of the FRAMEQUAT reading differs from R_ref^T R_obj (xmat route)")
            chk("unit", [norm(got)], [1.0], 1e-9, "FRAMEQUAT reading is not a unit quaternion")
        elif t in ("FRAMELINVEL", "FRAMEANGVEL", "VELOCIMETER", "GYRO"):
            ot = E("mjOBJ_SITE") if t in ("VELOCIMETER", "GYRO") else s["objtype"]
            body, p, R = frame_of(A, ot, oid)
            mo = rec["refobj"][s["i"]]["m"]
            v, w = mo[0:3], mo[3:6]
            v2, w2 = cvel_motion(A, body, p)
            if not has_dof[body]:
                v2, w2 = [0.0] * 3, [0.0] * 3
            scale = vel_scale * max(1.0, norm(p))
            if t in ("VELOCIMETER", "GYRO"):
                exp = mtv(R, v if t == "VELOCIMETER" else w)
                alt = mtv(R, v2 if t == "VELOCIMETER" else w2)
            elif rid < 0:
                exp = v if t == "FRAMELINVEL" else w
                alt = v2 if t == "FRAMELINVEL" else w2
            else:
                bodyr, pr, Rr = frame_of(A, s["reftype"], rid)
                mr = rec["refref"][s["i"]]["m"]
                vr, wr = mr[0:3], mr[3:6]
                vr2, wr2 = cvel_motion(A, bodyr, pr)
                if not has_dof[bodyr]:
                    vr2, wr2 = [0.0] * 3, [0.0] * 3
                if t == "FRAMELINVEL":
                    exp = mtv(Rr, sub(sub(v, vr), cross(wr, sub(p, pr))))
                    alt = mtv(Rr, sub(sub(v2, vr2), cross(wr2, sub(p, pr))))
                else:
                    exp = mtv(Rr, sub(w, wr))
                    alt = mtv(Rr, sub(w2, wr2))
                scale *= max(1.0, norm(sub(p, pr)))
            chk("cvel-route", cut(alt), got, TOL * scale, "velocity sensor differs from the com-based spatial velocity (cvel) transported to the object")
        elif t in ("FRAMELINACC", "FRAMEANGACC", "ACCELEROMETER"):
            ot = E("mjOBJ_SITE") if t == "ACCELEROMETER" else s["objtype"]
            body, p, R = frame_of(A, ot, oid)
            mo = rec["refobj"][s["i"]]["m"]
            a, al = mo[6:9], mo[9:12]
            scale = qacc_scale * max(1.0, norm(p)) * max(1.0, vel_scale)
            if t == "FRAMEANGACC":
                exp = al
            else:
                ag = sub(a, g)
                exp = mtv(R, ag) if t == "ACCELEROMETER" else ag
                if not has_dof[body]:
                    # object welded to the world: the engine returns zero.  The accelerometer documentation says
                    # "linear acceleration of the site (including gravity)": a static accelerometer reads -g.  FRAMELINACC
                    # documents no gravity term at all, so 0 and -g are both accepted there.
                    if t == "FRAMELINACC" and maxdiff(got, cut([0.0] * 3)) <= TOL:
                        exp = [0.0] * 3
                    elif t == "ACCELEROMETER" and norm(g) > 0 and maxdiff(got, cut(exp)) > TOL * scale and all(x == 0.0 for x in got):
                        # KNOWN FINDING, kept narrow: the reading is exactly zero; any other wrong value keeps ACCELEROMETER:value
                        fails.append((KNOWN_ACCEL_STATIC,
                                      "an accelerometer on a body welded to the world does not read -gravity in the site frame",
                                      {"sensor": s, "spec": spec, "got": got, "expected": cut(exp), "gravity": g}))
                        skip = True
        elif t in ("FORCE", "TORQUE"):
            body, p, R = frame_of(A, E("mjOBJ_SITE"), oid)
            root = A["body_rootid"][body]
            c = A["subtree_com"][3 * root:3 * root + 3]
            tau, f = A["cfrc_int"][6 * body:6 * body + 3], A["cfrc_int"][6 * body + 3:6 * body + 6]
            exp = mtv(R, f) if t == "FORCE" else mtv(R, sub(tau, cross(sub(p, c), f)))
            scale = frc_scale * max(1.0, norm(sub(p, c)))
        elif t == "MAGNETOMETER":
            _, p, R = frame_of(A, E("mjOBJ_SITE"), oid)
            exp = mtv(R, A["opt.magnetic"])
        elif t == "TOUCH":
            body, p, R = frame_of(A, E("mjOBJ_SITE"), oid)
            shape = GEOMNAME.get(A["site_type"][oid])
            size = A["site_size"][3 * oid:3 * oid + 3]
            tot, marginal = 0.0, False
            for c in rec["con"]:
                if c["efc"] < 0 or body not in c["body"]:
                    continue
                fn = c["force"][0]
                if fn <= 0:
                    continue
                ray = c["frame"][0:3]
                n = norm(ray)
                ray = [x / n for x in ray]
                if body == c["body"][1]:
                    ray = [-x for x in ray]
                hit, slack = ray_zone(shape, size, p, R, c["pos"], ray)
                if slack < 1e-9:
                    marginal = True
                if hit:
                    tot += fn
            exp = [tot]
            scale = max(1.0, tot)
            skip = marginal
            if tot > 0 and not skip:
                dev.m["skipped:TOUCH-nonzero(count, not skipped)"] = dev.m.get("skipped:TOUCH-nonzero(count, not skipped)", 0) + 1
        elif t == "INSIDESITE":
            body, p, R = frame_of(A, s["objtype"], oid)
            if s["objtype"] == E("mjOBJ_BODY") and oid > 0 and mass[oid] < 1e-15:
                skip = True   # massless-body special case of the engine (subtree com): not exercised by the generator
            _, ps, Rs = frame_of(A, E("mjOBJ_SITE"), rid)
            ins, slack = inside_zone(GEOMNAME.get(A["site_type"][rid]), A["site_size"][3 * rid:3 * rid + 3], ps, Rs, p)
            exp = [1.0 if ins else 0.0]
            skip = skip or slack < 1e-9 or ins is None
        elif t == "SUBTREECOM":
            bs = subtree_bodies(A, oid)
            M = sum(mass[b] for b in bs)
            if M < 1e-12:
                skip = True
            else:
                exp = [sum(mass[b] * A["xipos"][3 * b + k] for b in bs) / M for k in range(3)]
                chk("primitive", cut(A["subtree_com"][3 * oid:3 * oid + 3]), got, TOL, "SUBTREECOM differs from d->subtree_com")
        elif t in ("SUBTREELINVEL", "SUBTREEANGMOM"):
            bs = subtree_bodies(A, oid)
            M = sum(mass[b] for b in bs)
            bm = A["ref_bodycom_motion"]
            if M < 1e-12:
                skip = True
            else:
                c = [sum(mass[b] * A["xipos"][3 * b + k] for b in bs) / M for k in range(3)]
                vc = [sum(mass[b] * bm[12 * b + k] for b in bs) / M for k in range(3)]
                scale = vel_scale * max(1.0, M)
                if t == "SUBTREELINVEL":
                    exp = vc
                else:
                    Ltot = [0.0] * 3
                    for b in bs:
                        R = A["ximat"][9 * b:9 * b + 9]
                        w = bm[12 * b + 3:12 * b + 6]
                        I = A["body_inertia"][3 * b:3 * b + 3]
                        wl = mtv(R, w)
                        Ltot = add(Ltot, mv(R, [I[k] * wl[k] for k in range(3)]))
                        Ltot = add(Ltot, scl(cross(sub(A["xipos"][3 * b:3 * b + 3], c), sub(bm[12 * b:12 * b + 3], vc)), mass[b]))
                    exp = Ltot
        elif t == "CLOCK":
            exp = A["time"]
        elif t == "E_KINETIC":
            exp = A.get("ref_kinetic", [0.0])
            scale = max(1.0, abs(exp[0]))
        elif t == "E_POTENTIAL":
            exp = [A["energy"][0]]
            scale = max(1.0, abs(exp[0]))
        elif t == "USER":
            exp = [uservals[(s["i"] * 7 + j) % len(uservals)] for j in range(s["dim"])]
        else:
            fails.append(("c28:unjudged-type", "sensor type attached but not judged: " + t, {}))
            continue
        if skip or exp is None:
            dev.m["skipped:" + t] = dev.m.get("skipped:" + t, 0) + 1
            continue
        if len(got) != len(exp):
            fails.append(("c28:%s:dim" % t, "sensor dimension differs from the documented one", {"sensor": s, "expected_dim": len(exp)}))
            continue
        chk("wrong-value" if t == "E_KINETIC" else "value", got, cut(exp), TOL * scale, "sensor reading differs from its documented quantity")
        # cutoff: documented clamp must hold on the raw reading as well
        if s["cutoff"] > 0 and t not in ("CONTACT", "GEOMFROMTO"):
            if s["datatype"] == E("mjDATATYPE_REAL") and any(abs(x) > s["cutoff"] for x in got):
                fails.append(("c28:%s:cutoff" % t, "REAL reading outside [-cutoff, cutoff]", {"sensor": s, "got": got}))
            if s["datatype"] == E("mjDATATYPE_POSITIVE") and any(x > s["cutoff"] for x in got):
                fails.append(("c28:%s:cutoff" % t, "POSITIVE reading above cutoff", {"sensor": s, "got": got}))
    return fails


# ------------------------------------------------------------------------------------------ oracle sessions
def run_models(ctx, impl, nmodels, nstates, dev, hist, max_report=8):
    rng = ctx.rng
    found, nfail, nsens = [], 0, 0
    for k in range(nmodels):
        scene = None
        for attempt in range(20):
            sc = TouchScene(rng) if k % 9 == 5 else Scene(rng, all_types=(k % 4 == 0))
            if sc.sensors:
                scene = sc
                break
        if scene is None:
            continue
        lines = ["model"] + scene.mdl.lines + ["end"]
        sts = []
        for _ in range(nstates):
            sl, uv = scene.state_lines(rng)
            lines += sl + ["eval"]
            sts.append((sl, uv))
        rc, out, err = ctx.run_lines([impl], lines)
        if rc != 0:
            found.append({"key": "c28:crash", "what": "sensor harness crashed (rc=%s)" % rc,
                          "replay": {"harness_input": lines, "stderr": err[-300:]}})
            nfail += 1
            continue
        if not out or not out[0].startswith("ok"):
            # a description the compiler rejects is a generator problem, not a verdict on the engine
            hist["model-rejected"] = hist.get("model-rejected", 0) + 1
            ctx.extra.setdefault("rejected_models", []).append((out[0] if out else "")[:200])
            continue
        pos = 1
        prev_ke = None
        for sl, uv in sts:
            pos += len(sl)
            rec, pos = parse_eval(out, pos)
            if rec["error"]:
                hist["eval-error"] = hist.get("eval-error", 0) + 1
                ctx.extra.setdefault("eval_errors", []).append(rec["error"][:200])
                prev_ke = None
                continue
            fs = judge(scene, rec, uv, dev, prev_ke)
            prev_ke = rec["arr"].get("ref_kinetic", [0.0])[0]
            for s in scene.sensors:
                tg = s["type"] + ("+ref" if s["reftype"] else "") + (":cutoff" if s["cutoff"] else "")
                hist[tg] = hist.get(tg, 0) + 1
            nsens += len(scene.sensors)
            ctx.count(("model", k, tuple(sl)))
            if fs:
                nfail += 1
                for key, what, detail in fs[:4]:
                    if len(found) < max_report or key not in {f["key"] for f in found}:
                        found.append({"key": key, "what": what,
                                      "replay": dict(detail, harness_input=lines[:len(scene.mdl.lines) + 2] + sl + ["eval"],
                                                     how="feed harness_input to the c28_sensors harness built by checks/c28.py")})
    return found, nfail, nsens


# ------------------------------------------------------------------------------------------ entry point
def run(ctx):
    ctx.rule = ("differential op lines cutoff/layout/sensor (every sensor type x datatype for the cutoff; 14 modelled sensor kinds x object "
                "types x reference types on random crafted scenes, rotation and arbitrary matrices); oracle: generated models "
                "(gen/models.py + sensors attached by this module, every 4th model carries every attachable type) x random states; "
                "a case is distinct by its full op line / (model, state)")
    thorough = ctx.tier == "thorough"
    m = kernelval.regen(ctx)
    ctx.lean_props(THEOREMS)
    kernelval.validate(ctx, m, KERNELS, 2000 if thorough else 150, label="C28 sensor kernels")
    ctx.extra["kernel_body_sha256"] = {n: m.get("kernels", {}).get(n, {}).get("sha256", "")[:16] for n in KERNELS}
    # enumerators the protocol relies on come from the tree's headers; the pairs (name, value) are the tie
    ctx.oblige("sensor / object / datatype enumerators read from the tree's headers", "translator",
               all(k in enums.load() for k in list(OBJ.values()) + list(DT.values()) + list(KINDS.values())))
    drv = ctx.driver("drv_c28")
    impl = ctx.harness("harness/c/c28_sensors.c", "c28_sensors", deps=["harness/mjbuild.h"])
    dev = Dev()
    if drv and impl:
        lines = (gen_cutoff_lines(ctx, 6000 if thorough else 700) + gen_layout_lines(ctx, 600 if thorough else 80) +
                 gen_sensor_lines(ctx, 8000 if thorough else 700))
        ctx.differential("apply_cutoff / sensor_adr layout / mj_computeSensor (FRAME*, velocimeter, gyro, accelerometer, force, torque) "
                         "vs Lean model, bitwise", [drv], [impl], lines, keyf=lambda l: l if len(l.split()) > 3 else None)
        ctx.sample({"op": lines[3][:300]})
    if impl:
        hist = {}

        def oracle(c, nmodels, nstates, mr=8):
            return run_models(c, impl, nmodels, nstates, dev, hist, mr)
        found, nfail, nsens = oracle(ctx, 400 if thorough else 36, 4 if thorough else 3)
        for f in found:
            ctx.oracle_failure(f["key"], f["what"], f["replay"])
        ctx.extra["oracle_sensor_evaluations"] = nsens
        ctx.extra["oracle_failing_states"] = nfail
        ctx.extra["oracle_sensor_type_histogram"] = dict(sorted(hist.items()))
        ctx.extra["oracle_max_deviation_over_allowed"] = {k: float("%.3g" % v) for k, v in sorted(dev.m.items()) if not k.startswith("skipped:")}
        ctx.extra["oracle_skipped_marginal"] = {k[8:]: v for k, v in dev.m.items() if k.startswith("skipped:")}
        ctx.sample({"oracle": "generated model + %d sensors, poison 7.7e77 / -3.3e33" % nsens})

        def directed(c):
            for _ in range(4):
                fnd, _, _ = oracle(c, 60, 4, 1)
                if fnd:
                    return fnd[0]
            return None
        ctx.directed_search = directed
    if thorough:
        ctx.leanchecker(["MjProof.Props.C28"])
