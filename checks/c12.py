"""C12  The constraint cost has consistent derivatives (DESIGN.md §5.C12).  Model, driver, harness: see checks/c11.py."""
import math

from checks import c11
from checks.c11 import ELL, Upd, finite, gen_friction, hexf, impedance, parse_upd_out, unhex

META = {
    "technique": "Lean 4 proof (two-sided quadratic sandwich cost(z)+g(z)(x-z) <= cost(x) <= cost(z)+g(z)(x-z)+L/2 (x-z)^2 with g = -force, "
                 "proved per row kind and for the whole elliptic cone block; derivative, convexity and C1 follow) over the hand model "
                 "of mj_constraintUpdate_impl + bitwise differential correspondence with the compiled function + central-difference "
                 "oracle on the real function's returned cost / force / cone Hessian",
    "text": "Proved over the reals: for equality, friction-loss and one-sided (limit / frictionless / pyramidal) rows the returned force "
            "is minus the derivative of the returned cost at EVERY residual including the kink points, the force is continuous (C1) "
            "and the cost convex; for the elliptic cone block (any number of friction rows, parameters related as mj_makeImpedance "
            "sets them) the returned normal and tangential forces are minus the partial derivatives of the block cost at every "
            "residual (zone interiors, both zone boundaries, the apex), the cost and force formulas of adjacent zones agree on the "
            "boundaries, the block cost is convex in the whole residual vector (ConvexOn on R x R^n, via the supporting-hyperplane "
            "inequality), and in the middle zone every entry of the cone Hessian written to contact.H equals the derivative of minus "
            "the corresponding force component; the returned cost is the sum of the block costs and the force vector the "
            "concatenation of the block forces. Model tied bit-for-bit to the compiled mj_constraintUpdate_impl.",
    "note": "The elliptic results need the relation D_j mu^2 = D_0 friction_j^2 (theorem C11.impedance_relation, checked on engine "
            "data by C11's oracle); without it the code's cost is discontinuous at the bottom zone boundary. Hessian: proved entry-wise "
            "for `hessEntry` and for the row-major layout of `coneHess` (theorem elliptic_hessian_block); the in-place += / *= / "
            "symmetrisation order of the C code is covered by the bitwise correspondence. Differentiability is stated as partial "
            "derivatives along each residual coordinate (not as a Frechet derivative).",
}

THEOREMS = [
    "MjProof.C12.eq_force_is_neg_deriv",
    "MjProof.C12.fric_force_is_neg_deriv",
    "MjProof.C12.nonneg_force_is_neg_deriv",
    "MjProof.C12.force_is_neg_grad_scalar",
    "MjProof.C12.cost_C1_scalar",
    "MjProof.C12.cost_convex_scalar",
    "MjProof.C12.ellBlock_eq_zone_formulas",
    "MjProof.C12.elliptic_zone_values_agree_top",
    "MjProof.C12.elliptic_zone_values_agree_bottom",
    "MjProof.C12.elliptic_force_is_neg_grad_normal",
    "MjProof.C12.elliptic_force_is_neg_grad_tangent",
    "MjProof.C12.elliptic_force_is_neg_grad_interior",
    "MjProof.C12.elliptic_gradient_inequality",
    "MjProof.C12.elliptic_convex",
    "MjProof.C12.elliptic_hessian_block",
    "MjProof.C12.elliptic_hessian_is_dforce",
    "MjProof.C12.elliptic_force_components",
    "MjProof.C12.update_cost_separable",
]

EPS = 2.220446049250313e-16


# ------------------------------------------------------------------------------------------ finite-difference cases
def mod_scale(rng, lo=0.05, hi=20.0):
    return math.exp(rng.uniform(math.log(lo), math.log(hi)))


def fd_block(rng, u):
    """append one well-scaled block to u; returns list of (row index, L curvature bound, jar scale)"""
    kind = rng.choice(("eq", "fric", "fric", "nonneg", "nonneg", "ell", "ell", "ell", "ell"))
    i0 = len(u.rows)
    D = mod_scale(rng, 0.1, 100.0)
    R = 1 / D
    s = mod_scale(rng, 0.05, 5.0)
    if kind == "eq":
        u.rows.append((D, R, 0.0, rng.gauss(0, 1) * s, 0, 0))
        u.tags.append("eq")
        return [(i0, D, s)]
    if kind == "fric":
        fl = rng.choice((0.0, mod_scale(rng, 0.05, 5.0)))
        b = R * fl
        z = rng.choice(("neg", "pos", "quad", "b_neg", "b_pos", "zero"))
        jar = {"neg": -b * (1 + rng.random() * 2) - 0.01 * s, "pos": b * (1 + rng.random() * 2) + 0.01 * s, "quad": b * rng.uniform(-0.95, 0.95),
               "b_neg": -b, "b_pos": b, "zero": 0.0}[z]
        u.rows.append((D, R, fl, jar, rng.choice((1, 2)), 0))
        u.tags.append("fric:" + z)
        return [(i0, D, max(s, b))]
    if kind == "nonneg":
        z = rng.choice(("neg", "pos", "zero"))
        jar = {"neg": -s, "pos": s, "zero": 0.0}[z]
        u.rows.append((D, R, 0.0, jar, rng.choice((3, 4, 5, 6)), 0))
        u.tags.append("nonneg:" + z)
        return [(i0, D, s)]
    # elliptic block with the impedance relation
    dim = rng.choice((3, 4, 6, 3, 4, 6, 2, 5, 1))
    n = dim - 1
    fr = gen_friction(rng)
    if rng.random() < 0.5:
        fr = [mod_scale(rng, 0.2, 2.0) for _ in range(5)]   # comparable friction coefficients: every coordinate is well scaled
    Rl, Dl, mu = impedance(rng, fr, dim, True)
    # rescale so that D0 is moderate
    k = D / Dl[0]
    Dl = [d * k for d in Dl]
    Rl = [1 / d for d in Dl]
    zone = rng.choice(("top", "bottom", "middle", "middle", "b_top", "b_bot", "apex", "axis_neg", "axis_pos", "free"))
    T = s
    vec = [rng.gauss(0, 1) for _ in range(n)]
    nv = math.sqrt(sum(x * x for x in vec)) or 1.0
    U = [x / nv * T for x in vec]
    if n and rng.random() < 0.15:
        kk = rng.randrange(n)
        U = [T if j == kk else 0.0 for j in range(n)]
    if n == 0:
        T = 0.0
    N = {"top": mu * T * (1 + rng.uniform(0.05, 2)) + (s if n == 0 else 0), "bottom": -T / mu * (1 + rng.uniform(0.05, 2)) - (s if n == 0 else 0),
         "middle": rng.uniform(-T / mu, mu * T) * 0.9, "b_top": mu * T, "b_bot": -T / mu, "apex": 0.0, "axis_neg": -s, "axis_pos": s,
         "free": rng.gauss(0, 1) * T}[zone]
    if zone in ("apex", "axis_neg", "axis_pos"):
        U = [0.0] * n
    jar = [N / mu] + [U[j] / fr[j] for j in range(n)]
    cid = len(u.cons)
    u.cons.append((dim, mu, fr))
    for j in range(dim):
        u.rows.append((Dl[j], Rl[j], 0.0, jar[j], ELL, cid))
    u.tags.append("ell:%d:%s" % (dim, zone))
    # coordinate scales: the residual scale at which the block's geometry changes by O(1)
    sN = max(abs(N), T, s) / mu
    out = [(i0, Dl[0], sN)]
    for j in range(1, dim):
        out.append((i0 + j, Dl[j], max(abs(N), T, s) / fr[j - 1]))
    return out


def fd_case(rng):
    u = Upd()
    coords = []
    nb = rng.choice((1, 1, 1, 2, 4))
    # equality / friction rows must come first in the layout the function expects
    blocks = []
    for _ in range(nb):
        v = Upd()
        c = fd_block(rng, v)
        blocks.append((v, c))
    order = {"eq": 0, "fric": 1}
    blocks.sort(key=lambda bc: order.get(bc[0].tags[0].split(":")[0], 2))
    for v, c in blocks:
        off, coff = len(u.rows), len(u.cons)
        for r in v.rows:
            u.rows.append(r if r[4] != ELL else r[:5] + (r[5] + coff,))
        u.cons += v.cons
        u.tags += v.tags
        t = v.tags[0].split(":")[0]
        if t == "eq":
            u.ne += 1
        elif t == "fric":
            u.nf += 1
        coords += [(i + off, L, s) for (i, L, s) in c]
    return u, coords


def perturbed(u, k, dx):
    v = Upd()
    v.ne, v.nf, v.cons, v.tags = u.ne, u.nf, u.cons, u.tags
    v.rows = list(u.rows)
    r = v.rows[k]
    v.rows[k] = (r[0], r[1], r[2], r[3] + dx, r[4], r[5])
    return v


def fd_lines(rng, ncases):
    """returns (lines, plan); plan entries: (case id, base line idx, [(k, L, s, h, idx+, idx-, hH, idxH+, idxH-)])"""
    lines, plan = [], []
    for _ in range(ncases):
        u, coords = fd_case(rng)
        base = len(lines)
        lines.append(u.line(1))
        ent = []
        for (k, L, s) in coords:
            h = 2e-7 * s
            hH = 1e-6 * s
            ip = len(lines)
            lines.append(perturbed(u, k, h).line(1))
            lines.append(perturbed(u, k, -h).line(1))
            lines.append(perturbed(u, k, hH).line(1))
            lines.append(perturbed(u, k, -hH).line(1))
            ent.append((k, L, s, h, ip, ip + 1, hH, ip + 2, ip + 3))
        plan.append((u, base, ent))
    return lines, plan


def fd_oracle(plan, outs):
    """central differences of the returned cost vs returned force, and of the returned force vs the cone Hessian"""
    bad, stats = [], {"grad": 0, "hess": 0, "kink_or_boundary": 0}
    for (u, base, ent) in plan:
        b = parse_upd_out(outs[base])
        if b is None:
            continue
        cost, f, st, hs = b
        if not finite(cost, *f):
            continue
        blocks = c11.walk_blocks(u)
        owner = {}
        for bi, (kind, i, n, con) in enumerate(blocks):
            for j in range(n):
                owner[i + j] = bi
        for (k, L, s, h, ip, im, hH, jp, jm) in ent:
            p, m = parse_upd_out(outs[ip]), parse_upd_out(outs[im])
            if p is None or m is None:
                continue
            # the step actually taken (jar+h and jar-h are rounded)
            x0 = u.rows[k][3]
            dh = (x0 + h) - (x0 - h)
            fdv = (p[0] - m[0]) / dh
            tol = 1e-6 * max(abs(f[k]), L * s) + 32 * EPS * max(abs(p[0]), abs(m[0])) / dh
            stats["grad"] += 1
            if p[2] != m[2]:
                stats["kink_or_boundary"] += 1
            if not (abs(fdv + f[k]) <= tol):
                kind = blocks[owner[k]][0]
                bad.append(("c12:force-not-neg-gradient:" + kind,
                            "row %d (%s, states %r -> %r/%r): central difference of the returned cost d cost/d jar = %r but returned "
                            "force = %r (|sum| = %.3g > tol %.3g, h = %.3g)" % (k, kind, st[k], p[2][k], m[2][k], fdv, f[k], abs(fdv + f[k]), tol, h),
                            {"line": u.line(1), "row": k, "h": h, "tags": u.tags}))
            # Hessian: only for rows of a cone block that is in the middle zone at the base point and at both perturbed points
            kind, i0, n, con = blocks[owner[k]]
            if kind != "ell" or st[i0] != 4:
                continue
            P, M = parse_upd_out(outs[jp]), parse_upd_out(outs[jm])
            if P is None or M is None or P[2][i0] != 4 or M[2][i0] != 4:
                continue
            H = hs[u.rows[i0][5]]
            if H is None or len(H) != n * n or not finite(*H):
                bad.append(("c12:hessian-missing", "cone in the middle zone with flg_coneHessian but contact.H not written", {"line": u.line(1)}))
                continue
            dim, mu, fr = con
            wts = [mu] + list(fr[:n - 1])
            S = max(abs(H[a * n + c]) / (wts[a] * wts[c]) for a in range(n) for c in range(n))
            dH = (x0 + hH) - (x0 - hH)
            j = k - i0
            for a in range(n):
                fdh = (P[1][i0 + a] - M[1][i0 + a]) / dH
                tolh = 1e-6 * S * wts[a] * wts[j] + 32 * EPS * max(abs(P[1][i0 + a]), abs(M[1][i0 + a])) / dH
                stats["hess"] += 1
                if not (abs(fdh + H[a * n + j]) <= tolh):
                    bad.append(("c12:hessian-not-dforce", "cone Hessian entry (%d,%d) = %r but -d force_%d / d jar_%d = %r (tol %.3g)"
                                % (a, j, H[a * n + j], a, j, -fdh, tolh), {"line": u.line(1), "row": k, "h": hH, "tags": u.tags}))
                if H[a * n + j] != H[j * n + a]:
                    bad.append(("c12:hessian-asymmetric", "cone Hessian not symmetric at (%d,%d)" % (a, j), {"line": u.line(1)}))
    return bad, stats


def convexity_oracle(rng, impl, ctx, n):
    """midpoint convexity and the supporting-hyperplane inequality of the returned cost on the real function (related parameters)"""
    lines, plan = [], []
    for _ in range(n):
        u, coords = fd_case(rng)
        # second point: same parameters, different residuals
        v = Upd()
        v.ne, v.nf, v.cons, v.tags = u.ne, u.nf, u.cons, u.tags
        v.rows = [(r[0], r[1], r[2], r[3] + rng.gauss(0, 1) * s * rng.choice((0.1, 1.0, 3.0)), r[4], r[5]) for r, (_, _, s) in zip(u.rows, coords)]
        w = Upd()
        w.ne, w.nf, w.cons, w.tags = u.ne, u.nf, u.cons, u.tags
        lam = rng.choice((0.5, rng.random()))
        w.rows = [(a[0], a[1], a[2], lam * a[3] + (1 - lam) * b[3], a[4], a[5]) for a, b in zip(u.rows, v.rows)]
        plan.append((u, v, w, lam, len(lines)))
        lines += [u.line(0), v.line(0), w.line(0)]
    rc, outs, err = ctx.run_lines([impl], lines)
    bad = []
    if rc != 0 or len(outs) != len(lines):
        return [("c12:crash", "harness crashed in the convexity oracle", {"stderr": err[-300:]})], 0
    cnt = 0
    for (u, v, w, lam, i) in plan:
        a, b, c = parse_upd_out(outs[i]), parse_upd_out(outs[i + 1]), parse_upd_out(outs[i + 2])
        if not (a and b and c) or not finite(a[0], b[0], c[0]):
            continue
        cnt += 1
        sc = max(abs(a[0]), abs(b[0]), 1e-300)
        if c[0] > lam * a[0] + (1 - lam) * b[0] + 1e-9 * sc:
            bad.append(("c12:cost-not-convex", "returned cost violates convexity: cost(l x + (1-l) y) = %r > l cost(x) + (1-l) cost(y) = %r (l = %r)"
                        % (c[0], lam * a[0] + (1 - lam) * b[0], lam), {"x": u.line(0), "y": v.line(0), "lambda": lam, "tags": u.tags}))
        # supporting hyperplane at x evaluated at y
        lin = a[0] + sum(-fa * (rb[3] - ra[3]) for fa, ra, rb in zip(a[1], u.rows, v.rows))
        sc2 = max(abs(a[0]), abs(b[0]), sum(abs(fa * (rb[3] - ra[3])) for fa, ra, rb in zip(a[1], u.rows, v.rows)), 1e-300)
        if lin > b[0] + 1e-9 * sc2:
            bad.append(("c12:gradient-inequality", "cost(x) - force(x).(y-x) = %r exceeds cost(y) = %r" % (lin, b[0]),
                        {"x": u.line(0), "y": v.line(0), "tags": u.tags}))
    return bad, cnt


def run(ctx):
    thorough = ctx.tier == "thorough"
    ctx.rule = ("tie: as C11 (seeded independently); oracle: for well-scaled single and multi-block calls with impedance-related cone "
                "parameters, every residual coordinate is perturbed by +-2e-7*scale and +-1e-6*scale around base points in every zone "
                "interior, on both zone boundaries, at the apex, on the cone axis and at the friction-loss / one-sided kinks; the "
                "central difference of the RETURNED cost is compared with the RETURNED force (tolerance 1e-6*max(|f|, D*scale) + "
                "rounding, >= 20x the proven truncation bound D*h/4), the central difference of the returned force with the returned "
                "cone Hessian (middle zone; 1e-6 of the scaled Hessian magnitude), plus convexity / supporting-hyperplane spot checks")
    ctx.lean_props(THEOREMS)
    drv = ctx.driver("drv_c11")
    impl = ctx.harness("harness/c/c11_constraint.c", "c11_constraint", deps=["harness/mjbuild.h"])
    if not (drv and impl):
        return
    nfail, maxdev, hist_tot, stats_tot = 0, 0.0, {}, {}
    for ch in range(5 if thorough else 1):
        ups, lines, misc, extra, hist = c11.synthetic_lines(ctx, 25000 if thorough else 8000, 0)
        fl, plan = fd_lines(ctx.rng, 6000 if thorough else 2500)
        for k, v in hist.items():
            hist_tot[k] = hist_tot.get(k, 0) + v
        # T: the finite-difference lines are part of the correspondence too (they sit on / next to the boundaries)
        tie_lines = lines + extra + fl[:(40000 if thorough else 12000)]
        bad = ctx.differential("mj_constraintUpdate_impl (cost, force, state, cone Hessian) vs Lean model on Float (bitwise), chunk %d" % ch,
                               [drv], [impl], tie_lines, keyf=c11.keyf)
        maxdev = max([maxdev] + [c11.max_dev(b["model"] or "", b["impl"] or "") for b in bad])
        # S: finite differences on the real function alone
        rc, outs, err = ctx.run_lines([impl], fl)
        if rc == 0 and len(outs) == len(fl):
            fails, stats = fd_oracle(plan, outs)
            for k, v in stats.items():
                stats_tot[k] = stats_tot.get(k, 0) + v
            for key, what, rep in fails:
                nfail += 1
                if nfail <= 8:
                    rep = dict(rep, replay="feed `line` with jar[row] +- h to <c11_constraint harness> and difference the returned costs")
                    ctx.oracle_failure(key, what, rep)
            if ch == 0:
                u0, b0, e0 = plan[0]
                ctx.sample({"base_op": fl[b0][:200] + " ...", "tags": u0.tags, "output": outs[b0][:200]})
        else:
            ctx.oracle_failure("c12:crash", "constraint harness crashed (rc=%s, %d outputs for %d lines)" % (rc, len(outs), len(fl)), {"stderr": err[-500:]})
    ctx.extra["synthetic_distribution"] = hist_tot
    ctx.extra["max_float_deviation"] = maxdev
    ctx.extra["tolerance"] = "bitwise (0 ulp)"
    ctx.extra["fd_checks"] = stats_tot
    cb, cnt = convexity_oracle(ctx.rng, impl, ctx, 8000 if thorough else 1500)
    ctx.extra["convexity_checks"] = cnt
    for key, what, rep in cb:
        nfail += 1
        if nfail <= 10:
            ctx.oracle_failure(key, what, rep)
    ctx.extra["oracle_failures"] = nfail

    def directed(c):
        for rnd in range(10):
            fl2, plan2 = fd_lines(c.rng, 1500)
            rc2, o2, _ = c.run_lines([impl], fl2)
            if rc2 != 0 or len(o2) != len(fl2):
                return {"key": "c12:crash", "what": "harness crashed in directed search", "replay": {}}
            fails, _ = fd_oracle(plan2, o2)
            if fails:
                return {"key": fails[0][0], "what": fails[0][1], "replay": fails[0][2]}
        return None
    ctx.directed_search = directed
    if thorough:
        ctx.leanchecker(["MjProof.Props.C12"])
