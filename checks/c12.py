"""C12  The constraint cost has consistent derivatives (DESIGN.md §5.C12).  Model, driver, harness: see checks/c11.py."""
import math

from checks import c11
from checks.c11 import ELL, Upd, finite, gen_friction, hexf, impedance, parse_upd_out, pos_scale, unhex
from gen.enums import E
from gen.models import ModelGen

# this check never reads lean/MjProof/Gen (hand models only): no generated-code lock needed
USES_GEN = False

META = {
    "technique": "Lean 4 proof (two-sided quadratic sandwich cost(z)+g(z)(x-z) <= cost(x) <= cost(z)+g(z)(x-z)+L/2 (x-z)^2 with g = -force, "
                 "proved per row kind and for the whole elliptic cone block; derivative, convexity and C1 follow) over the hand model "
                 "of mj_constraintUpdate_impl and of mj_makeImpedance (the producer of efc_D / contact.mu) + bitwise differential "
                 "correspondence with the compiled functions + central-difference oracle on the real function's returned cost / force / "
                 "cone Hessian, with synthetic parameters and with the parameters mj_forward produces on generated scenes; the island-ordered parameter "
                 "copies (iefc_*) of multi-island scenes are compared with the gather of the global arrays",
    "text": "Proved over the reals: for equality, friction-loss and one-sided (limit / frictionless / pyramidal) rows the returned force "
            "is minus the derivative of the returned cost at EVERY residual including the kink points, the force is continuous (C1) "
            "and the cost convex; for the elliptic cone block (any number of friction rows, parameters related as mj_makeImpedance "
            "sets them) the returned normal and tangential forces are minus the partial derivatives of the block cost at every "
            "residual (zone interiors, both zone boundaries, the apex), the cost and force formulas of adjacent zones agree on the "
            "boundaries, the block cost is convex in the whole residual vector (ConvexOn on R x R^n, via the supporting-hyperplane "
            "inequality), and in the middle zone every entry of the cone Hessian written to contact.H equals the derivative of minus "
            "the corresponding force component; the returned cost is the sum of the block costs and the force vector the "
            "concatenation of the block forces. The relation between the cone parameters is itself proved for the model of "
            "mj_makeImpedance (first-loop clamp R >= mjMINVAL, R[i+1] = R[i]/max(mjMINVAL, impratio), contact.mu, the remaining "
            "friction rows, D = 1/R): for any efc_diagA, impedance, impratio and positive (possibly anisotropic) friction the "
            "elliptic theorems hold with the produced parameters without any hypothesis relating them "
            "(elliptic_derivatives_of_makeImpedance). Models tied bit-for-bit to the compiled mj_constraintUpdate_impl and "
            "mj_makeImpedance (the latter on assembled rows and on the constraint rows of generated scenes).",
    "note": "The elliptic results need the relation D_j mu^2 = D_0 friction_j^2; without it the code's cost is discontinuous at the "
            "bottom zone boundary. It is proved for the model of mj_makeImpedance (makeImpedance_elliptic_relation; the impedance "
            "value computed by getsolparam/getimpedance is an input of that model, read back from efc_KBIP; efc_KBIP and the final "
            "efc_diagA adjustment are not modelled; positivity of contact.friction is a hypothesis) and re-checked by the oracle on the "
            "efc_D / contact.mu of every elliptic contact of the generated scenes (elliptic cone, impratio != 1, explicit <pair>s with "
            "friction[0] != friction[1], condim 3/4/6), where the finite-difference oracle is also run around the zone boundaries "
            "with the engine's own parameters. The relation theorem is per contact (impEll); makeImpedance_loop_elliptic_block shows that the "
            "array-level loop (impGo) writes impEll's output to the rows of each elliptic block it meets (a statement that every "
            "block of a whole efc array is related is not assembled from it). Hessian: proved entry-wise "
            "for `hessEntry` and for the row-major layout of `coneHess` (theorem elliptic_hessian_block); the in-place += / *= / "
            "symmetrisation order of the C code is covered by the bitwise correspondence. Differentiability is stated as partial "
            "derivatives along each residual coordinate (not as a Frechet derivative).",
}

THEOREMS = [
    "MjProof.C12.eq_force_is_neg_deriv",
    "MjProof.C12.fric_force_is_neg_deriv",
    "MjProof.C12.nonneg_force_is_neg_deriv",
    "MjProof.C12.force_is_neg_grad_scalar",
    "MjProof.C12.cost_C1_scalar",
    "MjProof.C12.cost_convex_scalar",
    "MjProof.C12.ellBlock_eq_zone_formulas",
    "MjProof.C12.elliptic_zone_values_agree_top",
    "MjProof.C12.elliptic_zone_values_agree_bottom",
    "MjProof.C12.elliptic_force_is_neg_grad_normal",
    "MjProof.C12.elliptic_force_is_neg_grad_tangent",
    "MjProof.C12.elliptic_force_is_neg_grad_interior",
    "MjProof.C12.elliptic_gradient_inequality",
    "MjProof.C12.elliptic_convex",
    "MjProof.C12.elliptic_hessian_block",
    "MjProof.C12.elliptic_hessian_is_dforce",
    "MjProof.C12.elliptic_force_components",
    "MjProof.C12.update_cost_separable",
    "MjProof.C12.makeImpedance_elliptic_relation",
    "MjProof.C12.makeImpedance_pyramidal_rows",
    "MjProof.C12.elliptic_derivatives_of_makeImpedance",
    "MjProof.C12.makeImpedance_loop_elliptic_block",
]

EPS = 2.220446049250313e-16


# ------------------------------------------------------------------------------------------ finite-difference cases
def mod_scale(rng, lo=0.05, hi=20.0):
    return math.exp(rng.uniform(math.log(lo), math.log(hi)))


def fd_block(rng, u):
    """append one well-scaled block to u; returns list of (row index, L curvature bound, jar scale)"""
    kind = rng.choice(("eq", "fric", "fric", "nonneg", "nonneg", "ell", "ell", "ell", "ell"))
    i0 = len(u.rows)
    D = mod_scale(rng, 0.1, 100.0)
    R = 1 / D
    s = mod_scale(rng, 0.05, 5.0)
    if kind == "eq":
        u.rows.append((D, R, 0.0, rng.gauss(0, 1) * s, 0, 0))
        u.tags.append("eq")
        return [(i0, D, s)]
    if kind == "fric":
        fl = rng.choice((0.0, mod_scale(rng, 0.05, 5.0)))
        b = R * fl
        z = rng.choice(("neg", "pos", "quad", "b_neg", "b_pos", "zero"))
        jar = {"neg": -b * (1 + rng.random() * 2) - 0.01 * s, "pos": b * (1 + rng.random() * 2) + 0.01 * s, "quad": b * rng.uniform(-0.95, 0.95),
               "b_neg": -b, "b_pos": b, "zero": 0.0}[z]
        u.rows.append((D, R, fl, jar, rng.choice((1, 2)), 0))
        u.tags.append("fric:" + z)
        return [(i0, D, max(s, b))]
    if kind == "nonneg":
        z = rng.choice(("neg", "pos", "zero"))
        jar = {"neg": -s, "pos": s, "zero": 0.0}[z]
        u.rows.append((D, R, 0.0, jar, rng.choice((3, 4, 5, 6)), 0))
        u.tags.append("nonneg:" + z)
        return [(i0, D, s)]
    # elliptic block with the impedance relation
    dim = rng.choice((3, 4, 6, 3, 4, 6, 2, 5, 1))
    n = dim - 1
    fr = gen_friction(rng)
    if rng.random() < 0.5:
        fr = [mod_scale(rng, 0.2, 2.0) for _ in range(5)]   # comparable friction coefficients: every coordinate is well scaled
    Rl, Dl, mu = impedance(rng, fr, dim, True)
    # rescale so that D0 is moderate
    k = D / Dl[0]
    Dl = [d * k for d in Dl]
    Rl = [1 / d for d in Dl]
    zone = rng.choice(("top", "bottom", "middle", "middle", "b_top", "b_bot", "apex", "axis_neg", "axis_pos", "free"))
    T = s
    vec = [rng.gauss(0, 1) for _ in range(n)]
    nv = math.sqrt(sum(x * x for x in vec)) or 1.0
    U = [x / nv * T for x in vec]
    if n and rng.random() < 0.15:
        kk = rng.randrange(n)
        U = [T if j == kk else 0.0 for j in range(n)]
    if n == 0:
        T = 0.0
    N = {"top": mu * T * (1 + rng.uniform(0.05, 2)) + (s if n == 0 else 0), "bottom": -T / mu * (1 + rng.uniform(0.05, 2)) - (s if n == 0 else 0),
         "middle": rng.uniform(-T / mu, mu * T) * 0.9, "b_top": mu * T, "b_bot": -T / mu, "apex": 0.0, "axis_neg": -s, "axis_pos": s,
         "free": rng.gauss(0, 1) * T}[zone]
    if zone in ("apex", "axis_neg", "axis_pos"):
        U = [0.0] * n
    jar = [N / mu] + [U[j] / fr[j] for j in range(n)]
    cid = len(u.cons)
    u.cons.append((dim, mu, fr))
    for j in range(dim):
        u.rows.append((Dl[j], Rl[j], 0.0, jar[j], ELL, cid))
    u.tags.append("ell:%d:%s" % (dim, zone))
    # coordinate scales: the residual scale at which the block's geometry changes by O(1)
    sN = max(abs(N), T, s) / mu
    out = [(i0, Dl[0], sN)]
    for j in range(1, dim):
        out.append((i0 + j, Dl[j], max(abs(N), T, s) / fr[j - 1]))
    return out


def fd_case(rng):
    u = Upd()
    coords = []
    nb = rng.choice((1, 1, 1, 2, 4))
    # equality / friction rows must come first in the layout the function expects
    blocks = []
    for _ in range(nb):
        v = Upd()
        c = fd_block(rng, v)
        blocks.append((v, c))
    order = {"eq": 0, "fric": 1}
    blocks.sort(key=lambda bc: order.get(bc[0].tags[0].split(":")[0], 2))
    for v, c in blocks:
        off, coff = len(u.rows), len(u.cons)
        for r in v.rows:
            u.rows.append(r if r[4] != ELL else r[:5] + (r[5] + coff,))
        u.cons += v.cons
        u.tags += v.tags
        t = v.tags[0].split(":")[0]
        if t == "eq":
            u.ne += 1
        elif t == "fric":
            u.nf += 1
        coords += [(i + off, L, s) for (i, L, s) in c]
    return u, coords


def perturbed(u, k, dx):
    v = Upd()
    v.ne, v.nf, v.cons, v.tags = u.ne, u.nf, u.cons, u.tags
    v.rows = list(u.rows)
    r = v.rows[k]
    v.rows[k] = (r[0], r[1], r[2], r[3] + dx, r[4], r[5])
    return v


def fd_lines(rng, ncases):
    """returns (lines, plan); plan entries: (case id, base line idx, [(k, L, s, h, idx+, idx-, hH, idxH+, idxH-)])"""
    lines, plan = [], []
    for _ in range(ncases):
        u, coords = fd_case(rng)
        add_fd(lines, plan, u, coords)
    return lines, plan


def add_fd(lines, plan, u, coords):
    """append the base line of `u` and the +-h / +-hH perturbations of every coordinate in `coords` to lines / plan"""
    base = len(lines)
    lines.append(u.line(1))
    ent = []
    for (k, L, s) in coords:
        h = 2e-7 * s
        hH = 1e-6 * s
        ip = len(lines)
        lines.append(perturbed(u, k, h).line(1))
        lines.append(perturbed(u, k, -h).line(1))
        lines.append(perturbed(u, k, hH).line(1))
        lines.append(perturbed(u, k, -hH).line(1))
        ent.append((k, L, s, h, ip, ip + 1, hH, ip + 2, ip + 3))
    plan.append((u, base, ent))


def fd_oracle(plan, outs):
    """central differences of the returned cost vs returned force, and of the returned force vs the cone Hessian"""
    bad, stats = [], {"grad": 0, "hess": 0, "kink_or_boundary": 0, "max_grad_err_over_tol": 0.0, "max_hess_err_over_tol": 0.0}
    for (u, base, ent) in plan:
        b = parse_upd_out(outs[base])
        if b is None:
            continue
        cost, f, st, hs = b
        if not finite(cost, *f):
            continue
        blocks = c11.walk_blocks(u)
        owner = {}
        for bi, (kind, i, n, con) in enumerate(blocks):
            for j in range(n):
                owner[i + j] = bi
        for (k, L, s, h, ip, im, hH, jp, jm) in ent:
            p, m = parse_upd_out(outs[ip]), parse_upd_out(outs[im])
            if p is None or m is None:
                continue
            # the step actually taken (jar+h and jar-h are rounded)
            x0 = u.rows[k][3]
            dh = (x0 + h) - (x0 - h)
            fdv = (p[0] - m[0]) / dh
            tol = 1e-6 * max(abs(f[k]), L * s) + 32 * EPS * max(abs(p[0]), abs(m[0])) / dh
            stats["grad"] += 1
            if p[2] != m[2]:
                stats["kink_or_boundary"] += 1
            if tol > 0 and abs(fdv + f[k]) <= tol:
                stats["max_grad_err_over_tol"] = max(stats["max_grad_err_over_tol"], abs(fdv + f[k]) / tol)
            if not (abs(fdv + f[k]) <= tol):
                kind = blocks[owner[k]][0]
                bad.append(("c12:force-not-neg-gradient:" + kind,
                            "row %d (%s, states %r -> %r/%r): central difference of the returned cost d cost/d jar = %r but returned "
                            "force = %r (|sum| = %.3g > tol %.3g, h = %.3g)" % (k, kind, st[k], p[2][k], m[2][k], fdv, f[k], abs(fdv + f[k]), tol, h),
                            {"line": u.line(1), "row": k, "h": h, "tags": u.tags}))
            # Hessian: only for rows of a cone block that is in the middle zone at the base point and at both perturbed points
            kind, i0, n, con = blocks[owner[k]]
            if kind != "ell" or st[i0] != 4:
                continue
            P, M = parse_upd_out(outs[jp]), parse_upd_out(outs[jm])
            if P is None or M is None or P[2][i0] != 4 or M[2][i0] != 4:
                continue
            H = hs[u.rows[i0][5]]
            if H is None or len(H) != n * n or not finite(*H):
                bad.append(("c12:hessian-missing", "cone in the middle zone with flg_coneHessian but contact.H not written", {"line": u.line(1)}))
                continue
            dim, mu, fr = con
            wts = [mu] + list(fr[:n - 1])
            S = max(abs(H[a * n + c]) / (wts[a] * wts[c]) for a in range(n) for c in range(n))
            dH = (x0 + hH) - (x0 - hH)
            j = k - i0
            for a in range(n):
                fdh = (P[1][i0 + a] - M[1][i0 + a]) / dH
                tolh = 1e-6 * S * wts[a] * wts[j] + 32 * EPS * max(abs(P[1][i0 + a]), abs(M[1][i0 + a])) / dH
                stats["hess"] += 1
                if tolh > 0 and abs(fdh + H[a * n + j]) <= tolh:
                    stats["max_hess_err_over_tol"] = max(stats["max_hess_err_over_tol"], abs(fdh + H[a * n + j]) / tolh)
                if not (abs(fdh + H[a * n + j]) <= tolh):
                    bad.append(("c12:hessian-not-dforce", "cone Hessian entry (%d,%d) = %r but -d force_%d / d jar_%d = %r (tol %.3g)"
                                % (a, j, H[a * n + j], a, j, -fdh, tolh), {"line": u.line(1), "row": k, "h": hH, "tags": u.tags}))
                if H[a * n + j] != H[j * n + a]:
                    bad.append(("c12:hessian-asymmetric", "cone Hessian not symmetric at (%d,%d)" % (a, j), {"line": u.line(1)}))
    return bad, stats


def convexity_oracle(rng, impl, ctx, n):
    """midpoint convexity and the supporting-hyperplane inequality of the returned cost on the real function (related parameters)"""
    lines, plan = [], []
    for _ in range(n):
        u, coords = fd_case(rng)
        # second point: same parameters, different residuals
        v = Upd()
        v.ne, v.nf, v.cons, v.tags = u.ne, u.nf, u.cons, u.tags
        v.rows = [(r[0], r[1], r[2], r[3] + rng.gauss(0, 1) * s * rng.choice((0.1, 1.0, 3.0)), r[4], r[5]) for r, (_, _, s) in zip(u.rows, coords)]
        w = Upd()
        w.ne, w.nf, w.cons, w.tags = u.ne, u.nf, u.cons, u.tags
        lam = rng.choice((0.5, rng.random()))
        w.rows = [(a[0], a[1], a[2], lam * a[3] + (1 - lam) * b[3], a[4], a[5]) for a, b in zip(u.rows, v.rows)]
        plan.append((u, v, w, lam, len(lines)))
        lines += [u.line(0), v.line(0), w.line(0)]
    rc, outs, err = ctx.run_lines([impl], lines)
    bad = []
    if rc != 0 or len(outs) != len(lines):
        return [("c12:crash", "harness crashed in the convexity oracle", {"stderr": err[-300:]})], 0
    cnt = 0
    for (u, v, w, lam, i) in plan:
        a, b, c = parse_upd_out(outs[i]), parse_upd_out(outs[i + 1]), parse_upd_out(outs[i + 2])
        if not (a and b and c) or not finite(a[0], b[0], c[0]):
            continue
        cnt += 1
        sc = max(abs(a[0]), abs(b[0]), 1e-300)
        if c[0] > lam * a[0] + (1 - lam) * b[0] + 1e-9 * sc:
            bad.append(("c12:cost-not-convex", "returned cost violates convexity: cost(l x + (1-l) y) = %r > l cost(x) + (1-l) cost(y) = %r (l = %r)"
                        % (c[0], lam * a[0] + (1 - lam) * b[0], lam), {"x": u.line(0), "y": v.line(0), "lambda": lam, "tags": u.tags}))
        # supporting hyperplane at x evaluated at y
        lin = a[0] + sum(-fa * (rb[3] - ra[3]) for fa, ra, rb in zip(a[1], u.rows, v.rows))
        sc2 = max(abs(a[0]), abs(b[0]), sum(abs(fa * (rb[3] - ra[3])) for fa, ra, rb in zip(a[1], u.rows, v.rows)), 1e-300)
        if lin > b[0] + 1e-9 * sc2:
            bad.append(("c12:gradient-inequality", "cost(x) - force(x).(y-x) = %r exceeds cost(y) = %r" % (lin, b[0]),
                        {"x": u.line(0), "y": v.line(0), "tags": u.tags}))
    return bad, cnt


# ------------------------------------------------------------------------------------------ mj_makeImpedance: assembled rows
PYR = E("mjCNSTR_CONTACT_PYRAMIDAL")
assert ELL == E("mjCNSTR_CONTACT_ELLIPTIC")
SCALAR_PRE = (E("mjCNSTR_EQUALITY"), E("mjCNSTR_FRICTION_DOF"), E("mjCNSTR_FRICTION_TENDON"))
SCALAR_POST = (E("mjCNSTR_LIMIT_JOINT"), E("mjCNSTR_LIMIT_TENDON"), E("mjCNSTR_CONTACT_FRICTIONLESS"))


def gen_aniso_friction(rng):
    """five friction coefficients as a <pair> can carry them: tangential pair possibly anisotropic"""
    k = rng.random()
    if k < 0.3:
        return gen_friction(rng)
    f1 = rng.uniform(0.05, 2.0)
    f2 = rng.uniform(0.05, 2.0)
    if k < 0.4:
        f2 = f1 * rng.choice((0.1, 10.0))
    t = rng.uniform(0.001, 0.1)
    r1 = rng.uniform(0.0001, 0.01)
    r2 = r1 if rng.random() < 0.4 else rng.uniform(0.0001, 0.01)
    if rng.random() < 0.1:
        return [rng.choice((1e-5, 1.0, f1)) for _ in range(5)]
    return [f1, f2, t, r1, r2]


def gen_imp_value(rng):
    return rng.choice((0.9, 0.95, 0.5, 0.0001, 0.9999, rng.uniform(0.0001, 0.9999), rng.uniform(0.8, 0.9999)))


def gen_impratio(rng):
    k = rng.random()
    if k < 0.25:
        return 1.0
    if k < 0.6:
        return rng.choice((0.25, 0.5, 3.0, 4.0, 10.0, 100.0))
    if k < 0.9:
        return 10.0 ** rng.uniform(-3, 3)
    return rng.choice((0.0, -1.0, 1e-15, 1e-16, 1e-300, 1e300, float("inf"), float("nan"), 5e-324))


def gen_diagA(rng):
    k = rng.random()
    if k < 0.9:
        return pos_scale(rng)
    return rng.choice((0.0, -1.0, 1e-18, 1e-300, 1e300, 5e-324))


def imp_line(nefnf, impratio, rows, cons):
    t = ["imp", str(nefnf), hexf(impratio), str(len(rows)), str(len(cons))]
    for (a, im, ty, k) in rows:
        t += [hexf(a), hexf(im), str(ty), str(k)]
    for (dim, fr) in cons:
        t += [str(dim)] + [hexf(f) for f in fr]
    return " ".join(t)


def gen_imp_case(rng):
    """one well-formed `imp` op: scalar rows, then blocks; every frictional block owns a fresh contact"""
    nefnf = rng.choice((0, 0, 1, 2, 3))
    rows, tags = [], []
    for _ in range(nefnf):
        rows.append((gen_diagA(rng), gen_imp_value(rng), rng.choice(SCALAR_PRE), 0))
    blocks = []
    for _ in range(rng.randint(0, 5)):
        k = rng.random()
        if k < 0.25:
            rows.append((gen_diagA(rng), gen_imp_value(rng), rng.choice(SCALAR_POST), 0))
            continue
        ty = ELL if k < 0.75 else PYR
        dim = rng.choice((3, 4, 6, 3, 4, 6, 3, 4, 6, 2, 5))
        blocks.append((len(rows), ty, dim))
        im = gen_imp_value(rng)
        nrows = dim if ty == ELL else 2 * (dim - 1)
        # diagA as mj_diagApprox sets it: translational for the first three rows, rotational after (any values do)
        tran, rot = gen_diagA(rng), gen_diagA(rng)
        for j in range(nrows):
            rows.append((tran if j < 3 else rot, im, ty, len(blocks) - 1))
    # contacts: those of the blocks plus unused ones, in shuffled order
    ncon = len(blocks) + rng.choice((0, 0, 1, 2))
    perm = list(range(ncon))
    rng.shuffle(perm)
    cons = [None] * ncon
    for b, (i0, ty, dim) in enumerate(blocks):
        cons[perm[b]] = (dim, gen_aniso_friction(rng))
        tags.append("%s:%d" % ("ell" if ty == ELL else "pyr", dim))
    for c in range(ncon):
        if cons[c] is None:
            cons[c] = (rng.choice((1, 3, 4, 6)), gen_aniso_friction(rng))
    rows = [(a, im, ty, perm[k] if ty in (ELL, PYR) else 0) for (a, im, ty, k) in rows]
    impratio = gen_impratio(rng)
    return nefnf, impratio, rows, cons, tags


IMP_MALFORMED = [
    "imp 0 3ff0000000000000 1 0 3ff0000000000000 3fe0000000000000 7 0",                          # contact id out of range
    "imp 0 3ff0000000000000 1 1 3ff0000000000000 3fe0000000000000 7 0 1 " + " ".join(["3ff0000000000000"] * 5),   # dim 1 frictional
    "imp 0 3ff0000000000000 2 1 " + "3ff0000000000000 3fe0000000000000 7 0 " * 2 + "3 " + " ".join(["3ff0000000000000"] * 5),  # block past nefc
    "imp 0 3ff0000000000000 2 1 " + "3ff0000000000000 3fe0000000000000 6 0 " * 2 + "3 " + " ".join(["3ff0000000000000"] * 5),  # pyramidal block past nefc
    "imp 1 3ff0000000000000 1 1 3ff0000000000000 3fe0000000000000 7 0 3 " + " ".join(["3ff0000000000000"] * 5),   # frictional row before ne+nf
    "imp 0 3ff0000000000000 1 0 3ff0000000000000 3fe0000000000000 9 0",                          # not an mjtConstraint
    "imp 0 3ff0000000000000 1 0 3ff0000000000000 3fe0000000000000 3",                            # short
    "imp 2 3ff0000000000000 1 0 3ff0000000000000 3fe0000000000000 3 0",                          # nefc < ne+nf
]


def parse_imp_out(out):
    """'R .. | D .. | m ..' -> (R, D, mu list with None for unwritten) or None"""
    if not out.startswith("R "):
        return None
    p = out.split(" | ")
    if len(p) != 3 or not p[1].startswith("D") or not p[2].startswith("m"):
        return None
    R = [unhex(x) for x in p[0].split()[1:]]
    D = [unhex(x) for x in p[1].split()[1:]]
    mu = [None if x == "-" else unhex(x) for x in p[2].split()[1:]]
    return R, D, mu


def sane(*xs):
    return all(finite(x) and 1e-140 < abs(x) < 1e140 for x in xs)


def relation_failures(D0, Dt, mu, fr, rtol=1e-9):
    """the hypothesis of the elliptic theorems on concrete numbers: mu > 0, D > 0, D_j mu^2 = D_0 friction_j^2.
    Returns list of (j, lhs, rhs); j = 0 flags a sign problem."""
    bad = []
    if not (mu > 0 and D0 > 0):
        return [(0, mu, D0)]
    for j, (Dj, w) in enumerate(zip(Dt, fr), start=1):
        a, b = Dj * mu * mu, D0 * w * w
        if not (Dj > 0) or abs(a - b) > rtol * max(abs(a), abs(b)):
            bad.append((j, a, b))
    return bad


def imp_oracle(case, out):
    """relation between the efc_D of the rows of every elliptic block and contact.mu on the output of the real function"""
    nefnf, impratio, rows, cons, tags = case
    r = parse_imp_out(out)
    if r is None:
        return []
    R, D, mus = r
    bad = []
    i = nefnf
    while i < len(rows):
        ty, cid = rows[i][2], rows[i][3]
        if ty not in (ELL, PYR):
            i += 1
            continue
        dim, fr = cons[cid]
        nrows = dim if ty == ELL else 2 * (dim - 1)
        mu = mus[cid]
        if ty == ELL and mu is not None and sane(mu, *D[i:i + dim]) and sane(*fr[:dim - 1]) and all(f > 0 for f in fr[:dim - 1]):
            for (j, a, b) in relation_failures(D[i], D[i + 1:i + dim], mu, fr):
                bad.append(("c12:impedance-relation", "mj_makeImpedance, elliptic contact of dim %d, impratio %r, friction %r: row %d has "
                            "efc_D*mu^2 = %r but efc_D[normal]*friction^2 = %r (the bottom-zone and middle-zone cost of "
                            "mj_constraintUpdate_impl then differ on their common boundary)" % (dim, impratio, fr[:dim - 1], j, a, b)))
        i += nrows
    return bad


# ------------------------------------------------------------------------------------------ island-ordered parameter copies
FRIC_TYPES = (E("mjCNSTR_FRICTION_DOF"), E("mjCNSTR_FRICTION_TENDON"))
EQ_TYPE = E("mjCNSTR_EQUALITY")
ISL_FIELDS = ("type", "id", "frictionloss", "D", "R")


def island_scene(rng):
    """3..5 separate kinematic trees (chains of 1..2 hinge / slide joints), most joints with frictionloss and a violated
    limit, per-joint armature / solimp (so that efc_R differs row by row); sometimes a free sphere resting on a floor.
    In the global efc order (friction rows of all trees, then limits, then contacts) the rows of the islands interleave.
    Returns (lines, qpos, nv)."""
    L = ["option timestep %r" % rng.choice((0.002, 0.005))]
    h, qpos, nv = 0, [], 0
    ntree = rng.randint(3, 5)
    for t in range(ntree):
        parent = 0
        for k in range(rng.choice((1, 1, 2))):
            bh, jh, gh = h + 1, h + 2, h + 3
            h += 3
            pos = [2.0 * t, 0.0, 1.5] if k == 0 else [0.0, 0.0, -0.25]
            slide = rng.random() < 0.3
            L += ["body %d %d" % (bh, parent), "set %d pos %s" % (bh, " ".join(repr(x) for x in pos)),
                  "joint %d %d" % (jh, bh), "set %d type %d" % (jh, E("mjJNT_SLIDE" if slide else "mjJNT_HINGE")),
                  "set %d axis %s" % (jh, rng.choice(("0 1 0", "1 0 0", "0 0 1") if slide else ("0 1 0", "1 0 0"))),
                  "set %d armature %r" % (jh, rng.choice((0.0, mod_scale(rng, 0.001, 1.0)))),
                  "geom %d %d" % (gh, bh), "set %d type %d" % (gh, E("mjGEOM_SPHERE")), "set %d size %r" % (gh, rng.uniform(0.03, 0.1)),
                  "set %d pos 0 0 -0.2" % gh, "set %d density %r" % (gh, rng.uniform(200, 3000))]
            forced = t < 3 and k == 0     # at least three islands own a friction-loss row and an active limit
            if forced or rng.random() < 0.7:
                L.append("set %d frictionloss %r" % (jh, mod_scale(rng, 0.02, 5.0)))
                if rng.random() < 0.5:
                    a, b = sorted((rng.uniform(0.3, 0.99), rng.uniform(0.3, 0.99)))
                    L.append("set %d solimp_friction %r %r %r 0.5 2" % (jh, a, b, rng.uniform(0.0005, 0.05)))
            q = rng.uniform(-0.5, 0.5)
            if forced or rng.random() < 0.7:
                lo = rng.uniform(-0.4, 0.1)
                hi = lo + rng.uniform(0.1, 0.4)
                L += ["set %d limited %d" % (jh, E("mjLIMITED_TRUE")), "set %d range %r %r" % (jh, lo, hi)]
                if rng.random() < 0.5:
                    a, b = sorted((rng.uniform(0.3, 0.99), rng.uniform(0.3, 0.99)))
                    L.append("set %d solimp_limit %r %r %r 0.5 2" % (jh, a, b, rng.uniform(0.0005, 0.05)))
                if forced or rng.random() < 0.8:
                    q = rng.choice((lo - rng.uniform(0.001, 0.1), hi + rng.uniform(0.001, 0.1)))
            qpos.append(q)
            nv += 1
            parent = bh
    if rng.random() < 0.5:
        r = rng.uniform(0.05, 0.15)
        L += ["geom %d 0" % (h + 1), "set %d type %d" % (h + 1, E("mjGEOM_PLANE")), "set %d size 5 5 0.1" % (h + 1),
              "body %d 0" % (h + 2), "set %d pos -3 0 %r" % (h + 2, r - 0.003), "freejoint %d %d" % (h + 3, h + 2),
              "geom %d %d" % (h + 4, h + 2), "set %d type %d" % (h + 4, E("mjGEOM_SPHERE")), "set %d size %r" % (h + 4, r),
              "set %d condim %d" % (h + 4, rng.choice((1, 3, 4, 6)))]
        qpos += [-3.0, 0.0, r - 0.003, 1.0, 0.0, 0.0, 0.0]
        nv += 6
    return L, qpos, nv


def parse_island_out(o):
    """`isl ...` -> dict or None (no islands)"""
    p = o.split(" | ")
    w = p[0].split()
    if w[0] != "isl" or int(w[1]) == 0 or len(p) != 9:
        return None
    r = {"nisland": int(w[1]), "nefc": int(w[2])}
    for sec, key in zip(p[1:7], ("a", "n", "e", "f", "i2e", "e2i")):
        t = sec.split()
        if t[0] != key:
            return None
        r[key] = [int(x) for x in t[1:]]
    for sec, key in zip(p[7:9], ("E", "I")):
        t = sec.split()
        if t[0] != key or len(t) - 1 != 5 * r["nefc"]:
            return None
        r[key] = [tuple(t[1 + 5 * i:6 + 5 * i]) for i in range(r["nefc"])]
    return r


def island_oracle(r):
    """the island-ordered copies handed to the per-island mj_constraintUpdate_impl calls are the gather of the global arrays:
    iefc_X[i] = efc_X[map_iefc2efc[i]] (bitwise) for type / id / frictionloss / D / R; the maps are inverse permutations; every
    island's block is laid out as the function expects (island_ne equality rows, then island_nf friction rows, then the
    rest); D*R = 1 row by row (the friction-loss zone boundary R*floss is where D*jar = floss).  Returns [(key, what)]"""
    bad = []
    n, i2e, e2i = r["nefc"], r["i2e"], r["e2i"]
    if len(i2e) != n or len(e2i) != n or sorted(i2e) != list(range(n)) or any(e2i[i2e[i]] != i for i in range(n)):
        return [("c12:island-map-not-inverse", "map_iefc2efc %r / map_efc2iefc %r are not inverse permutations of the %d rows" % (i2e, e2i, n))]
    for i in range(n):
        for fi, fname in enumerate(ISL_FIELDS):
            if r["I"][i][fi] != r["E"][i2e[i]][fi]:
                a, b = r["I"][i][fi], r["E"][i2e[i]][fi]
                if fi >= 2:
                    a, b = unhex(a), unhex(b)
                bad.append(("c12:island-copy-not-gather:" + fname,
                            "iefc_%s[%d] = %r but efc_%s[map_iefc2efc[%d] = %d] = %r: the island solver hands mj_constraintUpdate_impl a "
                            "parameter that is not the one of this row (for a friction-loss row with a foreign R the zone boundary "
                            "+-R*floss is off the point where D*jar = floss, cost and force jump there)" % (fname, i, a, fname, i, i2e[i], b)))
                break
        ty = int(r["I"][i][0])
        D, R = unhex(r["I"][i][3]), unhex(r["I"][i][4])
        if sane(D, R) and abs(D * R - 1.0) > 1e-12:
            bad.append(("c12:island-DR-not-reciprocal", "island row %d (efc row %d, type %d): iefc_D*iefc_R = %r != 1" % (i, i2e[i], ty, D * R)))
    if len(r["a"]) != r["nisland"] or sum(r["n"]) != n:
        bad.append(("c12:island-layout", "island_nefc %r does not sum to nefc %d" % (r["n"], n)))
        return bad
    for k in range(r["nisland"]):
        a, cnt, ne, nf = r["a"][k], r["n"][k], r["e"][k], r["f"][k]
        for j in range(cnt):
            ty = int(r["I"][a + j][0])
            want = "eq" if j < ne else "fric" if j < ne + nf else "other"
            got = "eq" if ty == EQ_TYPE else "fric" if ty in FRIC_TYPES else "other"
            if want != got:
                bad.append(("c12:island-layout", "island %d (rows %d..%d, ne %d, nf %d): local row %d has type %d, expected a row of kind %s"
                            % (k, a, a + cnt - 1, ne, nf, j, ty, want)))
                break
    return bad


def run_islands(ctx, impl, nscenes):
    """S: mj_forward on multi-tree scenes, then the island-ordered parameter copies vs the gather of the global arrays"""
    rng = ctx.rng
    script, meta = [], []
    for mi in range(nscenes):
        mlines, q, nv = island_scene(rng)
        script.append("model")
        script += mlines + ["end"]
        meta.append(("model", None))
        for si in range(2):
            v = [0.0] * nv if si == 0 else [rng.gauss(0, 1) * 0.5 for _ in range(nv)]
            sol, cone, jac = rng.choice(c11.SOLVERS), rng.choice(("ELLIPTIC", "PYRAMIDAL")), rng.choice(("DENSE", "SPARSE"))
            info = {"kind": "islands", "model": mi, "state": si, "solver": sol, "cone": cone, "jacobian": jac, "qpos": q, "qvel": v, "model_lines": mlines}
            for cmd in ("reset", "opt %d %d %d %d %r %r %d" % (E("mjSOL_" + sol), E("mjCONE_" + cone), E("mjJAC_" + jac), 50, 1e-8, rng.choice((1.0, 3.0)), 0),
                        "set qpos " + " ".join(repr(float(x)) for x in q), "set qvel " + " ".join(repr(float(x)) for x in v)):
                script.append(cmd)
                meta.append(("ok", None))
            script.append("fwdq")
            meta.append(("fwdq", info))
            script.append("islandline")
            meta.append(("islandline", info))
    stats = {"scenes": nscenes, "forward_calls": 0, "with_islands": 0, "islands_ge_3": 0, "rows_interleaved": 0, "permutation_not_involution": 0,
             "friction_rows": 0, "rows": 0, "distinct_R_scenes": 0, "model_errors": 0}
    rc, outs, err = ctx.run_lines([impl], script)
    if rc != 0 or len(outs) != len(meta):
        return [("c12:scene-crash", "constraint harness crashed or lost sync on island scenes (rc=%s, %d outputs for %d commands)"
                 % (rc, len(outs), len(meta)), {"stderr": err[-500:]})], stats
    fails = []
    for (kind, info), o in zip(meta, outs):
        if kind == "model" and not o.startswith("ok"):
            stats["model_errors"] += 1
        elif kind == "fwdq" and o.startswith("ok"):
            stats["forward_calls"] += 1
        elif kind == "islandline" and o.startswith("isl "):
            r = parse_island_out(o)
            if r is None:
                continue
            stats["with_islands"] += 1
            stats["islands_ge_3"] += r["nisland"] >= 3
            stats["rows_interleaved"] += r["i2e"] != list(range(r["nefc"]))
            stats["permutation_not_involution"] += r["i2e"] != r["e2i"]
            stats["friction_rows"] += sum(int(x[0]) in FRIC_TYPES for x in r["E"])
            stats["rows"] += r["nefc"]
            stats["distinct_R_scenes"] += len({x[4] for x in r["E"]}) >= 3
            for key, what in island_oracle(r):
                fails.append((key, "after mj_forward on a scene with %d constraint islands: %s" % (r["nisland"], what),
                              {"scene": info, "replay": "feed `model` + scene.model_lines + `end`, `opt`, `set qpos/qvel`, `fwdq`, `islandline` "
                                                          "to <c11_constraint harness>", "islandline": o[:2000]}))
    return fails, stats


# ------------------------------------------------------------------------------------------ engine scenes
C12_SCENE_PROFILE = dict(c11.SCENE_PROFILE, nbody=(2, 5), free=0.8, condim=(3, 4, 6, 3, 4, 6, 1), pairs=0.5, equalities=0.4, tendons=0.3)
GEOM_SIZES = {"sphere": 1, "capsule": 2, "ellipsoid": 3, "cylinder": 2, "box": 3}


def pair_lines(rng, h, g1, g2):
    """a <pair> with explicit condim / five friction coefficients (the only way to get friction[0] != friction[1]) and,
    sometimes, its own solref / solreffriction / solimp / margin"""
    L = ["pair %d" % h, "set %d geomname1 %s" % (h, g1), "set %d geomname2 %s" % (h, g2),
         "set %d condim %d" % (h, rng.choice((3, 4, 6))),
         "set %d friction %s" % (h, " ".join(repr(f) for f in gen_aniso_friction(rng)))]
    if rng.random() < 0.4:
        a, b = sorted((rng.uniform(0.5, 0.99), rng.uniform(0.5, 0.99)))
        L.append("set %d solimp %r %r %r %r %r" % (h, a, b, rng.uniform(0.0005, 0.05), rng.uniform(0.2, 0.8), rng.choice((1.0, 2.0, 3.0))))
    if rng.random() < 0.3:
        L.append("set %d solref %r %r" % (h, rng.uniform(0.005, 0.05), rng.uniform(0.5, 2.0)))
    if rng.random() < 0.3:
        L.append("set %d solreffriction %r %r" % (h, rng.uniform(0.005, 0.05), rng.uniform(0.5, 2.0)))
    if rng.random() < 0.3:
        L.append("set %d margin %r" % (h, rng.uniform(0.0, 0.03)))
    return L


def directed_scene(rng):
    """free bodies resting on / slightly inside the floor, each with its own floor <pair>; returns (lines, qpos)"""
    L = ["option timestep %r" % rng.choice((0.002, 0.005)), "geom 1 0", "set 1 type %d" % E("mjGEOM_PLANE"), "set 1 size 5 5 0.1", "name 1 floor"]
    h, qpos = 1, []
    nb = rng.randint(2, 4)
    for b in range(nb):
        gt = rng.choice(("sphere", "capsule", "ellipsoid", "box", "box", "cylinder"))
        size = [rng.uniform(0.05, 0.2) for _ in range(GEOM_SIZES[gt])]
        zr = size[0] + size[1] if gt == "capsule" else size[-1]   # height of the body origin when the geom touches the floor
        pos = [0.8 * b, rng.uniform(-0.1, 0.1), zr - rng.uniform(-0.002, 0.01)]
        bh, jh, gh, ph = h + 1, h + 2, h + 3, h + 4
        h += 4
        L += ["body %d 0" % bh, "name %d b%d" % (bh, b), "set %d pos %s" % (bh, " ".join(repr(x) for x in pos)),
              "freejoint %d %d" % (jh, bh), "name %d j%d" % (jh, b),
              "geom %d %d" % (gh, bh), "name %d g%d" % (gh, b), "set %d type %d" % (gh, E("mjGEOM_" + gt.upper())),
              "set %d size %s" % (gh, " ".join(repr(x) for x in size))]
        if rng.random() < 0.85:
            L += pair_lines(rng, ph, "floor", "g%d" % b)
        else:
            L += ["set %d condim %d" % (gh, rng.choice((3, 4, 6)))]
        tilt = rng.random() < 0.3 and gt != "sphere"
        q = [1.0, 0.0, 0.0, 0.0]
        if tilt:
            a = rng.uniform(-0.1, 0.1)
            q = [math.cos(a / 2), math.sin(a / 2), 0.0, 0.0]
        qpos += pos + q
    return L, qpos


def add_floor_pairs(rng, mdl):
    """post-process a gen/models.py scene: floor <pair>s (anisotropic friction, condim 3/4/6) for geoms of its bodies"""
    hmax = 0
    for l in mdl.lines:
        w = l.split()
        if len(w) >= 2 and w[1].isdigit():
            hmax = max(hmax, int(w[1]))
    extra = []
    for g in mdl.geoms:
        if g["type"] != "plane" and g.get("name") and rng.random() < 0.5:
            hmax += 1
            extra += pair_lines(rng, hmax, "floor", g["name"])
    return mdl.lines + extra


def scene_script(ctx, nrandom, ndirected):
    rng = ctx.rng
    script, meta = [], []
    for mi in range(nrandom + ndirected):
        if mi < nrandom:
            mdl = ModelGen(rng, C12_SCENE_PROFILE).make()
            mlines = add_floor_pairs(rng, mdl)
            states = []
            for si in range(2):
                st = mdl.random_state(rng, scale=0.7)
                q = list(st["qpos"])
                for j in mdl.joints:
                    if j["type"] == "free":
                        q[j["qposadr"] + 2] = rng.uniform(0.02, 0.3)
                states.append((q, st["qvel"]))
        else:
            mlines, q = directed_scene(rng)
            nv = 6 * (len(q) // 7)
            states = [(q, [0.0] * nv), (q, [rng.gauss(0, 1) * 0.5 for _ in range(nv)])]
        script.append("model")
        script += mlines + ["end"]
        meta.append(("model", None))
        for si, (q, v) in enumerate(states):
            for cone in ("ELLIPTIC", "ELLIPTIC", "PYRAMIDAL"):
                impratio = rng.choice((1.0, 0.25, 0.5, 3.0, 10.0, 100.0, 10.0 ** rng.uniform(-1.5, 2.5)))
                sol = rng.choice(c11.SOLVERS)
                jac = rng.choice(("DENSE", "SPARSE"))
                info = {"model": mi, "kind": "random" if mi < nrandom else "directed", "state": si, "solver": sol, "cone": cone,
                        "jacobian": jac, "impratio": impratio, "qpos": q, "qvel": v, "model_lines": mlines}
                script.append("reset")
                meta.append(("ok", None))
                script.append("opt %d %d %d %d %r %r %d" % (E("mjSOL_" + sol), E("mjCONE_" + cone), E("mjJAC_" + jac), 50, 1e-8, impratio, 0))
                meta.append(("ok", None))
                for fld, val in (("qpos", q), ("qvel", v)):
                    if val:
                        script.append("set %s %s" % (fld, " ".join(repr(float(x)) for x in val)))
                        meta.append(("ok", None))
                script.append("fwdq")
                meta.append(("fwdq", info))
                script.append("impline")
                meta.append(("impline", info))
                script.append("updline 1")
                meta.append(("updline", info))
    return script, meta


def parse_upd_line(line):
    """an `upd` op line -> Upd (rows as floats)"""
    w = line.split()
    ne, nf, nefc, ncon = int(w[1]), int(w[2]), int(w[4]), int(w[5])
    u = Upd()
    u.ne, u.nf = ne, nf
    t = w[6:]
    for i in range(nefc):
        a = t[6 * i:6 * i + 6]
        u.rows.append((unhex(a[0]), unhex(a[1]), unhex(a[2]), unhex(a[3]), int(a[4]), int(a[5])))
    t = t[6 * nefc:]
    for c in range(ncon):
        a = t[7 * c:7 * c + 7]
        u.cons.append((int(a[0]), unhex(a[1]), [unhex(x) for x in a[2:7]]))
    return u


ENGINE_ZONES = ("b_bot", "b_bot", "b_bot_axis", "b_bot_axis", "b_top", "middle", "bottom", "engine")


def engine_block_cases(rng, u, i0, con, lines, plan, info):
    """finite-difference cases around the zone boundaries for ONE elliptic contact with the efc_D / contact.mu / friction that
    the engine produced; the residuals are re-aimed (zone `engine`: the residual of the scene itself)"""
    dim, mu, fr = con
    n = dim - 1
    Dl = [u.rows[i0 + j][0] for j in range(dim)]
    Rl = [u.rows[i0 + j][1] for j in range(dim)]
    if not (sane(mu, *Dl) and sane(*fr[:n]) and mu > 0 and all(d > 0 for d in Dl) and all(f > 0 for f in fr[:n])):
        return
    for zone in ENGINE_ZONES:
        s = mod_scale(rng, 0.05, 5.0)
        T = s
        if zone == "engine":
            jar = [u.rows[i0 + j][3] for j in range(dim)]
            if not finite(*jar):
                continue
            N = jar[0] * mu
            T = math.sqrt(sum((jar[j + 1] * fr[j]) ** 2 for j in range(n)))
            s = max(abs(N), T)
            if not (1e-9 < s < 1e9):
                continue
        else:
            vec = [rng.gauss(0, 1) for _ in range(n)]
            nv = math.sqrt(sum(x * x for x in vec)) or 1.0
            U = [x / nv * T for x in vec]
            if zone == "b_bot_axis":
                kk = rng.randrange(n)
                U = [T * rng.choice((-1, 1)) if j == kk else 0.0 for j in range(n)]
            N = {"b_bot": -T / mu, "b_bot_axis": -T / mu, "b_top": mu * T, "middle": rng.uniform(-T / mu, mu * T) * 0.9,
                 "bottom": -T / mu * (1 + rng.uniform(0.05, 2))}[zone]
            jar = [N / mu] + [U[j] / fr[j] for j in range(n)]
        v = Upd()
        v.cons.append((dim, mu, fr))
        for j in range(dim):
            v.rows.append((Dl[j], Rl[j], 0.0, jar[j], ELL, 0))
        v.tags.append("engine-ell:%d:%s" % (dim, zone))
        v.info = info
        # coordinate scales: the cost is piecewise quadratic in the normal residual (any step works; the tolerance scales with
        # it), but depends on the tangential residuals through T = |U|: their step must be small relative to T itself
        if not (T > 0 and T > 1e-12 * abs(N)):
            continue
        coords = [(0, Dl[0], max(abs(N), T) / mu)] + [(j, Dl[j], T / fr[j - 1]) for j in range(1, dim)]
        add_fd(lines, plan, v, coords)


def run_scenes(ctx, drv, impl, nrandom, ndirected, report=True):
    """T: mj_makeImpedance(m, d) on the constraint rows of real scenes vs the Lean model (bitwise).
    S: the impedance relation on the engine's efc_D / contact.mu, and finite differences of the real
    mj_constraintUpdate_impl around the zone boundaries with the engine's parameters.  Returns (failures, stats)."""
    script, meta = scene_script(ctx, nrandom, ndirected)
    rc, outs, err = ctx.run_lines([impl], script)
    fails, stats = [], {"forward_calls": 0, "elliptic_contacts": 0, "pyramidal_contacts": 0, "impratio_ne_1": 0, "anisotropic": 0,
                        "by_condim": {}, "fd_blocks": 0}
    if rc != 0 or len(outs) != len(meta):
        return [("c12:scene-crash", "constraint harness crashed or lost sync on engine scenes (rc=%s, %d outputs for %d commands)"
                 % (rc, len(outs), len(meta)), {"stderr": err[-500:]})], stats
    imp_ops, imp_obs, imp_info = [], [], []
    fl, plan, updlines = [], [], []
    for (kind, info), o in zip(meta, outs):
        if kind == "model" and not o.startswith("ok"):
            stats["model_errors"] = stats.get("model_errors", 0) + 1
        elif kind == "fwdq" and o.startswith("ok"):
            stats["forward_calls"] += 1
        elif kind == "impline" and o.startswith("imp ") and " => " in o:
            a, b = o.split(" => ", 1)
            imp_ops.append(a)
            imp_obs.append(b)
            imp_info.append(info)
        elif kind == "updline" and o.startswith("upd "):
            updlines.append(o)
            u = parse_upd_line(o)
            nblk = 0
            for (bk, i0, n, con) in c11.walk_blocks(u):
                if bk == "nonneg" and u.rows[i0][4] == PYR:
                    stats["pyramidal_contacts"] += 1   # rows, not contacts: counted per row
                if bk != "ell":
                    continue
                dim, mu, fr = con
                stats["elliptic_contacts"] += 1
                stats["by_condim"][str(dim)] = stats["by_condim"].get(str(dim), 0) + 1
                if info["impratio"] != 1.0:
                    stats["impratio_ne_1"] += 1
                if dim >= 3 and fr[0] != fr[1]:
                    stats["anisotropic"] += 1
                D = [u.rows[i0 + j][0] for j in range(dim)]
                if sane(mu, *D) and sane(*fr[:dim - 1]):
                    for (j, a, b) in relation_failures(D[0], D[1:], mu, fr):
                        fails.append(("c12:impedance-relation",
                                      "after mj_forward (cone elliptic, impratio %r): contact %d of dim %d, friction %r: row %d has efc_D*mu^2 = %r but "
                                      "efc_D[normal]*friction^2 = %r, i.e. the parameters handed to mj_constraintUpdate_impl do not satisfy "
                                      "the relation under which its bottom-zone and middle-zone formulas join continuously"
                                      % (info["impratio"], u.rows[i0][5], dim, fr[:dim - 1], j, a, b),
                                      {"scene": info, "contact": u.rows[i0][5], "efc_D": D, "mu": mu, "friction": fr,
                                       "replay": "feed `model` + scene.model_lines + `end`, `opt`, `set qpos/qvel`, `fwdq`, `updline 1` to <c11_constraint harness>"}))
                if nblk < 6:
                    nblk += 1
                    stats["fd_blocks"] += 1
                    engine_block_cases(ctx.rng, u, i0, con, fl, plan, info)
    # ---- T: model of mj_makeImpedance vs the real function on the rows of the scenes
    if imp_ops:
        rc_m, om, em = ctx.run_lines([drv], imp_ops)
        if rc_m != 0 or len(om) != len(imp_ops):
            raise common_infra("model driver failed on the imp lines of the scenes: rc=%s %s" % (rc_m, em[-300:]))
        badt = [{"line": a, "model": x, "impl": b, "scene": {k: v for k, v in i.items() if k != "model_lines"}}
                for a, x, b, i in zip(imp_ops, om, imp_obs, imp_info) if x != b]
        for a in imp_ops:
            ctx.count(a)
        if report:
            ctx.oblige("correspondence mj_makeImpedance(m, d) on the constraint rows of generated scenes (efc_R, efc_D, contact.mu) vs Lean "
                       "model on Float (bitwise) (%d calls)" % len(imp_ops), "correspondence", not badt, json_short(badt[:3]))
            if badt:
                ctx.disagreements += [dict(b, stream="mj_makeImpedance on scenes") for b in badt[:20]]
        stats["imp_scene_calls"] = len(imp_ops)
        stats["imp_scene_mismatches"] = len(badt)
    if updlines and report:
        ctx.differential("mj_constraintUpdate_impl on the efc rows of the scenes (jar = J qacc - aref) vs Lean model on Float (bitwise)",
                         [drv], [impl], updlines, keyf=c11.keyf)
    # ---- S: finite differences with the engine's parameters
    if fl:
        rc2, o2, err2 = ctx.run_lines([impl], fl)
        if rc2 != 0 or len(o2) != len(fl):
            fails.append(("c12:crash", "constraint harness crashed on the engine-parameter finite-difference lines", {"stderr": err2[-300:]}))
        else:
            fb, st = fd_oracle(plan, o2)
            stats["fd_engine"] = st
            byline = {pu.line(1): pu.info for (pu, b, e) in plan}
            for key, what, rep in fb:
                inf = byline.get(rep["line"], {})
                fails.append((key, "with the efc_D / contact.mu that mj_forward produced (cone elliptic, impratio %r): %s" % (inf.get("impratio"), what),
                              dict(rep, scene=inf, replay="feed `line` with jar[row] +- h to <c11_constraint harness> and difference the returned "
                                                          "costs; the D / mu in `line` are the engine's own (scene: model_lines, qpos, qvel, options)")))
    return fails, stats


def json_short(x):
    import json
    return json.dumps(x)[:3000]


def common_infra(msg):
    from checks import common
    return common.Infra(msg)


def run(ctx):
    thorough = ctx.tier == "thorough"
    ctx.rule = ("tie: as C11 (seeded independently), plus `imp` lines: mj_makeImpedance on assembled rows (scalar rows, elliptic and "
                "pyramidal blocks of dim 2..6, anisotropic / tiny friction, impratio 1 / != 1 / degenerate (0, negative, below mjMINVAL, "
                "inf, nan), diagA incl. 0 / negative / huge, contacts in shuffled order, malformed ops) and the real mj_makeImpedance(m, d) "
                "re-run on the rows of generated scenes (gen/models.py bodies + explicit floor <pair>s, and bodies resting on the floor "
                "with one <pair> each; cone elliptic x2 / pyramidal, impratio in {1, .25, .5, 3, 10, 100, log-uniform}); "
                "oracle: the relation efc_D[j]*mu^2 = efc_D[0]*friction[j]^2 (1e-9) on every elliptic block of both, and the "
                "finite-difference oracle on single-contact calls that carry the engine's efc_D / mu / friction with residuals on the "
                "bottom / top zone boundary (random and single-axis tangential direction), in the middle and bottom zone and at the "
                "scene's own residual; further, for well-scaled single and multi-block calls with impedance-related cone "
                "parameters, every residual coordinate is perturbed by +-2e-7*scale and +-1e-6*scale around base points in every zone "
                "interior, on both zone boundaries, at the apex, on the cone axis and at the friction-loss / one-sided kinks; the "
                "central difference of the RETURNED cost is compared with the RETURNED force (tolerance 1e-6*max(|f|, D*scale) + "
                "rounding, >= 20x the proven truncation bound D*h/4), the central difference of the returned force with the returned "
                "cone Hessian (middle zone; 1e-6 of the scaled Hessian magnitude), plus convexity / supporting-hyperplane spot checks; "
                "island scenes (3..5 separate trees with friction-loss joints and violated limits, differing armature / solimp, "
                "optionally a free sphere on a floor): after mj_forward the island-ordered copies iefc_type / id / frictionloss / D / R "
                "equal the gather of the global arrays through map_iefc2efc (bitwise), the two maps are inverse permutations, every "
                "island block is [equality | friction | rest] with the island's ne / nf, and iefc_D*iefc_R = 1 (1e-12)")
    ctx.lean_props(THEOREMS)
    drv = ctx.driver("drv_c11")
    impl = ctx.harness("harness/c/c11_constraint.c", "c11_constraint", deps=["harness/mjbuild.h"])
    if not (drv and impl):
        return
    nfail, maxdev, hist_tot, stats_tot = 0, 0.0, {}, {}
    for ch in range(5 if thorough else 1):
        ups, lines, misc, extra, hist = c11.synthetic_lines(ctx, 25000 if thorough else 8000, 0)
        fl, plan = fd_lines(ctx.rng, 6000 if thorough else 2500)
        for k, v in hist.items():
            hist_tot[k] = hist_tot.get(k, 0) + v
        # T: the finite-difference lines are part of the correspondence too (they sit on / next to the boundaries)
        tie_lines = lines + extra + fl[:(40000 if thorough else 12000)]
        bad = ctx.differential("mj_constraintUpdate_impl (cost, force, state, cone Hessian) vs Lean model on Float (bitwise), chunk %d" % ch,
                               [drv], [impl], tie_lines, keyf=c11.keyf)
        maxdev = max([maxdev] + [c11.max_dev(b["model"] or "", b["impl"] or "") for b in bad])
        # S: finite differences on the real function alone
        rc, outs, err = ctx.run_lines([impl], fl)
        if rc == 0 and len(outs) == len(fl):
            fails, stats = fd_oracle(plan, outs)
            for k, v in stats.items():
                stats_tot[k] = max(stats_tot.get(k, 0), v) if k.startswith("max_") else stats_tot.get(k, 0) + v
            for key, what, rep in fails:
                nfail += 1
                if nfail <= 8:
                    rep = dict(rep, replay="feed `line` with jar[row] +- h to <c11_constraint harness> and difference the returned costs")
                    ctx.oracle_failure(key, what, rep)
            if ch == 0:
                u0, b0, e0 = plan[0]
                ctx.sample({"base_op": fl[b0][:200] + " ...", "tags": u0.tags, "output": outs[b0][:200]})
        else:
            ctx.oracle_failure("c12:crash", "constraint harness crashed (rc=%s, %d outputs for %d lines)" % (rc, len(outs), len(fl)), {"stderr": err[-500:]})
    ctx.extra["synthetic_distribution"] = hist_tot
    ctx.extra["max_float_deviation"] = maxdev
    ctx.extra["tolerance"] = "bitwise (0 ulp)"
    ctx.extra["fd_checks"] = stats_tot
    cb, cnt = convexity_oracle(ctx.rng, impl, ctx, 8000 if thorough else 1500)
    ctx.extra["convexity_checks"] = cnt
    for key, what, rep in cb:
        nfail += 1
        if nfail <= 10:
            ctx.oracle_failure(key, what, rep)
    # ---- mj_makeImpedance: T on assembled rows (standard differential), S = impedance relation on the real function's output
    cases = [gen_imp_case(ctx.rng) for _ in range(20000 if thorough else 4000)]
    il = [imp_line(*c[:4]) for c in cases]
    ihist = {}
    for c in cases:
        for t in c[4]:
            ihist[t] = ihist.get(t, 0) + 1
        k = "impratio=1" if c[1] == 1.0 else ("impratio other" if finite(c[1]) and c[1] > 1e-15 else "impratio degenerate")
        ihist[k] = ihist.get(k, 0) + 1
    ctx.extra["makeImpedance_synthetic_distribution"] = ihist
    ctx.differential("mj_makeImpedance (efc_R, efc_D, contact.mu) on assembled rows vs Lean model on Float (bitwise)",
                     [drv], [impl], il + IMP_MALFORMED, keyf=lambda l: l if len(l.split()) > 12 else None)
    rc, io, err = ctx.run_lines([impl], il + IMP_MALFORMED)
    if rc == 0 and len(io) == len(il) + len(IMP_MALFORMED):
        for c, o in zip(cases, io):
            for key, what in imp_oracle(c, o):
                nfail += 1
                if nfail <= 10:
                    ctx.oracle_failure(key, what, {"line": imp_line(*c[:4]), "impl_output": o[:1500], "replay": "echo '<line>' | <c11_constraint harness>"})
        for l, o in zip(IMP_MALFORMED, io[len(il):]):
            if o not in ("bad-op", "oob"):
                ctx.oracle_failure("c12:malformed-accepted", "malformed / out-of-range imp op accepted", {"line": l, "impl_output": o})
        ctx.sample({"op": il[5][:200] + " ...", "tags": cases[5][4], "impl_output": io[5][:200]})
    else:
        ctx.oracle_failure("c12:crash", "constraint harness crashed on the imp lines (rc=%s)" % rc, {"stderr": err[-500:]})
    # ---- engine scenes: mj_makeImpedance(m, d) tied on real rows; relation + boundary finite differences with the engine's parameters
    sf, sstats = run_scenes(ctx, drv, impl, 40 if thorough else 8, 40 if thorough else 8)
    ctx.extra["engine_scene_stats"] = sstats
    seen_keys = {}
    for key, what, rep in sf:
        nfail += 1
        seen_keys[key] = seen_keys.get(key, 0) + 1
        if seen_keys[key] <= 3:
            ctx.oracle_failure(key, what, rep)
    # ---- island-ordered copies of the parameters (what the island solvers hand to mj_constraintUpdate_impl) vs the gather
    isf, istats = run_islands(ctx, impl, 150 if thorough else 40)
    ctx.extra["island_scene_stats"] = istats
    ctx.extra["island_scene_distribution"] = ("3..5 separate trees of 1..2 hinge/slide joints; first joint of the first three trees always "
                                              "frictionloss + violated limit, other joints frictionloss 0.7 / limit 0.7 (violated 0.8); armature 0 or "
                                              "log-uniform [1e-3, 1]; solimp_friction / solimp_limit 0.5; free sphere on a floor 0.5; 2 states; "
                                              "solver / cone / jacobian uniform")
    if istats["forward_calls"] and istats["permutation_not_involution"] == 0:
        ctx.oracle_failure("c12:island-scenes-vacuous", "no island scene produced an efc->iefc permutation that is not an involution", istats)
    for key, what, rep in isf:
        nfail += 1
        seen_keys[key] = seen_keys.get(key, 0) + 1
        if seen_keys[key] <= 3:
            ctx.oracle_failure(key, what, rep)
    ctx.extra["oracle_failures"] = nfail

    def directed(c):
        for rnd in range(2):
            sf3, _ = run_islands(c, impl, 60)
            if sf3:
                return {"key": sf3[0][0], "what": sf3[0][1], "replay": sf3[0][2]}
        for rnd in range(4):
            sf2, _ = run_scenes(c, drv, impl, 10, 20, report=False)
            if sf2:
                return {"key": sf2[0][0], "what": sf2[0][1], "replay": sf2[0][2]}
        for rnd in range(10):
            fl2, plan2 = fd_lines(c.rng, 1500)
            rc2, o2, _ = c.run_lines([impl], fl2)
            if rc2 != 0 or len(o2) != len(fl2):
                return {"key": "c12:crash", "what": "harness crashed in directed search", "replay": {}}
            fails, _ = fd_oracle(plan2, o2)
            if fails:
                return {"key": fails[0][0], "what": fails[0][1], "replay": fails[0][2]}
        return None
    ctx.directed_search = directed
    if thorough:
        ctx.leanchecker(["MjProof.Props.C12"])
