"""Helpers shared by checks/c43.py and checks/c44.py (MJX): model profiles restricted to what MJX's put_model
accepts, a line-protocol process wrapper, the C side (harness/c/engine_repl.c over the tree build)."""
import os
import select
import subprocess
import sys
import time

from . import common
from gen import models
from gen.enums import E

VENV_PY = "/venv/bin/python"

# gen/models.py profile restricted to the feature set of MJX-JAX (read from _put_option / _put_model_jax /
# make_data of the tree): no `implicit` integrator, no PGS, no energy/sleep enable flags, collision pairs that
# have a collision function, condim 1 only with the pyramidal cone (forced below).
MJX_PROFILE = {
    "integrators": ("Euler", "RK4", "implicitfast"),
    "solvers": ("CG", "Newton"),
    "energy": 0.0, "sleep": 0.0,
    "geom_types": ("sphere", "capsule"),
    "nbody": (1, 4),
    "keys": 0.0,
}


def make_model(rng, overrides=None, pre=()):
    prof = dict(MJX_PROFILE)
    prof.update(overrides or {})
    mdl = models.ModelGen(rng, prof).make()
    if mdl.options["cone"] == "elliptic":
        # make_data: 'condim=1 with ConeType.ELLIPTIC not implemented'
        mdl.lines = [l.replace(" condim 1", " condim 3") if (" condim 1" in l and l.endswith(" condim 1")) else l for l in mdl.lines]
    mdl.lines = list(pre) + mdl.lines
    return mdl


def one_line(lines):
    return " | ".join(lines)


class Proc:
    """a child speaking one line in / one line out"""

    def __init__(self, cmd, env=None, timeout=600):
        e = dict(os.environ)
        e.update(env or {})
        # stderr goes to a file: an undrained pipe fills up after ~64 KB of warnings and blocks the child for good
        import tempfile
        os.makedirs(os.path.join(common.VERIF, ".cache", "logs"), exist_ok=True)
        self.errf = tempfile.NamedTemporaryFile("w+", dir=os.path.join(common.VERIF, ".cache", "logs"), prefix="proc_", suffix=".err",
                                                delete=True)
        self.p = subprocess.Popen(cmd, stdin=subprocess.PIPE, stdout=subprocess.PIPE, stderr=self.errf, text=True, env=e)
        self.timeout = timeout
        self.cmd = cmd
        self.log = []

    def ask(self, line, timeout=None):
        if self.p.poll() is not None:
            return None
        try:
            self.p.stdin.write(line + "\n")
            self.p.stdin.flush()
        except BrokenPipeError:
            return None
        r, _, _ = select.select([self.p.stdout], [], [], timeout or self.timeout)
        if not r:
            self.p.kill()
            return None
        out = self.p.stdout.readline()
        if not out:
            return None
        return out.rstrip("\n")

    def raw(self, text):
        """send lines that produce no output of their own (a model description)"""
        self.p.stdin.write(text)
        self.p.stdin.flush()

    def close(self):
        err = ""
        try:
            self.p.stdin.close()
        except Exception:
            pass
        try:
            self.p.wait(timeout=20)
        except subprocess.TimeoutExpired:
            self.p.kill()
        try:
            self.errf.seek(0)
            err = self.errf.read()[-20000:]
            self.errf.close()
        except Exception:
            pass
        return self.p.returncode, err


def mjx_env():
    return {"VERIF_REPO": common.REPO, "JAX_ENABLE_X64": "1", "JAX_PLATFORMS": "cpu", "PYTHONPATH": "",
            "XLA_FLAGS": "--xla_cpu_multi_thread_eigen=false", "OMP_NUM_THREADS": "2"}


def start_mjx(script):
    return Proc([VENV_PY, os.path.join(common.VERIF, script)], env=mjx_env(), timeout=900)


class CEngine:
    """harness/c/engine_repl.c over the tree build"""

    def __init__(self, ctx):
        exe = ctx.harness("harness/c/engine_repl.c", "engine_repl", deps=["harness/mjbuild.h"])
        self.exe = exe
        self.proc = Proc([exe], timeout=120) if exe else None

    def model(self, lines):
        """-> dict of sizes or ('error', msg)"""
        self.proc.raw("model\n")
        out = self.proc.ask("\n".join(lines) + "\nend")
        if out is None:
            return None
        if not out.startswith("ok"):
            return ("error", out)
        w = out.split()
        sizes = {w[i]: int(w[i + 1]) for i in range(1, len(w) - 1, 2)}
        return sizes

    def ask(self, line):
        return self.proc.ask(line)

    def nums(self, line):
        """'num k field' -> list of floats"""
        o = self.proc.ask(line)
        if o is None or ":" not in o:
            return None
        return [float(x) for x in o.split(":", 1)[1].split()]

    def field_len(self, k, field):
        o = self.proc.ask("num %d %s" % (k, field))
        if o is None or ":" not in o:
            return None
        return int(o.split(":", 1)[0])

    def close(self):
        if self.proc:
            return self.proc.close()


class Pin:
    """While a check runs against a scratch worktree (VERIF_REPO != /repo) it pins the generated Lean files of its own
    translators, so that translate/regen_all.py runs of concurrent checks (which regenerate them from /repo) leave them alone;
    on exit the pin is removed and the files are regenerated from /repo."""

    def __init__(self, names):
        self.names = names            # translator script base names, e.g. "c44_tables"
        self.foreign = os.path.realpath(common.REPO) != "/repo"

    def __enter__(self):
        if self.foreign:
            os.makedirs(common.CACHE, exist_ok=True)
            os.environ["VERIF_PIN_OWNER"] = str(os.getpid())
            for n in self.names:
                with open(os.path.join(common.CACHE, n + ".pin"), "w") as f:
                    f.write(str(os.getpid()))
        return self

    def __exit__(self, *a):
        if self.foreign:
            for n in self.names:
                try:
                    os.remove(os.path.join(common.CACHE, n + ".pin"))
                except OSError:
                    pass
            os.environ.pop("VERIF_PIN_OWNER", None)
            env = dict(os.environ)
            env.pop("VERIF_REPO", None)
            for n in self.names:
                subprocess.run([sys.executable, os.path.join(common.VERIF, "translate", n + ".py")], capture_output=True, text=True, env=env)
