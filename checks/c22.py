"""C22  Sorting and selection utilities are correct and stable (DESIGN.md §5.C22)."""
import itertools

# this check never reads lean/MjProof/Gen: no generated-code lock needed
USES_GEN = False

META = {
    "technique": "Lean 4 proof (induction: stable-sort invariant over runs and merge passes) + exact differential correspondence with the compiled macros",
    "text": "mjSORT / insertion sort: proved for every length and every total-preorder comparator that the model returns a sorted permutation preserving every ordered subsequence (stability); mjPARTIAL_SORT (heapify, scan, final insertion sort, modelled at heap-operation level): proved for every n and every 1 <= k <= n that the first k outputs are the k smallest elements in sorted order and the tail is untouched (heap invariant by induction, sift-down fuel shown sufficient). The model is hand-written; the tie is a differential run of the unmodified macros of engine_sort.h against the compiled Lean model (exhaustive small scope + seeded random around run boundaries).",
    "note": "model abstracts the ping-pong buffers to lists of runs (index arithmetic covered by the correspondence only).",
}

THEOREMS = [
    "MjProof.C22.mjSort_perm",
    "MjProof.C22.mjSort_stableSorted",
    "MjProof.C22.mjSort_sorted",
    "MjProof.C22.mjSort_stable_pair",
    "MjProof.C22.insertionSort_stableSorted",
    "MjProof.C22.insertionSortInt_sorted",
    "MjProof.C22.partialSort_k_smallest",
    "MjProof.C22.partialSort_noop",
    "MjProof.C22.cmpKey_totalPreorder",
    "MjProof.C22.cmpKey_heapCmp",
]

BOUNDARY = [0, 1, 2, 3, 31, 32, 33, 34, 63, 64, 65, 66, 95, 96, 97, 127, 128, 129, 130, 191, 192, 193, 255, 256, 257]


def gen_lines(ctx):
    rng = ctx.rng
    thorough = ctx.tier == "thorough"
    lines = []
    maxlen = 9 if thorough else 7
    # exhaustive small scope over 3 keys
    for n in range(maxlen + 1):
        for ks in itertools.product((0, 1, 2), repeat=n):
            s = " ".join(map(str, ks))
            lines.append(("sort " + s).strip())
            if n <= 6:
                lines.append(("isort " + s).strip())
                for k in range(-1, n + 2):
                    lines.append(("psort %d %s" % (k, s)).strip())
    ctx.extra["exhaustive_small_scope"] = "all arrays of length <= %d over keys {0,1,2}" % maxlen
    # random arrays around run-size boundaries
    nrand = 40000 if thorough else 1500
    maxn = 5000 if thorough else 300
    hist = {}
    for i in range(nrand):
        r = rng.random()
        if r < 0.5:
            n = max(0, rng.choice(BOUNDARY) + rng.choice((-1, 0, 0, 1)))
        elif r < 0.9:
            n = rng.randint(0, maxn)
        else:
            n = rng.randint(0, 40)
        kd = rng.choice((1, 2, 3, 5, 17, 1000, 1 << 30))
        style = rng.choice(("rand", "rand", "asc", "desc", "saw", "fewdistinct"))
        if style == "rand":
            ks = [rng.randint(-kd, kd) for _ in range(n)]
        elif style == "asc":
            ks = sorted(rng.randint(-kd, kd) for _ in range(n))
        elif style == "desc":
            ks = sorted((rng.randint(-kd, kd) for _ in range(n)), reverse=True)
        elif style == "saw":
            p = rng.randint(1, 40)
            ks = [(j % p) for j in range(n)]
        else:
            ks = [rng.choice((0, 1)) for _ in range(n)]
        s = " ".join(map(str, ks))
        op = rng.choice(("sort", "sort", "psort", "isort"))
        if op == "psort":
            k = rng.choice((0, 1, 2, n // 2, n - 1, n, n + 1, rng.randint(0, n + 1)))
            lines.append(("psort %d %s" % (k, s)).strip())
        else:
            lines.append((op + " " + s).strip())
        b = "n<=32" if n <= 32 else "n<=64" if n <= 64 else "n<=128" if n <= 128 else "n<=512" if n <= 512 else "n>512"
        hist[op + ":" + b] = hist.get(op + ":" + b, 0) + 1
    ctx.extra["random_distribution"] = hist
    lines.append("frob 1 2")  # malformed op: both sides must reject
    return lines


def oracle(line, out):
    """Property oracle on the implementation's output alone. Returns None or a description."""
    w = line.split()
    if not w or w[0] not in ("sort", "isort", "psort"):
        return None if out == "bad-op" else "malformed op accepted"
    try:
        res = [int(x) for x in out.split()]
    except ValueError:
        return "non-numeric output: " + out[:80]
    if w[0] == "isort":
        ks = [int(x) for x in w[1:]]
        return None if res == sorted(ks) else "mju_insertionSortInt output is not the sorted input"
    if w[0] == "sort":
        ks = [int(x) for x in w[1:]]
        if sorted(res) != list(range(len(ks))):
            return "mjSORT output is not a permutation of the input"
        keyed = [(ks[t], t) for t in res]
        if keyed != sorted(keyed):
            return "mjSORT output is not sorted or not stable"
        return None
    k = int(w[1])
    ks = [int(x) for x in w[2:]]
    n = len(ks)
    if len(res) != n:
        return "mjPARTIAL_SORT changed the array length"
    if k <= 0 or n < k:
        return None if res == list(range(n)) else "mjPARTIAL_SORT modified the array for k out of range"
    firstk = [ks[t] for t in res[:k]]
    if len(set(res[:k])) != k or any(t < 0 or t >= n for t in res[:k]):
        return "mjPARTIAL_SORT: first k entries are not distinct input elements"
    if firstk != sorted(ks)[:k]:
        return "mjPARTIAL_SORT: first k entries are not the k smallest in sorted order"
    return None


def keyf(line):
    return line if len(line.split()) >= 3 else None


def run(ctx):
    ctx.rule = ("op lines (sort/isort/psort over (key,tag) records): exhaustive arrays over 3 keys up to a small "
                "length plus seeded random arrays concentrated at the 32/64/128/256 run boundaries; a case is "
                "distinct by its full line; non-trivial = length >= 2")
    ctx.lean_props(THEOREMS)
    drv = ctx.driver("drv_c22")
    impl = ctx.harness("harness/c/c22_sort.c", "c22_sort")
    lines = gen_lines(ctx)
    if drv and impl:
        # canonical outputs are integer tag sequences: compared exactly
        rc, outs, err = ctx.run_lines([impl], lines)
        bad = ctx.differential("mjSORT/mjPARTIAL_SORT/insertionSortInt vs Lean model", [drv], [impl], lines, keyf=keyf)
        # S: oracle on the implementation's own output
        nfail = 0
        if rc == 0 and len(outs) == len(lines):
            for l, o in zip(lines, outs):
                why = oracle(l, o)
                if why:
                    nfail += 1
                    if nfail <= 5:
                        ctx.oracle_failure("c22:" + why, why, {"line": l, "impl_output": o,
                                                              "replay": "echo '%s' | <c22_sort harness>" % l[:2000]})
        else:
            ctx.oracle_failure("c22:crash", "sort harness crashed (rc=%s)" % rc, {"stderr": err[-500:]})
        ctx.extra["oracle_checked"] = len(lines)
        ctx.extra["oracle_failures"] = nfail
        ctx.sample({"op": lines[200], "model_and_impl_output": outs[200] if len(outs) > 200 else None})
        ctx.sample({"op": lines[-2][:200] + " ...", "len": len(lines[-2].split()) - 1})
    if ctx.tier == "thorough":
        ctx.leanchecker(["MjProof.Props.C22"])
