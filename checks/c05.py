"""C05  Time integration follows the documented schemes (DESIGN.md §5.C05).

P  lean/MjProof/Props/C05.lean: theorems over the reals about the hand model lean/MjProof/Model/Integrate.lean
   (mj_integratePosInd, mj_nextActivation, the activation / velocity / position / time update of mj_advance,
   mj_RungeKutta) built on the *generated* kernels (mju_quatIntegrate, mju_clip, ...) and the *generated* tableau
   lean/MjProof/Gen/RK4.lean; theorems about WHICH force-velocity derivatives enter the D of the (M - h D) solve, over an
   interpreter of the *generated* top-level statement lists of mjd_smooth_vel / mjd_actuator_vel / mjd_passive_vel /
   mj_passive / mj_fluid (lean/MjProof/Gen/C05DTerms.lean).
T  (a) translators: translate/c2lean.py (kernels, bitwise translation validation), translate/c05_rk4.py
       (RK4_A / RK4_B and the use-shape of mj_RungeKutta) and translate/c05_dterms.py (early returns on the spring /
       damper / actuation disable flags between the term blocks of the derivative and passive-force functions, flg_bias
       of mj_implicitSkip), re-run on every check;
   (b) direct differential: the same op lines go to drv_c05 (Lean model on Float) and to harness/c/c05_integrate.c
       (the real mj_integratePos / mj_nextActivation / mju_quatIntegrate / mju_clip / RK4_A,B), compared bitwise;
   (c) update-rule differential on the real engine: mj_step is run on generated models under all four integrators;
       the harness records (by ELF symbol interposition, no engine code is modified) the engine's own pre-step
       state, qacc / act_dot, the acceleration vector really added to qvel, the velocity really used for the
       position update and every RK4 stage state / derivative; the Lean model is fed exactly those and must
       reproduce the engine's post-step state (and RK4 stage states) BITWISE;
   (d) term-gating differential: 336 single-term probe scenes (7 force terms x 16 combinations of the spring / damper /
       actuation / eulerdamp disable flags x Euler / implicit / implicitfast, exhaustive) are stepped on the real engine;
       "the term's force is applied" (finite differences of its own force array) and "its derivative is in D" (the vector
       added to qvel differs from qacc) are measured and must equal the Lean model's answer (op DT).
S  property oracle on the engine's trace alone (no Lean involved): unit quaternions, time' = time + h, act within
   actrange, qvel' = qvel + h*acc, explicit Euler uses qacc itself, positions use the NEW velocity, classical RK4
   combination, activation dynamics, residual of the (M - hD) solve of the implicit integrators, and D itself: the dense
   qDeriv that mj_step left behind (and the 6x6 blocks of mjd_freeMhat) against central differences of the engine's own
   smooth forces w.r.t. qvel taken at the pre-step state under the CURRENT option flags (op stepd), on generated models
   with fluid media (inertia-box / ellipsoid, wind), polynomial joint / tendon damping and the spring / damper /
   actuation / gravity disable flags.
"""
import json
import math
import os
import struct

from checks import common, kernelval
from gen.enums import E
from gen.models import ModelGen, unit_quat, unit_vec

META = {
    "technique": "hand-written executable Lean model of mj_advance / mj_integratePosInd / mj_nextActivation / mj_RungeKutta over the law-free number class MjNum, built on c2lean-generated kernels (mju_quatIntegrate, mju_clip, mju_max, mj_lugreStribeck, regenerated each run) and a translator-generated RK4 tableau (translate/c05_rk4.py parses the C initialisers and checks the use-shape of mj_RungeKutta); Lean 4 proofs over the reals (unfolding, branch case splits, ring/field_simp/norm_num, list induction); bitwise differential of the Float instance against the real functions and against mj_step traces taken by ELF symbol interposition; term completeness of the implicit solve's D: translator translate/c05_dterms.py turns the top-level control flow (early returns on the spring / damper / actuation disable flags between the term blocks) of mjd_smooth_vel, mjd_actuator_vel, mjd_passive_vel, mj_passive, mj_fluid and the flg_bias constants of mj_implicitSkip into Lean data, a Lean interpreter of these lists is proved complete for all flag combinations (case analysis + decide) and compared with the real engine on an exhaustive family of single-term probe scenes; property oracle on the traces incl. qDeriv vs central differences of the engine's own forces",
    "text": "Proved over the reals for the model (all inputs): the advance step is the documented semi-implicit rule (velocity first: v' = v + h a; then positions on the joint manifold with the NEW velocity; time' = time + h), per joint type (slide/hinge x + h v, free translation p + h v, quaternion q * exp(h w / 2) for unit q in both branches of the mjMINVAL guard of mju_normalize3 and of the angle == 0 test); the generated mju_quatIntegrate returns a quaternion with | |q'| - 1 | <= mjMINVAL for EVERY input (exactly unit whenever mju_normalize4 resets or divides) and mj_integratePos keeps / produces such quaternions in every free and ball slot of qpos of any layout while leaving the result length equal to nq; the generated RK4 tableau is the classical one and satisfies all eight order-4 conditions with C = row sums; the modelled mj_RungeKutta stage and final combinations equal the classical weighted sums componentwise (stage times t + c_i h, final time t + h); mj_nextActivation stays inside actrange for every dyntype except mjDYN_DCMOTOR when actlimited (and the DC-motor integral slot inside +-Imax), is the Euler step otherwise and the documented exact filter formula for filterexact; given a certificate (M - hD) x = M a the implicit velocity update v + h x satisfies the documented linear system and equals v + h (M - hD)^-1 M a when the matrix is invertible; for EVERY combination of the spring / damper / actuation / eulerdamp disable flags the D of implicit contains the velocity derivative of a smooth force term (joint damper, tendon damper, fluid inertia-box, fluid ellipsoid, actuator, Coriolis / gyroscopic bias) exactly when the forward pass applies that term, implicitfast the same except the documented Coriolis exclusion for chains, Euler only the applied joint damping unless eulerdamp is disabled, and no integrator differentiates a force that is not applied (about the interpreter of the generated statement lists); if the force is affine in the velocity with slope D and the solve used D', the new velocity misses the backward-Euler equation M (v' - v) = h f(v') by exactly h^2 (D' - D) x, so with D' = D it solves it. Tied to /repo on every run by translation (kernels, tableau), bitwise direct differential (mj_integratePos, mj_nextActivation incl. every DC-motor slot, mju_quatIntegrate, mju_clip, RK4_A/B) and the bitwise update-rule differential on mj_step under Euler / RK4 / implicit / implicitfast.",
    "note": "Stated over the reals (rounding outside the proofs; the Float instance of the same definitions is compared bitwise with the engine). Not modelled: history buffers, sleeping (mj_sleep and the awake-index variants; sleep is never enabled in the sampled models), plugins, qacc_warmstart, flex-CG. The linear solve inside Euler-with-damping / implicit / implicitfast is NOT modelled: theorem implicit_update_partial takes the solution as a certified input, and the oracle checks the residual of the engine's own solution against a dense (M - hD) assembled from the engine's M and qDeriv, and qDeriv itself (all of D on its sparsity pattern, under the option flags of the step) against central differences of the engine's own qfrc_passive + qfrc_actuator (- qfrc_bias) within 1e-4 relative (observed <= 1e-3 of the allowance on states outside the two known-deviation regimes); the numerical content of the individual derivative routines stays C25's concern: states where the mjMINVAL guard of mjd_viscous_drag is active (C25 finding c25:qderiv:passive:ellipsoid-drag-minval-guard) are not judged on a mismatch, and a mismatch that disappears when mjd_smooth_vel is re-evaluated with d->ctrl clamped to ctrlrange is reported as finding c05:implicit-D:actuator-ctrl-outside-ctrlrange (same root cause as c25:qderiv:actuator:ctrl-outside-ctrlrange / c27:ctrl-not-clamped:implicit-derivative). In the term model the value-level gating inside mj_springdamper (enbl_damper) and mj_fwdActuation, the damping test of mj_EulerSkip and the free-body re-solve of implicitfast are hand-written (tied by the probe differential only); flex and plugin / callback passive forces are not modelled or sampled. The re-anchoring of integrator setpoints on rotational transmissions (wrapPeriod / wrapSetpoint / SO3) is modelled as coded and compared bitwise, but it is applied AFTER the actrange clamp, so the final act of such an actuator can leave actrange: this is reported as a finding (key c05:act-outside-actrange:wrap-after-clamp), the theorem nextActivation_in_actrange is about mj_nextActivation and advanceAct_in_actrange needs wrap period 0. The flat qpos/qvel/act arrays are modelled as the concatenation of per-joint / per-actuator blocks (layout checked on every sampled model, index arithmetic covered by the correspondence only).",
}

P = "MjProof.C05."
THEOREMS = [P + t for t in (
    "euler_update_def", "advance_time", "advance_qvel_getElem", "integratePos_scalar_def", "integratePos_free_def",
    "integrateQuat_exp", "integrateQuat_exp_small",
    "quatIntegrate_unit", "quatIntegrate_unit_exact", "integratePos_free_unit", "integratePos_ball_unit",
    "integratePos_quats_unit", "integratePos_length",
    "rk4_tableau_classical", "rk4_order_conditions", "rk4_row_sums",
    "rk4_combine_def", "rk4_stage_def", "rk4_time",
    "nextActivation_in_actrange", "nextActivation_dcIntegral_bounded", "nextActivation_euler_def",
    "nextActivation_filterexact_def", "advanceAct_in_actrange", "wrap_after_clamp_escapes",
    "nextActivation_filterexact_otherSlot",
    "time_advance", "implicit_update_partial", "implicit_update_inverse",
    "implicit_D_complete", "implicitfast_D_complete", "euler_rk4_D_def", "D_only_of_applied_forces",
    "implicit_update_backward_euler_residual", "implicit_update_solves_backward_euler",
)]

KERNELS = ["mju_clip", "mju_max", "mju_min", "mj_lugreStribeck", "mju_quatIntegrate", "mju_normalize3", "mju_normalize4",
           "mju_axisAngle2Quat", "mju_mulQuat", "mju_norm3"]

MINVAL = 1e-15
QTOL = 1e-12        # unit-norm tolerance of the oracle (observed deviations are <= 4e-16)
RTOL = 1e-12        # relative tolerance of the Python re-computations (observed <= ~3e-16 of the scale)
CERT_TOL = 1e-9     # residual of the implicit solve relative to |Mhat| |x| + |rhs| (observed <= ~1e-13, see evidence)
# D of the implicit solve vs central differences (eps 1e-6) of the engine's own smooth forces: allowed deviation
# D_TOL_REL * max(|D|, |FD|) + D_TOL_FRC * max|force| + D_TOL_ABS   (calibration: see evidence, oracle_max_deviation_over_allowed)
D_TOL_REL, D_TOL_FRC, D_TOL_ABS = 1e-4, 1e-7, 3e-5
KEY_D = "c05:implicit-D-is-not-the-force-velocity-derivative"
KEY_D_CTRL = "c05:implicit-D:actuator-ctrl-outside-ctrlrange"
KEY_D_FREE = "c05:implicit-D:free-body-block"

fbits = kernelval.fbits
frombits = kernelval.frombits


# ------------------------------------------------------------------------------------------ record parsing
def parse_groups(line):
    """'tag key n v.. key n v..' -> (tag, {key: [tokens]})"""
    t = line.split()
    if not t:
        return None, {}
    tag, i, g = t[0], 1, {}
    while i + 1 < len(t):
        key = t[i]
        try:
            n = int(t[i + 1])
        except ValueError:
            return tag, None
        g[key] = t[i + 2:i + 2 + n]
        if len(g[key]) != n:
            return tag, None
        i += 2 + n
    return tag, g


def F(g, key):
    return [frombits(x) for x in g[key]]


def I(g, key):
    return [int(x) for x in g[key]]


def grp(key, toks):
    return "%s %d%s" % (key, len(toks), (" " + " ".join(toks)) if toks else "")


NQ = {0: 7, 1: 4, 2: 1, 3: 1}
NV = {0: 6, 1: 3, 2: 1, 3: 1}


class Info:
    def __init__(self, g):
        self.g = g
        self.h = F(g, "h")[0]
        (self.integrator, self.disableflags, self.enableflags, self.disableactuator, self.nq, self.nv, self.na,
         self.nout) = I(g, "opt")
        self.nbody, self.njnt, self.nactuator, self.nhistory, self.nplugin, self.nflex = I(g, "sizes")
        self.jtype, self.jpadr, self.jvadr = I(g, "jtype"), I(g, "jpadr"), I(g, "jvadr")
        self.dyntype, self.gaintype, self.actadr, self.actnum = I(g, "dyntype"), I(g, "gaintype"), I(g, "actadr"), I(g, "actnum")
        self.trntype, self.trnjtype, self.trnid, self.outadr = I(g, "trntype"), I(g, "trnjtype"), I(g, "trnid"), I(g, "outadr")
        self.actlimited, self.disabled = I(g, "actlimited"), I(g, "disabled")
        self.actrange, self.dynprm = F(g, "actrange"), F(g, "dynprm")

    def layout_ok(self):
        q = v = 0
        if len(self.jtype) != self.njnt:
            return False
        for t, p, w in zip(self.jtype, self.jpadr, self.jvadr):
            if t not in NQ or p != q or w != v:
                return False
            q += NQ[t]
            v += NV[t]
        if q != self.nq or v != self.nv:
            return False
        a = 0
        for adr, num in zip(self.actadr, self.actnum):
            if num == 0:
                if adr != -1:
                    return False
            else:
                if adr != a:
                    return False
                a += num
        return a == self.na

    def actuation_disabled(self):
        return 1 if (self.disableflags & E("mjDSBL_ACTUATION")) else 0

    def may_wrap(self, i):
        """actuator i can have a non-zero wrap period or the SO3 re-anchoring (integrator setpoints only)"""
        if self.dyntype[i] != E("mjDYN_INTEGRATOR"):
            return False
        if self.gaintype[i] == E("mjGAIN_SO3"):
            return True
        if self.trnjtype[i] == E("mjJNT_BALL"):
            return True
        return self.trntype[i] == E("mjTRN_SITE") and self.trnid[2 * i + 1] >= 0

    def passthrough(self):
        g = self.g
        keys = ("dyntype", "gaintype", "biastype", "trntype", "actnum", "actlimited", "disabled", "trnid", "trnjtype", "outadr",
                "actrange", "dynprm", "gainprm", "biasprm", "gear")
        return " ".join([grp("h", g["h"]), grp("jtype", g["jtype"]), grp("actuation_disabled", [str(self.actuation_disabled())])] +
                        [grp(k, g[k]) for k in keys])


# ------------------------------------------------------------------------------------------ model generation
INTEGRATORS = ("Euler", "RK4", "implicit", "implicitfast")


def extra_actuators(gen, mdl, rng, stats):
    """actuators with every Euler-type dynamics, limited and unlimited, plus integrated-velocity servos on ball joints
    (rotational transmission: the setpoint is re-anchored on the circle after the clamp)"""
    L = mdl.lines.append
    scal = [j for j in mdl.joints if j["type"] in ("hinge", "slide")]
    balls = [j for j in mdl.joints if j["type"] == "ball"]
    n = rng.randint(0, 3)
    for _ in range(n):
        if not scal and not balls:
            break
        kind = rng.choice(("integrator", "filter", "filterexact", "muscle_dyn", "intvel_ball", "position_ball"))
        gen.h += 1
        ah = gen.h
        an = "x%d" % (len(mdl.actuators) + 1)
        na = 1
        if kind in ("intvel_ball", "position_ball"):
            if not balls:
                gen.h -= 1
                continue
            j = rng.choice(balls)
            L("actuator %d" % ah)
            L("name %d %s" % (ah, an))
            L("set %d trntype %d" % (ah, E("mjTRN_JOINT")))
            L("set %d target %s" % (ah, j["name"]))
            gear = [x * rng.choice((1.0, 1.0, 0.5, 2.0)) for x in unit_vec(rng)]
            L("set %d gear %s" % (ah, " ".join(repr(x) for x in gear)))
            kp = rng.uniform(1, 20)
            L("set %d gainprm %r" % (ah, kp))
            L("set %d biastype %d" % (ah, E("mjBIAS_AFFINE")))
            L("set %d biasprm 0 %r %r" % (ah, -kp, -rng.uniform(0, 1)))
            if kind == "intvel_ball":
                L("set %d dyntype %d" % (ah, E("mjDYN_INTEGRATOR")))
                if rng.random() < 0.5:
                    L("set %d actlimited %d" % (ah, E("mjLIMITED_TRUE")))
                    L("set %d actrange -1 1" % ah)
            else:
                na = 0
        else:
            if not scal:
                gen.h -= 1
                continue
            j = rng.choice(scal)
            L("actuator %d" % ah)
            L("name %d %s" % (ah, an))
            L("set %d trntype %d" % (ah, E("mjTRN_JOINT")))
            L("set %d target %s" % (ah, j["name"]))
            L("set %d gear %r" % (ah, rng.choice((1.0, -1.5, 0.3))))
            dt = {"integrator": "INTEGRATOR", "filter": "FILTER", "filterexact": "FILTEREXACT", "muscle_dyn": "MUSCLE"}[kind]
            L("set %d dyntype %d" % (ah, E("mjDYN_" + dt)))
            if kind == "muscle_dyn":
                L("set %d dynprm %r %r %r" % (ah, rng.uniform(0.005, 0.05), rng.uniform(0.02, 0.1), rng.choice((0.0, 0.5))))
            else:
                # tau from far below the time step (Euler filter unstable, exact filter saturates) to far above
                L("set %d dynprm %r" % (ah, rng.choice((1e-4, 1e-3, 0.01, 0.1, 1.0, 0.0, rng.uniform(0.001, 0.5)))))
            L("set %d gainprm %r" % (ah, rng.uniform(0.2, 2)))
            if rng.random() < 0.7:
                lo = rng.uniform(-1.0, 0.2)
                L("set %d actlimited %d" % (ah, E("mjLIMITED_TRUE")))
                L("set %d actrange %r %r" % (ah, lo, lo + rng.uniform(0.05, 1.0)))
        if rng.random() < 0.25:
            L("set %d group %d" % (ah, rng.randint(0, 3)))
        mdl.actuators.append({"name": an, "kind": "c05_" + kind, "joint": j["name"], "na": na})
        mdl.nu += 1
        mdl.na += na
        stats[kind] = stats.get(kind, 0) + 1


def velocity_forces(mdl, rng, stats):
    """velocity-dependent smooth forces beyond linear joint damping: polynomial joint / tendon damping, a fluid medium
    (inertia-box model, ellipsoid model on some geoms, wind); their derivatives must all be in the D of the implicit solve"""
    L = mdl.lines.append
    kinds, handle = {}, {}
    for ln in list(mdl.lines):
        w = ln.split()
        if w[0] in ("tendon", "geom"):
            kinds[w[1]] = w[0]
        if w[0] == "name" and w[1] in kinds:
            handle[w[2]] = (int(w[1]), kinds[w[1]])

    def note(k):
        stats[k] = stats.get(k, 0) + 1
    for j in mdl.joints:
        if j["type"] != "free" and rng.random() < 0.3:
            L("set %d damping %r %r %r" % (j["handle"], rng.uniform(0.05, 2), rng.uniform(0, 1.5), rng.uniform(0, 1.0)))
            note("feature:joint-polydamping")
    for nm, (hh, kd) in sorted(handle.items()):
        if kd == "tendon" and rng.random() < 0.6:
            L("set %d damping %r %r %r" % (hh, rng.uniform(0.05, 1), rng.choice((0.0, rng.uniform(0, 1.0))), rng.choice((0.0, rng.uniform(0, 0.5)))))
            note("feature:tendon-damping")
    if rng.random() < 0.45:
        L("option density %r" % rng.choice((0.0, 1.2, 50.0, 1000.0)))
        L("option viscosity %r" % rng.choice((0.0, 0.00002, 0.1, 2.0)))
        if rng.random() < 0.5:
            L("option wind %r %r %r" % tuple(rng.gauss(0, 1) for _ in range(3)))
        note("feature:fluid")
        for nm, (hh, kd) in sorted(handle.items()):
            if kd == "geom" and nm != "floor" and rng.random() < 0.35:
                L("set %d fluid_ellipsoid 1" % hh)
                L("set %d fluid_coefs 0.5 0.25 1.5 1.0 1.0" % hh)
                note("feature:fluid-ellipsoid-geom")


def make_model(rng, integ, stats):
    prof = {"integrators": (integ,), "free": 0.5, "ball": 0.3, "damping": 0.5, "no_eulerdamp": 0.3, "actuators": (0, 3),
            "nbody": (1, 5), "sleep": 0.0, "keys": 0.0, "sensors": (0, 1), "cameras": 0.0}
    gen = ModelGen(rng, prof)
    mdl = gen.make()
    extra_actuators(gen, mdl, rng, stats)
    velocity_forces(mdl, rng, stats)
    return mdl


def ctrl_ranges(mdl):
    """ctrlrange of the k-th actuator of the description (None when not limited)"""
    rg, lim, order = {}, set(), []
    for ln in mdl.lines:
        w = ln.split()
        if w[0] == "actuator":
            order.append(int(w[1]))
        elif w[0] == "set" and len(w) > 4 and w[2] == "ctrlrange":
            rg[int(w[1])] = (float(w[3]), float(w[4]))
        elif w[0] == "set" and len(w) > 3 and w[2] == "ctrllimited" and int(w[3]) == E("mjLIMITED_TRUE"):
            lim.add(int(w[1]))
    return [rg.get(h) if h in lim else None for h in order]


def state_lines(mdl, rng, stats):
    st = mdl.random_state(rng)
    qpos = list(st["qpos"])
    # non-unit quaternions in some states: the integration step itself must bring them back to unit norm
    if rng.random() < 0.35:
        for j in mdl.joints:
            if j["type"] in ("free", "ball"):
                a = j["qposadr"] + (3 if j["type"] == "free" else 0)
                s = rng.choice((0.5, 2.0, 1.0 + 1e-9, 1.0 - 3e-16, 1.0 + 1e-12, rng.uniform(0.3, 3)))
                for k in range(4):
                    qpos[a + k] *= s
        stats["nonunit_quat_states"] = stats.get("nonunit_quat_states", 0) + 1
    act = [rng.uniform(-2.0, 2.0) for _ in range(mdl.na)]
    ctrl = [rng.choice((1, -1)) * rng.choice((0.3, 1.5, 20.0, 200.0)) * rng.random() for _ in range(mdl.nu)]
    if rng.random() < 0.5:
        # half of the states keep limited controls inside their ctrlrange (the other half leaves them far outside on purpose)
        for k, r in enumerate(ctrl_ranges(mdl)[:len(ctrl)]):
            if r is not None:
                ctrl[k] = r[0] + (r[1] - r[0]) * rng.uniform(0.05, 0.95)
        stats["ctrl_inside_ctrlrange_states"] = stats.get("ctrl_inside_ctrlrange_states", 0) + 1
    qvel = st["qvel"]
    if rng.random() < 0.2:
        qvel = [v * 10 for v in qvel]
    out = ["set time %r" % rng.choice((0.0, rng.uniform(0, 10), 1e6 * rng.random()))]
    for k, v in (("qpos", qpos), ("qvel", qvel), ("act", act), ("ctrl", ctrl), ("qfrc_applied", st["qfrc_applied"]),
                 ("xfrc_applied", st["xfrc_applied"]), ("mocap_pos", st["mocap_pos"]), ("mocap_quat", st["mocap_quat"])):
        out.append("set %s %s" % (k, " ".join(repr(float(x)) for x in v)) if v else "set %s" % k)
    return out


def wrap_probe_lines():
    """directed scenario: integrated-velocity servo with actrange on a ball joint (purely rotational transmission)"""
    L = ["option timestep 0.002", "option integrator %d" % E("mjINT_EULER"),
         "body 1 0", "name 1 b1", "set 1 pos 0 0 1",
         "joint 2 1", "name 2 j1", "set 2 type %d" % E("mjJNT_BALL"),
         "geom 3 1", "set 3 type %d" % E("mjGEOM_SPHERE"), "set 3 size 0.1",
         "actuator 4", "name 4 a1", "set 4 trntype %d" % E("mjTRN_JOINT"), "set 4 target j1", "set 4 gear 1 0 0",
         "set 4 dyntype %d" % E("mjDYN_INTEGRATOR"), "set 4 gainprm 10", "set 4 biastype %d" % E("mjBIAS_AFFINE"),
         "set 4 biasprm 0 -10 0", "set 4 actlimited %d" % E("mjLIMITED_TRUE"), "set 4 actrange -1 1"]
    a = -3.0
    q = [math.cos(a / 2), math.sin(a / 2), 0.0, 0.0]
    return {"model": L, "setopt": [], "states": [{"set": ["set qpos " + " ".join(map(repr, q)), "set act 0.99", "set ctrl 5"],
                                                  "nsteps": 2}], "label": "wrap-probe"}



# ------------------------------------------------------------------------------------------ single-term probe scenes
TERMS = ("dofDamper", "tendonDamper", "fluidBox", "fluidEllipsoid", "actuator", "biasChain", "biasFree")
TERM_JT = {"dofDamper": 0, "tendonDamper": 0, "fluidBox": 1, "fluidEllipsoid": 1, "actuator": 4, "biasChain": 5, "biasFree": 5}
PROBE_FLAGS = ("mjDSBL_SPRING", "mjDSBL_DAMPER", "mjDSBL_ACTUATION", "mjDSBL_EULERDAMP")


def probe_scene(term):
    """(model lines without options, state lines): a scene whose ONLY velocity-dependent smooth force is `term`"""
    SPH, BOX, ELL = E("mjGEOM_SPHERE"), E("mjGEOM_BOX"), E("mjGEOM_ELLIPSOID")
    HINGE, SLIDE, FREE = E("mjJNT_HINGE"), E("mjJNT_SLIDE"), E("mjJNT_FREE")
    L = ["body 1 0", "name 1 b1", "set 1 pos 0 0 1"]
    if term == "dofDamper":
        L += ["joint 2 1", "name 2 j1", "set 2 type %d" % HINGE, "set 2 axis 0 1 0", "set 2 damping 0.7 0.3 0.2",
              "geom 3 1", "set 3 type %d" % SPH, "set 3 size 0.1", "set 3 pos 0.3 0 0"]
        st = ["set qpos 0.2", "set qvel 1.3"]
    elif term == "tendonDamper":
        L += ["joint 2 1", "name 2 j1", "set 2 type %d" % SLIDE, "set 2 axis 0 0 1",
              "geom 3 1", "set 3 type %d" % SPH, "set 3 size 0.1",
              "body 4 1", "name 4 b2", "set 4 pos 0.3 0 0", "joint 5 4", "name 5 j2", "set 5 type %d" % SLIDE, "set 5 axis 1 0 0",
              "geom 6 4", "set 6 type %d" % SPH, "set 6 size 0.08",
              "tendon 7", "name 7 t1", "wrap 7 joint j1 1.0", "wrap 7 joint j2 -0.7", "set 7 damping 0.5 0.2 0.1"]
        st = ["set qpos 0.1 -0.05", "set qvel 1.0 -0.4"]
    elif term in ("fluidBox", "fluidEllipsoid"):
        L = ["option density 50", "option viscosity 0.1"] + L
        L += ["joint 2 1", "name 2 j1", "set 2 type %d" % SLIDE, "set 2 axis 0 0 1", "geom 3 1"]
        if term == "fluidBox":
            L += ["set 3 type %d" % BOX, "set 3 size 0.1 0.2 0.3"]
        else:
            L += ["set 3 type %d" % ELL, "set 3 size 0.1 0.15 0.2", "set 3 fluid_ellipsoid 1", "set 3 fluid_coefs 0.5 0.25 1.5 1.0 1.0"]
        st = ["set qpos 0.1", "set qvel 0.8"]
    elif term == "actuator":
        L += ["joint 2 1", "name 2 j1", "set 2 type %d" % SLIDE, "set 2 axis 0 0 1", "geom 3 1", "set 3 type %d" % SPH, "set 3 size 0.1",
              "actuator 4", "name 4 a1", "set 4 trntype %d" % E("mjTRN_JOINT"), "set 4 target j1", "set 4 gainprm 3",
              "set 4 biastype %d" % E("mjBIAS_AFFINE"), "set 4 biasprm 0 0 -3"]
        st = ["set qpos 0.1", "set qvel 0.5", "set ctrl 0.3"]
    elif term == "biasChain":
        L += ["joint 2 1", "name 2 j1", "set 2 type %d" % HINGE, "set 2 axis 0 1 0", "geom 3 1", "set 3 type %d" % SPH, "set 3 size 0.1",
              "set 3 pos 0.3 0 0", "body 4 1", "name 4 b2", "set 4 pos 0.3 0 0", "joint 5 4", "name 5 j2", "set 5 type %d" % HINGE,
              "set 5 axis 0 1 0", "geom 6 4", "set 6 type %d" % SPH, "set 6 size 0.08", "set 6 pos 0.25 0 0"]
        st = ["set qpos 0.3 0.7", "set qvel 2.0 -3.0"]
    elif term == "biasFree":
        L += ["joint 2 1", "name 2 j1", "set 2 type %d" % FREE, "geom 3 1", "set 3 type %d" % BOX, "set 3 size 0.1 0.2 0.3"]
        st = ["set qpos 0 0 1 1 0 0 0", "set qvel 0.1 0.2 0.3 3.0 -2.0 1.0"]
    else:
        raise ValueError(term)
    return L, st


def probe_sessions():
    """every term x every combination of the four disable flags x Euler / implicit / implicitfast (exhaustive, 336 scenes)"""
    out = []
    for term in TERMS:
        body, st = probe_scene(term)
        for integ in ("EULER", "IMPLICIT", "IMPLICITFAST"):
            for bits in range(16):
                fl = [(bits >> k) & 1 for k in range(4)]
                dis = sum(E(n) for n, b in zip(PROBE_FLAGS, fl) if b)
                model = ["option timestep 0.002", "option integrator %d" % E("mjINT_" + integ), "option disableflags %d" % dis] + body
                out.append({"model": model, "setopt": [], "states": [{"set": list(st), "nsteps": 1}],
                            "label": "probe:%s:%s:%s" % (term, integ.lower(), "".join(map(str, fl))),
                            "probe": (term, E("mjINT_" + integ), tuple(fl))})
    return out


def measure_probe(info, g, probe):
    """-> (DT op line for the Lean model, the answer measured on the engine) or None"""
    term, integ, fl = probe
    if "d_have" not in g or I(g, "d_have")[0] != 1 or "acc" not in g:
        return None
    jt = F(g, "d_Jt")
    acc, qacc = F(g, "acc"), F(g, "fw0_qacc")
    if any(x != x for x in jt + acc + qacc):
        return None
    applied = jt[TERM_JT[term]] > 1e-6
    sc = max(abs(x) for x in qacc) if qacc else 0.0
    ind = max(abs(a - b) for a, b in zip(acc, qacc)) > 1e-7 * max(sc, 1e-3)
    return ("DT %d %d %d %d %d %s" % ((integ,) + tuple(fl) + (term,)), "applied %d inD %d" % (applied, ind))


def gen_sessions(ctx, nmodels, nstates, nsteps, stats):
    rng = ctx.rng
    sessions = [wrap_probe_lines()] + probe_sessions()
    stats["term_probe_scenes(exhaustive)"] = len(sessions) - 1
    for k in range(nmodels):
        integ = INTEGRATORS[k % 4]
        mdl = make_model(rng, integ, stats)
        setopt = []
        if rng.random() < 0.25:
            setopt.append("setopt disableactuator %d" % rng.choice((1, 2, 5, 15)))
        # option flags that gate force terms (and must gate their derivatives in D the same way)
        gate = 0
        r = rng.random()
        if r < 0.2:
            gate |= E("mjDSBL_DAMPER")
        elif r < 0.3:
            gate |= E("mjDSBL_SPRING")
        elif r < 0.36:
            gate |= E("mjDSBL_SPRING") | E("mjDSBL_DAMPER")
        if rng.random() < 0.06:
            gate |= E("mjDSBL_ACTUATION")
        if rng.random() < 0.05:
            gate |= E("mjDSBL_GRAVITY")
        if gate:
            setopt.append("setopt disableflags %d" % (mdl.options["disableflags"] | gate))
            stats["gate:" + "+".join(flag_names(gate))] = stats.get("gate:" + "+".join(flag_names(gate)), 0) + 1
        sess = {"model": mdl.lines, "setopt": setopt, "states": [], "label": "%s#%d" % (integ, k)}
        for _ in range(nstates):
            sess["states"].append({"set": state_lines(mdl, rng, stats), "nsteps": nsteps})
        sessions.append(sess)
        stats["integrator:" + integ] = stats.get("integrator:" + integ, 0) + 1
        for j in mdl.joints:
            stats["joint:" + j["type"]] = stats.get("joint:" + j["type"], 0) + 1
    return sessions


def flatten(sessions):
    """-> (harness input lines, index) where index[i] = (session, kind, state-index, step-index)"""
    lines, idx = [], []
    for si, s in enumerate(sessions):
        lines.append("model " + "|".join(s["model"] + ["end"]))
        idx.append((si, "model", -1, -1))
        for o in s["setopt"]:
            lines.append(o)
            idx.append((si, "setopt", -1, -1))
        lines.append("info")
        idx.append((si, "info", -1, -1))
        for ti, st in enumerate(s["states"]):
            lines.append("reset")
            idx.append((si, "reset", ti, -1))
            for l in st["set"]:
                lines.append(l)
                idx.append((si, "set", ti, -1))
            for k in range(st["nsteps"]):
                lines.append(step_op(st, k))
                idx.append((si, "step", ti, k))
    return lines, idx


def step_op(st, k):
    """`stepd` (trace + velocity-derivative data) on the first and the last step of a state, `step` in between"""
    return "stepd" if st.get("dsteps", True) and k in (0, st["nsteps"] - 1) else "step"


def session_replay(s, ti, upto):
    """harness input that reproduces step `upto` of state `ti` of session s"""
    st = s["states"][ti]
    return ["model " + "|".join(s["model"] + ["end"])] + s["setopt"] + ["info", "reset"] + st["set"] + \
        [step_op(st, k) for k in range(upto + 1)]


# ------------------------------------------------------------------------------------------ oracle on one step record
class Dev:
    def __init__(self):
        self.m = {}

    def see(self, key, dev, allowed):
        if dev != dev:
            r = float("inf")
        else:
            r = dev / allowed if allowed > 0 else (0.0 if dev == 0 else float("inf"))
        if r > self.m.get(key, 0.0):
            self.m[key] = r
        return r <= 1.0


def quat_slots(info):
    out = []
    for t, p in zip(info.jtype, info.jpadr):
        if t == 0:
            out.append(p + 3)
        elif t == 1:
            out.append(p)
    return out


def clipf(x, lo, hi):
    return lo if x < lo else (hi if x > hi else x)


def py_next_act(info, i, act, adot):
    """documented activation dynamics of actuator i (Euler types and filterexact), then the actrange clamp"""
    h = info.h
    dt = info.dyntype[i]
    if dt == E("mjDYN_FILTEREXACT"):
        tau = max(MINVAL, info.dynprm[10 * i])
        a = act + adot * tau * (1 - math.exp(-h / tau))
    elif dt == E("mjDYN_DCMOTOR"):
        return None
    else:
        a = act + adot * h
    if info.actlimited[i]:
        a = clipf(a, info.actrange[2 * i], info.actrange[2 * i + 1])
    return a



def flag_names(disableflags):
    return [n for n in ("mjDSBL_SPRING", "mjDSBL_DAMPER", "mjDSBL_ACTUATION", "mjDSBL_EULERDAMP", "mjDSBL_GRAVITY")
            if disableflags & E(n)]


def judge_D(info, g, dev, fail, note):
    """The matrix D of the (M - h D) solve of implicit / implicitfast is the velocity derivative of the smooth forces the
    engine applies in THIS step (under the current option flags): the dense qDeriv that mj_step left behind is compared,
    on its own sparsity pattern (documented restriction), with central differences of the engine's own
    qfrc_passive + qfrc_actuator (- qfrc_bias for implicit), symmetrised for implicitfast outside standalone free
    bodies (documented); for those bodies the block of mjd_freeMhat is compared with M - h (d(passive + actuator - bias)/dv)."""
    if "d_have" not in g or I(g, "d_have")[0] != 1:
        return
    implicit, fast = info.integrator == E("mjINT_IMPLICIT"), info.integrator == E("mjINT_IMPLICITFAST")
    if not (implicit or fast) or "d_A" not in g:
        return
    nv = info.nv
    for k in ("d_A", "d_Fpas", "d_Fact", "d_Fbias", "d_M", "d_freeA", "d_Aclamp"):
        if any(t in ("nan", "7ff0000000000000", "fff0000000000000") for t in g[k]):
            note("D:nonfinite")
            return
    mask = I(g, "d_mask")
    A, Fp, Fa, Fb, M = F(g, "d_A"), F(g, "d_Fpas"), F(g, "d_Fact"), F(g, "d_Fbias"), F(g, "d_M")
    h = info.h
    Eu = [Fp[i] + Fa[i] - (Fb[i] if implicit else 0.0) for i in range(nv * nv)]     # as documented, before symmetrisation
    freeadr = I(g, "d_freeadr")
    blk = {}
    for b, adr in enumerate(freeadr):
        for r in range(6):
            blk[adr + r] = b
    if fast:
        Ex = [Eu[r * nv + c] if (r in blk and blk.get(c) == blk[r]) else 0.5 * (Eu[r * nv + c] + Eu[c * nv + r])
              for r in range(nv) for c in range(nv)]
    else:
        Ex = Eu
    Em = [x * mk for x, mk in zip(Ex, mask)]
    frc = max(F(g, "d_frc"))
    amax = lambda v: max([abs(x) for x in v] or [0.0])
    tol = D_TOL_REL * max(amax(A), amax(Em)) + D_TOL_FRC * frc + D_TOL_ABS
    i = max(range(nv * nv), key=lambda k: abs(A[k] - Em[k]))
    d = abs(A[i] - Em[i])
    flags = flag_names(info.disableflags)
    # deviation statistics (calibration of the tolerance) only over states outside the two known-deviation regimes
    clean = I(g, "d_ctrlout")[0] == 0 and I(g, "d_guard")[0] == 0
    if d <= tol:
        if clean:
            dev.see("D:qDeriv-vs-central-differences", d, tol)
    else:
        Ac = F(g, "d_Aclamp")
        if I(g, "d_ctrlout")[0] > 0 and Ac and max(abs(a - e) for a, e in zip(Ac, Em)) <= tol:
            # KNOWN FINDING, kept narrow: some limited control is outside its range AND the engine's own mjd_smooth_vel
            # evaluated with d->ctrl clamped the way mj_fwdActuation clamps it agrees with the finite differences
            fail(KEY_D_CTRL.split(":", 1)[1], "the D of the %s solve uses the raw d->ctrl in the velocity derivative of the actuator force "
                 "although the force is computed from ctrl clamped to ctrlrange: qDeriv[%d,%d] = %r, central differences of the "
                 "applied forces give %r (and mjd_smooth_vel with clamped ctrl agrees with them)"
                 % ("implicit" if implicit else "implicitfast", i // nv, i % nv, A[i], Em[i]))
        elif I(g, "d_guard")[0] > 0:
            # numerical accuracy of mjd_ellipsoidFluid inside its mjMINVAL guard is C25's concern (known finding there)
            note("D:skipped:ellipsoid-drag-minval-guard-active")
        else:
            dev.see("D:qDeriv-vs-central-differences", d, tol)
            parts = {"passive": Fp[i], "actuator": Fa[i], "bias": -Fb[i]}
            miss = min(parts, key=lambda k: abs((Em[i] - A[i]) - parts[k])) if not fast else \
                min(("passive", "actuator"), key=lambda k: abs((Em[i] - A[i]) - parts[k]))
            fail(KEY_D.split(":", 1)[1] + (":implicit" if implicit else ":implicitfast"),
                 "the matrix D of the (M - h D) solve is not the velocity derivative of the smooth forces applied in this step "
                 "(disable flags: %s): qDeriv[%d,%d] = %r but central differences of the engine's own forces give %r "
                 "(d passive/dv = %r, d actuator/dv = %r, -d bias/dv = %r at that entry; the difference matches the %s term; "
                 "deviation %.3g > allowed %.3g); max |d qfrc_damper/dv| = %.3g, |d qfrc_fluid/dv| = %.3g"
                 % (" ".join(flags) or "none", i // nv, i % nv, A[i], Em[i], Fp[i], Fa[i], -Fb[i], miss, d, tol,
                    F(g, "d_Jt")[0], F(g, "d_Jt")[1]))
    # standalone free bodies under implicitfast: block of M - h D as assembled by mjd_freeMhat
    if fast and freeadr:
        FA = F(g, "d_freeA")
        for b, adr in enumerate(freeadr):
            worst, wd = None, -1.0
            sc = 0.0
            for r in range(6):
                for c in range(6):
                    k = (adr + r) * nv + adr + c
                    dfm = (M[k] - FA[36 * b + 6 * r + c]) / h
                    ex = Fp[k] + Fa[k] - Fb[k]
                    sc = max(sc, abs(dfm), abs(ex))
                    if abs(dfm - ex) > wd:
                        worst, wd = (r, c, dfm, ex), abs(dfm - ex)
            mblk = max(abs(M[(adr + r) * nv + adr + c]) for r in range(6) for c in range(6))
            tolb = D_TOL_REL * sc + D_TOL_FRC * frc + D_TOL_ABS + 1e-12 * mblk / h
            if wd <= tolb or I(g, "d_guard")[0] > 0:
                if wd <= tolb:
                    if clean:
                        dev.see("D:free-body-block", wd, tolb)
                else:
                    note("D:skipped:ellipsoid-drag-minval-guard-active")
            else:
                Ac = F(g, "d_Aclamp")
                dev.see("D:free-body-block", wd, tolb)
                if I(g, "d_ctrlout")[0] > 0 and Ac:
                    fail(KEY_D_CTRL.split(":", 1)[1], "free-body block of the implicitfast solve with a control outside ctrlrange: (M - Mhat)/h [%d,%d] = %r, "
                         "central differences %r" % (worst[0], worst[1], worst[2], worst[3]))
                else:
                    fail(KEY_D_FREE.split(":", 1)[1], "standalone free body at dof %d (disable flags: %s): the 6x6 block M - h D of mjd_freeMhat gives "
                         "D[%d,%d] = %r but central differences of passive + actuator - bias force give %r (deviation %.3g > allowed %.3g)"
                         % (adr, " ".join(flags) or "none", worst[0], worst[1], worst[2], worst[3], wd, tolb))
        note("D:free-body-blocks-judged")
    note("D:judged:" + ("implicit" if implicit else "implicitfast") + (":" + "+".join(n[7:] for n in flags) if flags else ""))
    jt = F(g, "d_Jt")
    for name, v in zip(("damper", "fluid", "spring!", "gravcomp!", "actuator", "bias"), jt):
        if v > 1e-6:
            note("D:term-present:" + name)


def judge_step(info, g, dev, notes=None):
    """failures (key, description) of one traced mj_step, from the engine's trace alone"""
    fails = []

    def fail(key, what):
        fails.append(("c05:" + key, what))

    h = info.h
    integ = info.integrator
    nfw = I(g, "nfw")[0]
    if any(w for w in I(g, "warnings")):
        # the engine itself flagged a bad state (divergence) and may have reset: nothing to judge
        return fails, "warned"
    for k, toks in g.items():
        if k.startswith(("fw", "post_", "acc", "pvel", "entry_")) and any(t in ("nan", "7ff0000000000000", "fff0000000000000") for t in toks):
            # a diverging simulation (the RK4 stages are not guarded by mj_checkAcc): nothing to judge
            return fails, "nonfinite"
    rk4 = integ == E("mjINT_RK4")
    if nfw != (4 if rk4 else 1):
        fail("trace:nforward", "mj_step evaluated the dynamics %d times (expected %d)" % (nfw, 4 if rk4 else 1))
        return fails, "judged"
    if I(g, "nacc")[0] != 1 or I(g, "npvel")[0] != 1:
        fail("trace:nupdate", "d->qvel updated %d times / d->qpos integrated %d times in one step (expected 1 / 1)"
             % (I(g, "nacc")[0], I(g, "npvel")[0]))
        return fails, "judged"
    t0, q0, v0, a0 = F(g, "fw0_time")[0], F(g, "fw0_qpos"), F(g, "fw0_qvel"), F(g, "fw0_act")
    t1, q1, v1, a1 = F(g, "post_time")[0], F(g, "post_qpos"), F(g, "post_qvel"), F(g, "post_act")
    acc, pvel = F(g, "acc"), F(g, "pvel")
    # forward dynamics must not move the state
    if g["entry_time"] != g["fw0_time"] or g["entry_qpos"] != g["fw0_qpos"] or g["entry_qvel"] != g["fw0_qvel"] or g["entry_act"] != g["fw0_act"]:
        fail("forward-changes-state", "mj_forward changed time/qpos/qvel/act")
    # ---- time
    if fbits(t1) != fbits(t0 + h):
        fail("time", "time after the step is %r, expected time + timestep = %r" % (t1, t0 + h))
    if fbits(F(g, "acc_scl")[0]) != fbits(h) or fbits(F(g, "pvel_dt")[0]) != fbits(h):
        fail("stepsize", "velocity/position update used step %r / %r instead of timestep %r" % (F(g, "acc_scl")[0], F(g, "pvel_dt")[0], h))
    # ---- unit quaternions
    for a in quat_slots(info):
        n = math.sqrt(sum(x * x for x in q1[a:a + 4]))
        if not dev.see("quat_norm", abs(n - 1), QTOL):
            fail("quat-not-unit", "quaternion at qpos[%d..%d] has norm %r after the step" % (a, a + 3, n))
    # ---- velocity update  qvel' = qvel + h * acc   (acc = what the engine added; bitwise)
    for i in range(info.nv):
        if fbits(v1[i]) != fbits(v0[i] + acc[i] * h):
            fail("velocity-update", "qvel'[%d] = %r is not qvel + h*acc = %r" % (i, v1[i], v0[i] + acc[i] * h))
            break
    # ---- positions use the right velocity
    if rk4:
        B = [1.0 / 6.0, 1.0 / 3.0, 1.0 / 3.0, 1.0 / 6.0]
        A = [[0.5], [0.0, 0.5], [0.0, 0.0, 1.0]]
        X = [(F(g, "fw%d_qvel" % k), F(g, "fw%d_act" % k), F(g, "fw%d_qpos" % k), F(g, "fw%d_time" % k)[0]) for k in range(4)]
        Fq = [F(g, "fw%d_qacc" % k) for k in range(4)]
        Fa = [F(g, "fw%d_actdot" % k) for k in range(4)]

        def close(key, x, ref, scale, what):
            if not dev.see(key, abs(x - ref), RTOL * (abs(ref) + scale) + 1e-300):
                fail(key, "%s: engine %r, classical RK4 %r" % (what, x, ref))
                return False
            return True
        ok = True
        for s in range(1, 4):
            c = sum(A[s - 1])
            if fbits(X[s][3]) != fbits(t0 + c * h):
                fail("rk4:stage-time", "stage %d evaluated at time %r, expected %r" % (s, X[s][3], t0 + c * h))
            for i in range(info.nv):
                ref = v0[i] + h * sum(A[s - 1][j] * Fq[j][i] for j in range(s))
                ok = ok and close("rk4:stage-qvel", X[s][0][i], ref, abs(v0[i]) + h * sum(abs(Fq[j][i]) for j in range(s)), "stage %d qvel[%d]" % (s, i))
            for i in range(info.na):
                ref = a0[i] + h * sum(A[s - 1][j] * Fa[j][i] for j in range(s))
                ok = ok and close("rk4:stage-act", X[s][1][i], ref, abs(a0[i]) + h * sum(abs(Fa[j][i]) for j in range(s)), "stage %d act[%d]" % (s, i))
            for t, p, w in zip(info.jtype, info.jpadr, info.jvadr):
                for k in range(3 if t == 0 else (1 if t >= 2 else 0)):
                    ref = q0[p + k] + h * sum(A[s - 1][j] * X[j][0][w + k] for j in range(s))
                    ok = ok and close("rk4:stage-qpos", X[s][2][p + k], ref, abs(q0[p + k]) + h * sum(abs(X[j][0][w + k]) for j in range(s)),
                                      "stage %d qpos[%d]" % (s, p + k))
            if not ok:
                break
        for i in range(info.nv):
            ref = sum(B[j] * Fq[j][i] for j in range(4))
            ok = ok and close("rk4:final-acc", acc[i], ref, sum(abs(Fq[j][i]) for j in range(4)), "combined acceleration [%d]" % i)
            ref = sum(B[j] * X[j][0][i] for j in range(4))
            ok = ok and close("rk4:final-vel", pvel[i], ref, sum(abs(X[j][0][i]) for j in range(4)), "combined velocity for the position update [%d]" % i)
        adot = [sum(B[j] * Fa[j][i] for j in range(4)) for i in range(info.na)]
    else:
        if g["pvel"] != g["post_qvel"]:
            fail("position-uses-old-velocity", "positions were integrated with a velocity different from the NEW qvel")
        adot = F(g, "fw0_actdot")
    # ---- scalar joints / free translation: qpos' = qpos + h * (velocity used)   (bitwise)
    vused = pvel
    vdoc = v1 if not rk4 else pvel
    for t, p, w in zip(info.jtype, info.jpadr, info.jvadr):
        for k in range(3 if t == 0 else (1 if t >= 2 else 0)):
            if fbits(q1[p + k]) != fbits(q0[p + k] + h * vdoc[w + k]):
                fail("position-update", "qpos'[%d] = %r is not qpos + h*v' = %r (v' = new velocity)" % (p + k, q1[p + k], q0[p + k] + h * vdoc[w + k]))
                break
    # ---- explicit Euler: the acceleration added is qacc itself; implicit solves: residual certificate
    cert = g.get("cert", [])
    if len(cert) == 4:
        kind, res, scale = int(cert[0]), float(cert[1]), float(cert[2])
        if integ == E("mjINT_EULER") and kind == 0:
            if g["acc"] != g["fw0_qacc"]:
                fail("euler-explicit", "Euler without implicit damping: qvel' != qvel + h*qacc (a different acceleration was used)")
        if kind in (1, 2, 3):
            name = {1: "euler-damping", 2: "implicit", 3: "implicitfast"}[kind]
            if not dev.see("cert:" + name, res, CERT_TOL * scale + 1e-300):
                fail("implicit-solve:" + name, "(M - h D) x = qfrc_smooth + qfrc_constraint is violated by the engine's x: residual %.3g, scale %.3g" % (res, scale))
    # ---- the D of the implicit solve is the force-velocity derivative (records of `stepd`)
    judge_D(info, g, dev, fail, (lambda k: notes.__setitem__(k, notes.get(k, 0) + 1)) if notes is not None else (lambda k: None))
    # ---- activations
    if info.na:
        if info.actuation_disabled():
            if g["post_act"] != g["fw0_act"]:
                fail("act:disabled", "actuation disabled but act changed")
        else:
            for i in range(info.nactuator):
                for k in range(info.actnum[i]):
                    j = info.actadr[i] + k
                    lo, hi = info.actrange[2 * i], info.actrange[2 * i + 1]
                    dc = info.dyntype[i] == E("mjDYN_DCMOTOR")
                    if info.actlimited[i] and not dc and not (lo <= a1[j] <= hi):
                        if info.may_wrap(i):
                            fail("act-outside-actrange:wrap-after-clamp",
                                 "actlimited actuator %d: act = %r outside actrange [%r, %r] after the step (setpoint re-anchored on the circle after the clamp)" % (i, a1[j], lo, hi))
                        else:
                            fail("act-outside-actrange:dyntype%d" % info.dyntype[i],
                                 "actlimited actuator %d (dyntype %d): act = %r outside actrange [%r, %r] after the step" % (i, info.dyntype[i], a1[j], lo, hi))
                    if not info.may_wrap(i) and not dc:
                        ref = py_next_act(info, i, a0[j], 0.0 if info.disabled[i] else adot[j])
                        if ref is not None and not dev.see("act_dynamics", abs(a1[j] - ref), RTOL * (abs(ref) + abs(a0[j]) + h * abs(adot[j])) + 1e-300):
                            fail("act-dynamics:dyntype%d" % info.dyntype[i], "act'[%d] = %r, documented dynamics give %r" % (j, a1[j], ref))
    return fails, "judged"


# ------------------------------------------------------------------------------------------ Lean-model lines from a record
def lean_line(info, g):
    rk4 = info.integrator == E("mjINT_RK4")
    last = "fw%d" % (I(g, "nfw")[0] - 1)
    base = [info.passthrough(), grp("avel", g[last + "_avel"]), grp("alen", g[last + "_alen"]),
            grp("time", g["fw0_time"]), grp("qpos", g["fw0_qpos"]), grp("qvel", g["fw0_qvel"]), grp("act", g["fw0_act"])]
    if rk4:
        for k in range(4):
            base += [grp("f%d_qacc" % k, g["fw%d_qacc" % k]), grp("f%d_actdot" % k, g["fw%d_actdot" % k])]
        exp = []
        for k in (1, 2, 3):
            exp += [grp("x%d_time" % k, g["fw%d_time" % k]), grp("x%d_qpos" % k, g["fw%d_qpos" % k]),
                    grp("x%d_qvel" % k, g["fw%d_qvel" % k]), grp("x%d_act" % k, g["fw%d_act" % k])]
        exp += [grp("time", g["post_time"]), grp("qpos", g["post_qpos"]), grp("qvel", g["post_qvel"]), grp("act", g["post_act"])]
        return "RK4 " + " ".join(base), " ".join(exp)
    base += [grp("actdot", g["fw0_actdot"]), grp("qacc", g["acc"])]
    exp = [grp("time", g["post_time"]), grp("qpos", g["post_qpos"]), grp("qvel", g["post_qvel"]), grp("act", g["post_act"])]
    return "ADV " + " ".join(base), " ".join(exp)


def first_diff(a, b):
    ta, tb = a.split(), b.split()
    for i, (x, y) in enumerate(zip(ta, tb)):
        if x != y:
            # name of the group the token belongs to
            j = i
            while j >= 0 and not (ta[j][0].isalpha() and not all(c in "0123456789abcdef" for c in ta[j])):
                j -= 1
            vx = frombits(x) if len(x) == 16 else x
            vy = frombits(y) if len(y) == 16 else y
            return "token %d (group %s): model %s (%r) vs engine %s (%r)" % (i, ta[j] if j >= 0 else "?", x, vx, y, vy)
    return "length %d vs %d" % (len(ta), len(tb))


# ------------------------------------------------------------------------------------------ trace run
def run_trace(ctx, drv, impl, sessions, dev, label, max_report=24):
    lines, idx = flatten(sessions)
    rc, outs, err = ctx.run_lines([impl], lines)
    found, stats = [], {"steps": 0, "judged": 0, "warned": 0, "nonfinite": 0, "engine_error": 0, "model_error": 0, "lean_ops": 0, "lean_mismatch": 0}
    if rc != 0 or len(outs) != len(lines):
        k = min(len(outs), len(lines) - 1)
        si, kind, ti, sk = idx[k]
        found.append({"key": "c05:crash", "what": "c05_integrate crashed (rc=%s) at input line %d (%s of session %s)" % (rc, k, kind, sessions[si]["label"]),
                      "replay": {"harness_input": session_replay(sessions[si], max(ti, 0), max(sk, 0)) if ti >= 0 else lines[max(0, k - 3):k + 1],
                                 "stderr": err[-300:]}})
        return found, stats, False
    infos, lean_in, lean_exp, lean_src = {}, [], [], []
    layout_bad = 0
    notes, nkey = {}, {}
    dt_in, dt_exp, dt_src = [], [], []
    for (si, kind, ti, sk), l, o in zip(idx, lines, outs):
        s = sessions[si]
        if kind == "model":
            if not o.startswith("ok"):
                stats["model_error"] += 1
                infos[si] = None
            continue
        if kind == "info":
            tag, g = parse_groups(o)
            if tag != "info" or g is None:
                infos[si] = None
                continue
            infos[si] = Info(g)
            if not infos[si].layout_ok():
                layout_bad += 1
                infos[si] = None
            continue
        if kind != "step":
            if o != "ok" and infos.get(si) is not None:
                found.append({"key": "c05:harness-op", "what": "harness rejected %r: %s" % (l[:60], o[:100]), "replay": {"line": l[:300]}})
            continue
        info = infos.get(si)
        if info is None:
            continue
        stats["steps"] += 1
        if o.startswith("error"):
            stats["engine_error"] += 1
            continue
        tag, g = parse_groups(o)
        if tag != "step" or g is None:
            found.append({"key": "c05:trace-format", "what": "unparsable trace record", "replay": {"record": o[:300]}})
            continue
        fs, how = judge_step(info, g, dev, notes)
        stats[how] += 1
        if s.get("probe") and sk == 0:
            m = measure_probe(info, g, s["probe"])
            if m is None:
                found.append({"key": "c05:probe-not-measurable", "what": "term probe %r gave no usable record (%s)" % (s["probe"], how),
                              "replay": {"harness_input": session_replay(s, ti, sk)}})
            else:
                dt_in.append(m[0])
                dt_exp.append(m[1])
                dt_src.append((si, ti, sk))
        ctx.count((s["label"], ti, sk, ctx.seed))
        for key, what in fs[:4]:
            # at most two reports per key (a frequent known finding must not crowd out another failure class)
            if nkey.get(key, 0) < 2 and len(found) < max_report:
                nkey[key] = nkey.get(key, 0) + 1
                found.append({"key": key, "what": what + "  [%s, state %d, step %d]" % (s["label"], ti, sk),
                              "replay": {"harness_input": session_replay(s, ti, sk),
                                             "how": "feed harness_input to the c05_integrate harness (checks/c05.py builds it); the last output line is the trace record of the failing step",
                                             "trace_record": o[:4000]}})
        if how == "judged" and drv:
            a, b = lean_line(info, g)
            lean_in.append(a)
            lean_exp.append(b)
            lean_src.append((si, ti, sk))
    ok = True
    if drv and lean_in:
        rc2, out2, err2 = ctx.run_lines([drv], lean_in)
        if rc2 != 0 or len(out2) != len(lean_in):
            raise common.Infra("drv_c05 failed on the trace ops: rc=%s %s" % (rc2, err2[-300:]))
        bad = []
        for a, b, o, (si, ti, sk) in zip(lean_in, lean_exp, out2, lean_src):
            stats["lean_ops"] += 1
            if o != b:
                stats["lean_mismatch"] += 1
                if len(bad) < 5:
                    bad.append({"line": a[:3000], "model": o[:1500], "impl": b[:1500], "first_difference": first_diff(o, b) if o != "bad-op" else "model refused the op",
                                "session": sessions[si]["label"], "state": ti, "step": sk, "harness_input": session_replay(sessions[si], ti, sk)})
        ok = not bad
        ctx.oblige("correspondence %s: Lean advance / rk4 fed with the engine's own trace reproduces mj_step bitwise (%d steps)" % (label, len(lean_in)),
                   "correspondence", ok, json.dumps(bad)[:6000])
        if bad:
            ctx.disagreements += [dict(b, stream=label) for b in bad]
    if drv and dt_in:
        rc3, out3, err3 = ctx.run_lines([drv], dt_in)
        if rc3 != 0 or len(out3) != len(dt_in):
            raise common.Infra("drv_c05 failed on the DT ops: rc=%s %s" % (rc3, err3[-300:]))
        bad = []
        for a, b, o, (si, ti, sk) in zip(dt_in, dt_exp, out3, dt_src):
            ctx.count(a)
            if o != b:
                bad.append({"line": a, "model": o, "impl": b, "session": sessions[si]["label"],
                            "meaning": "`applied`: the forward pass applies the term (finite differences of its force array are non-zero); "
                                       "`inD`: the vector added to qvel differs from qacc, i.e. the term's derivative is in the D of the solve",
                            "harness_input": session_replay(sessions[si], ti, sk)})
        ctx.oblige("correspondence %s: which force terms are applied / enter D under every (integrator, spring, damper, actuation, "
                   "eulerdamp) combination -- Lean interpreter of the generated statement lists vs single-term probe scenes on the "
                   "real engine (%d probes, exhaustive)" % (label, len(dt_in)), "correspondence", not bad, json.dumps(bad[:6])[:6000])
        if bad:
            ctx.disagreements += [dict(b, stream=label + " DT") for b in bad[:20]]
            ok = False
        stats["dt_ops"] = len(dt_in)
        stats["dt_mismatch"] = len(bad)
    stats["notes"] = dict(sorted(notes.items()))
    ctx.oblige("layout %s: qpos/qvel/act are the concatenation of per-joint / per-actuator blocks in every sampled model" % label,
               "correspondence", layout_bad == 0, "%d models with another layout" % layout_bad)
    return found, stats, ok


# ------------------------------------------------------------------------------------------ direct ops
def tok(x):
    return fbits(float(x))


def rand_quat(rng):
    r = rng.random()
    q = unit_quat(rng)
    if r < 0.5:
        return q
    if r < 0.6:
        return [x * (1 + rng.choice((1e-15, -1e-15, 2e-15, -3e-15, 1e-14, 1e-9))) for x in q]
    if r < 0.7:
        return [x * 10 ** rng.uniform(-17, -13) for x in q]
    if r < 0.75:
        return [0.0, 0.0, 0.0, 0.0]
    if r < 0.8:
        return [1.0, 0.0, 0.0, 0.0]
    s = 10 ** rng.uniform(-2, 2)
    return [x * s for x in q]


def rand_angvel(rng):
    r = rng.random()
    if r < 0.1:
        return [0.0, 0.0, 0.0]
    if r < 0.2:
        return [rng.gauss(0, 1) * 1e-16 for _ in range(3)]
    if r < 0.3:
        v = [0.0, 0.0, 0.0]
        v[rng.randint(0, 2)] = rng.choice((1.0, -1.0, 500.0))
        return v
    s = 10 ** rng.uniform(-3, 3)
    return [rng.gauss(0, 1) * s for _ in range(3)]


def rand_h(rng):
    return rng.choice((0.002, 0.001, 0.0005, 0.01, 1.0, 0.0, -0.002, 1e-9, rng.uniform(1e-4, 0.02)))


def gen_direct(ctx, n, hist):
    rng = ctx.rng
    lines = ["TAB"]

    def note(k):
        hist[k] = hist.get(k, 0) + 1
    for _ in range(n):
        # CLIP
        x, lo = rng.gauss(0, 2), rng.uniform(-1, 1)
        hi = lo + rng.choice((0.0, rng.uniform(0, 2)))
        if rng.random() < 0.1:
            x = rng.choice((lo, hi, float("inf"), -float("inf"), float("nan")))
        lines.append("CLIP %s %s %s" % (tok(x), tok(lo), tok(hi)))
        # QI
        lines.append("QI " + " ".join(tok(v) for v in rand_quat(rng) + rand_angvel(rng) + [rand_h(rng)]))
        # IP
        nj = rng.randint(0, 6)
        types = [rng.choice((0, 1, 2, 3)) for _ in range(nj)]
        qpos, qvel = [], []
        for t in types:
            if t == 0:
                qpos += [rng.gauss(0, 1) for _ in range(3)] + rand_quat(rng)
                qvel += [rng.gauss(0, 1) for _ in range(3)] + rand_angvel(rng)
            elif t == 1:
                qpos += rand_quat(rng)
                qvel += rand_angvel(rng)
            else:
                qpos.append(rng.gauss(0, 2))
                qvel.append(rng.gauss(0, 3))
        lines.append("IP %d %s %s %s" % (nj, " ".join(map(str, types)), tok(rand_h(rng)), " ".join(tok(v) for v in qpos + qvel)))
        note("IP:joints=%d" % nj)
        # NA: every dyntype, DC motor with every slot combination
        dyn = rng.choice((0, 1, 2, 3, 3, 4, 5, 5, 5, 6, 7))
        lim = rng.choice((0, 1, 1))
        off = rng.randint(0, 4) if dyn == 5 else rng.choice((0, 0, 1))
        h = rng.choice((0.002, 0.001, 0.01, rng.uniform(1e-4, 0.02)))
        act, adot, vel = rng.uniform(-2, 2), rng.gauss(0, 1) * rng.choice((1, 10, 1000)), rng.gauss(0, 1) * rng.choice((0, 1, 1, 10, 1e-16))
        lo = rng.uniform(-1, 0.5)
        hi = lo + rng.choice((0.0, rng.uniform(0.01, 1.5)))
        p0 = rng.choice((0.0, 1e-16, 1e-4, 0.01, 0.1, 1.0, -1.0, rng.uniform(0.001, 0.5)))
        p2, p5, p7 = (rng.choice((0.0, 0.0, rng.uniform(0.1, 100))) for _ in range(3))
        p8 = rng.choice((0.0, -1.0, rng.uniform(0.01, 2)))
        g5 = rng.choice((0.0, rng.uniform(0.1, 5)))
        b3, b4, b5 = rng.choice((0.0, rng.uniform(0.01, 1))), rng.uniform(0.0, 2), rng.choice((0.0, 1e-16, rng.uniform(0.001, 1)))
        actn = off + rng.choice((1, 1, 2)) if dyn != 5 else 8     # own slot (last of the block) or a preceding slot
        lines.append("NA %d %d %d %d %s" % (dyn, lim, off, actn, " ".join(tok(v) for v in (h, act, adot, vel, lo, hi, p0, p2, p5, p7, p8, g5, b3, b4, b5))))
        note("NA:dyntype=%d%s" % (dyn, "" if off == actn - 1 or dyn == 5 else ":not-own-slot"))
    lines += ["frob 1", "IP 1 7 " + tok(0.002), "NA 3 1 0 1 " + tok(0.002), "QI " + tok(1.0), "CLIP zz 0 0"]
    return lines


def judge_direct(line, out, dev):
    w = line.split()
    op = w[0]
    malformed = op == "frob" or (op == "IP" and len(w) == 4 and w[2] == "7") or (op == "NA" and len(w) == 6) or \
        (op == "QI" and len(w) == 2) or (op == "CLIP" and w[1] == "zz")
    if out == "bad-op":
        return [] if malformed else [("c05:direct:bad-op", "well-formed op rejected")]
    if malformed:
        return [("c05:direct:bad-op", "malformed op accepted")]
    fails = []
    if op == "TAB":
        t = out.split()
        A, B = [frombits(x) for x in t[1:10]], [frombits(x) for x in t[11:15]]
        if A != [0.5, 0, 0, 0, 0.5, 0, 0, 0, 1.0] or B != [1.0 / 6.0, 1.0 / 3.0, 1.0 / 3.0, 1.0 / 6.0]:
            fails.append(("c05:rk4:tableau", "RK4_A / RK4_B are not the classical tableau: A=%r B=%r" % (A, B)))
    elif op == "CLIP":
        x, lo, hi = (frombits(v) for v in w[1:4])
        r = frombits(out.split()[1])
        if x == x and lo <= hi and not (lo <= r <= hi and (r == x or r == lo or r == hi)):
            fails.append(("c05:clip", "mju_clip(%r, %r, %r) = %r" % (x, lo, hi, r)))
    elif op == "QI":
        q = [frombits(v) for v in out.split()[1:5]]
        n = math.sqrt(sum(x * x for x in q))
        if not dev.see("direct:quatIntegrate_norm", abs(n - 1), QTOL):
            fails.append(("c05:quat-not-unit:mju_quatIntegrate", "mju_quatIntegrate returned a quaternion of norm %r" % n))
    elif op == "IP":
        nj = int(w[1])
        types = [int(x) for x in w[2:2 + nj]]
        h = frombits(w[2 + nj])
        vals = [frombits(x) for x in w[3 + nj:]]
        nq = sum(NQ[t] for t in types)
        qpos, qvel = vals[:nq], vals[nq:]
        res = [frombits(x) for x in out.split()[1:]]
        if len(res) != nq:
            return [("c05:integratePos:length", "mj_integratePos returned %d values for nq = %d" % (len(res), nq))]
        p = v = 0
        for t in types:
            if t in (0, 1):
                a = p + (3 if t == 0 else 0)
                n = math.sqrt(sum(x * x for x in res[a:a + 4]))
                if not dev.see("direct:integratePos_quat_norm", abs(n - 1), QTOL):
                    fails.append(("c05:quat-not-unit:mj_integratePos", "mj_integratePos left a quaternion of norm %r (input norm %r)"
                                  % (n, math.sqrt(sum(x * x for x in qpos[a:a + 4])))))
            for k in range(3 if t == 0 else (1 if t >= 2 else 0)):
                if fbits(res[p + k]) != fbits(qpos[p + k] + h * qvel[v + k]):
                    fails.append(("c05:position-update:mj_integratePos", "component %d: %r is not q + h v = %r" % (p + k, res[p + k], qpos[p + k] + h * qvel[v + k])))
            p += NQ[t]
            v += NV[t]
    elif op == "NA":
        dyn, lim = int(w[1]), int(w[2])
        f = [frombits(x) for x in w[5:]]
        lo, hi = f[4], f[5]
        r = frombits(out.split()[1])
        if lim and dyn != E("mjDYN_DCMOTOR") and lo <= hi and r == r and not (lo <= r <= hi):
            fails.append(("c05:act-outside-actrange:dyntype%d:mj_nextActivation" % dyn,
                          "mj_nextActivation (dyntype %d, actlimited) returned %r outside [%r, %r]" % (dyn, r, lo, hi)))
    return fails


def run_direct(ctx, drv, impl, n, dev, hist):
    lines = gen_direct(ctx, n, hist)
    ctx.differential("direct ops TAB/CLIP/QI/IP/NA: Lean model (Float) vs real RK4_A,B / mju_clip / mju_quatIntegrate / mj_integratePos / mj_nextActivation, bitwise",
                     [drv], [impl], lines, keyf=lambda l: l if len(l.split()) > 2 else None)
    rc, outs, err = ctx.run_lines([impl], lines)
    found = []
    if rc != 0 or len(outs) != len(lines):
        k = min(len(outs), len(lines) - 1)
        return [{"key": "c05:crash", "what": "c05_integrate crashed on a direct op (rc=%s)" % rc, "replay": {"line": lines[k], "stderr": err[-300:]}}], 0
    nfail = 0
    for l, o in zip(lines, outs):
        fs = judge_direct(l, o, dev)
        if fs:
            nfail += 1
            if len(found) < 6:
                for key, what in fs[:2]:
                    found.append({"key": key, "what": what, "replay": {"line": l, "impl_output": o,
                                                                      "how": "echo '<line>' | <c05_integrate harness>   (floats are IEEE-754 bit patterns)"}})
    ctx.sample({"direct_op": lines[3][:240], "output": outs[3][:200]})
    return found, nfail


# ------------------------------------------------------------------------------------------ kernel generators
def gen_kernel(rng, inputs):
    names = [n for n, _ in inputs]
    if len(names) == 8 and names[0].startswith("quat"):
        return rand_quat(rng) + rand_angvel(rng) + [rand_h(rng)]
    if len(names) == 4 and not names[0].startswith("axis"):
        return rand_quat(rng)
    return kernelval.default_gen(rng, inputs)


# ------------------------------------------------------------------------------------------ entry point
def run(ctx):
    ctx.rule = ("(1) direct op lines TAB / CLIP / QI / IP / NA with seeded inputs (quaternions: unit, within 1e-15 of unit, tiny, zero, "
                "scaled; angular velocities: zero, 1e-16, axis-aligned, 1e-3..1e3; every dyntype and DC-motor slot); "
                "(2) traced mj_step on generated models (gen/models.py + extra stateful actuators of every Euler-type dynamics, "
                "limited/unlimited, servos on ball joints), all four integrators in rotation, states with non-unit quaternions, "
                "large controls (half of the states inside ctrlrange), disabled actuator groups, fluid media (density / viscosity / wind, "
                "ellipsoid geoms), polynomial joint / tendon damping, spring / damper / actuation / gravity disable flags; "
                "(3) 336 single-term probe scenes (exhaustive over term x flags x integrator); "
                "a case is distinct by (model, state, step) resp. its full op line")
    thorough = ctx.tier == "thorough"
    m = kernelval.regen(ctx)
    mp = os.path.join(kernelval.GEN, "rk4_manifest.json")
    man = json.load(open(mp)) if os.path.exists(mp) else {"refused": "rk4_manifest.json missing"}
    ctx.oblige("c05_rk4 translates RK4_A / RK4_B and recognises the use-shape of mj_RungeKutta", "translator",
               not man.get("refused"), man.get("refused") or "")
    ctx.extra["rk4_tableau_generated"] = {"A": man.get("A_frac"), "B": man.get("B_frac")}
    dp = os.path.join(kernelval.GEN, "c05_dterms_manifest.json")
    dman = json.load(open(dp)) if os.path.exists(dp) else {"refused": "c05_dterms_manifest.json missing"}
    ctx.oblige("c05_dterms translates the top-level statement lists of mjd_smooth_vel / mjd_actuator_vel / mjd_passive_vel / mj_passive / "
               "mj_fluid and the flg_bias constants of mj_implicitSkip", "translator", not dman.get("refused"), dman.get("refused") or "")
    ctx.extra["dterm_statement_lists_generated"] = {"shapes": dman.get("shapes"), "flg_bias": dman.get("flg_bias")}
    ctx.lean_props(THEOREMS)
    kernelval.validate(ctx, m, KERNELS, 5000 if thorough else 200, gens={n: gen_kernel for n in KERNELS}, label="C05 kernels")
    ctx.extra["kernel_body_sha256"] = {n: m.get("kernels", {}).get(n, {}).get("sha256", "")[:16] for n in KERNELS}

    drv = ctx.driver("drv_c05")
    impl = ctx.harness("harness/c/c05_integrate.c", "c05_integrate", extra=("-rdynamic",), deps=["harness/mjbuild.h"])
    dev = Dev()
    if not impl:
        return
    if getattr(ctx, "replay", None):
        rp = json.load(open(ctx.replay))
        for f in rp.get("failures", []):
            r = f.get("replay", {})
            if "harness_input" in r:
                rc, outs, err = ctx.run_lines([impl], r["harness_input"])
                info = None
                for l, o in zip(r["harness_input"], outs):
                    if l == "info":
                        info = Info(parse_groups(o)[1])
                if info and outs:
                    tag, g = parse_groups(outs[-1])
                    fs, _ = judge_step(info, g, dev) if tag == "step" and g else ([], "")
                    for key, what in fs:
                        ctx.oracle_failure(key, what, r)
            elif "line" in r:
                rc, outs, err = ctx.run_lines([impl], [r["line"]])
                for key, what in (judge_direct(r["line"], outs[0], dev) if outs else []):
                    ctx.oracle_failure(key, what, r)
        return

    hist = {}
    if drv:
        found, nfail = run_direct(ctx, drv, impl, 20000 if thorough else 500, dev, hist)
        for f in found:
            ctx.oracle_failure(f["key"], f["what"], f["replay"])
        ctx.extra["direct_oracle_failures"] = nfail
    stats = {}
    sessions = gen_sessions(ctx, 4000 if thorough else 64, 2, 3, stats)
    found, tstats, _ = run_trace(ctx, drv, impl, sessions, dev, "mj_step trace")
    for f in found:
        ctx.oracle_failure(f["key"], f["what"], f["replay"])
    ctx.extra["trace"] = tstats
    ctx.extra["input_classes"] = dict(sorted(list(stats.items()) + list(hist.items())))
    ctx.extra["oracle_max_deviation_over_allowed"] = {k: float("%.3g" % v) for k, v in sorted(dev.m.items())}
    ctx.extra["tolerances"] = {"quat_norm": QTOL, "python_recomputation_rel": RTOL, "implicit_residual_rel": CERT_TOL,
                               "D_vs_central_differences": "%g * max(|D|, |FD|) + %g * max|force| + %g (eps 1e-6)" % (D_TOL_REL, D_TOL_FRC, D_TOL_ABS),
                               "everything_else": "bitwise"}
    ctx.assumptions.append("the flat state arrays are laid out as the concatenation of per-joint / per-actuator blocks (checked per model)")
    ctx.assumptions.append("the trace is taken by interposing mj_forwardSkip / mju_addToScl / mj_integratePosInd in the harness executable; the library code itself is the unmodified tree build")

    def directed(c):
        d2 = Dev()
        for rnd in range(4):
            st2 = {}
            ss = gen_sessions(c, 200, 2, 3, st2)
            fnd, _, _ = run_trace(c, None, impl, ss, d2, "directed search %d" % rnd)
            fnd = [f for f in fnd if f["key"] not in ("c05:act-outside-actrange:wrap-after-clamp", KEY_D_CTRL)] or fnd
            if fnd:
                return fnd[0]
            if drv:
                fnd, _ = run_direct(c, drv, impl, 3000, d2, {})
                if fnd:
                    return fnd[0]
        return None
    ctx.directed_search = directed
    if thorough:
        ctx.leanchecker(["MjProof.Props.C05"])
