"""C42: grammar-based generator of VALID schemas that the documentation generators can translate (adapted from the C41
generator: same structure-level dictionaries, rendered by c41.Render), the synthesiser of a matching C header, and the
wire encoding of the op lines."""
from checks import c41
from checks.c41 import Num

NUMERIC = ("double", "float", "int")

# names that the generators treat specially (overlay tables / hard-coded tags in doc/generate/*.py)
ELEMENT_POOL = ["default", "plugin", "body", "worldbody", "compiler", "option", "size", "statistic", "asset", "contact",
                "equality", "tendon", "actuator", "sensor", "keyframe", "visual", "custom", "extension", "deformable",
                "inertial", "freejoint", "composite", "exclude", "flex", "flexcomp", "pair", "instance", "mesh", "texture",
                "hfield", "skin", "pid", "frame", "replicate", "attach", "model", "sensor_contact", "motor", "position",
                "numeric", "text", "tuple", "geom", "site", "joint", "map", "flag", "global", "default_geom", "default_x",
                "lengthrange", "general", "touch", "clock", "e_potential", "Mixed_Case9", "camera", "light"]
ATTR_POOL = ["name", "class", "objname", "objtype", "refname", "reftype", "model", "meshdir", "texturedir", "assetdir",
             "prefix", "file", "timestep", "zfar", "znear", "memory", "iterations"]
GROUP_POOL = ["orientation", "transmission", "sensor_base", "equality_base"]
CARDS = ["?", "!", "*", "R"]


def esc(s):
    return "".join(c if (0x21 <= ord(c) <= 0x7E and c not in '\\"') else "\\u{%x}" % ord(c) for c in s)


def unesc(s):
    import re
    return re.sub(r"\\u\{([0-9a-f]+)\}", lambda m: chr(int(m.group(1), 16)), s)


def tame_num(rng, integral=False):
    """NUMBER literal: mostly plain decimals, with the float edge cases of the C41 generator mixed in."""
    r = rng.random()
    if integral or r < 0.3:
        return Num(str(rng.randint(-20, 200)))
    if r < 0.55:
        return Num("%g" % rng.uniform(-100, 100))
    if r < 0.7:
        return Num(rng.choice(["0.005", "1e-10", "0.5", "-0.25", "1e-6", "0.001", "2.5e+2", ".5", "1.", "1e15", "1e16",
                               "123456789012345.0", "999999999999999.9", "1e-5", "0.0001", "1e22", "1e21", "-0", "-0.0",
                               "0.1", "0.30000000000000004", "5e-324", "1.7976931348623157e308", "1e23", "8.5e22",
                               "9007199254740993", "4.35", "2.675", "1e-7", "100000000000000000000", "1.5e300"]))
    if r < 0.705:
        return Num(rng.choice(["1e400", "-1e400", "1e-400", "1e-400"]))
    n = c41.gen_num_text(rng)
    return n if n.text.isascii() else Num("7")


class Gen42(c41.Gen):
    """Valid schemas with a `mujoco` root and an element tree the generators can walk."""

    def __init__(self, rng, size, wild=0.05):
        super().__init__(rng, size)
        self.wild = wild      # probability of each deliberately untranslatable feature

    def name_from(self, pool, used, prefix):
        rng = self.rng
        if rng.random() < 0.45:
            cand = [n for n in pool if n not in used]
            if cand:
                n = rng.choice(cand)
                used.add(n)
                return n
        n = self.ident(prefix)
        used.add(n)
        return n

    def enum_key(self):
        rng = self.rng
        r = rng.random()
        self.counter += 1
        if r < 0.75:
            return self.ident("k")
        if r < 0.85:
            return "%d%s" % (self.counter, rng.choice(["d", "", "x"]))     # needs quoting, like "2d"
        return self.string_body().replace("\t", " ") + str(self.counter)     # arbitrary text (incl. & < > ' non-ASCII)

    def attr42(self, s, used, in_variant, ns_pool):
        rng = self.rng
        name = self.name_from(ATTR_POOL, used, rng.choice(["a", "b", "attr", "x_"]))
        a = {"name": name, "target": None, "arity": None, "default": None, "facets": []}
        fac = a["facets"]
        r = rng.random()
        if name == "name":
            r = 0.15
        elif name == "class":
            r = 0.23
        if r < 0.14 and s["enums"]:
            e = rng.choice(s["enums"])
            a["type"] = rng.choice(["enum", "enum", "enum", "flags"])
            a["target"] = e["name"]
            if a["type"] == "enum" and rng.random() < 0.6:
                k = rng.choice(e["items"])[0]
                a["default"] = ("s", k, not (k.isidentifier() and k.isascii()) or rng.random() < 0.3)
        elif r < 0.2:
            a["type"] = "id"
            a["target"] = rng.choice(ns_pool)
            self.ns_declared.add(a["target"])
        elif r < 0.27:
            a["type"] = "ref"
            a["target"] = rng.choice(ns_pool)
            self.ns_used.add(a["target"])
        else:
            ty = rng.choice(["double", "double", "double", "float", "int", "int", "bool", "string", "string", "file", "chars"])
            a["type"] = ty
            if ty == "bool":
                if rng.random() < 0.5:
                    a["default"] = ("s", rng.choice(["true", "false"]), rng.random() < 0.2)
            elif ty == "file":
                if rng.random() < 0.2:
                    a["default"] = ("s", self.string_body().replace("\t", " "), True)
            elif ty == "chars":
                a["arity"] = rng.choice([("exact", rng.randint(1, 12)), ("range", rng.randint(0, 3), rng.randint(4, 12))])
                if rng.random() < 0.3:
                    fac.append(("pattern", '"' + self.string_body().replace("\t", " ") + '"'))
            elif ty == "string":
                if rng.random() < 0.15:
                    a["arity"] = rng.choice([("any",), ("exact", rng.randint(0, 5)), ("range", 0, rng.randint(1, 5))])
                if rng.random() < 0.3:
                    a["default"] = ("s", self.string_body().replace("\t", " "), True)
                if rng.random() < 0.15:
                    fac.append(("pattern", '"' + self.string_body().replace("\t", " ") + '"'))
            else:
                kind = rng.random()
                if kind < 0.45:
                    a["arity"] = rng.choice([None, None, ("exact", 1)])
                    lo, hi = 1, 1
                elif kind < 0.7:
                    n = rng.randint(2, 9) if rng.random() < 0.9 else rng.randint(0, 1)
                    a["arity"] = ("exact", n)
                    lo, hi = n, n
                elif kind < 0.84:
                    lo = rng.randint(0, 4)
                    hi = lo + rng.randint(1, 5)
                    a["arity"] = ("range", lo, hi)
                elif kind < 0.92:
                    lo, hi = rng.randint(0, 3), None
                    sym = rng.choice(self.syms) if self.syms and rng.random() < 0.6 else self.ident("mjN")
                    if sym not in self.syms:
                        self.syms.append(sym)
                    a["arity"] = ("sym", lo, sym)
                else:
                    lo, hi = 0, None
                    a["arity"] = ("any",)
                    if rng.random() < 0.3:
                        lo = rng.randint(1, 3)
                        a["arity"] = ("raw", "[]")  # unbounded is only spelled []; keep lo = 0
                        lo = 0
                integral = ty == "int" and rng.random() < 0.9
                if rng.random() < 0.55 and (a["arity"] is None or a["arity"][0] not in ("any", "raw") or rng.random() < self.wild):
                    scalar = (lo == 1 and hi == 1)
                    top = hi if hi is not None else lo + 3
                    if scalar or (lo <= 1 and top >= 1 and rng.random() < 0.2):
                        a["default"] = ("f", tame_num(rng, integral))
                    elif top >= 1:
                        n = rng.randint(max(lo, 1), max(max(lo, 1), min(top, 8 if rng.random() < 0.97 else 12)))
                        if n >= max(lo, 1):
                            a["default"] = ("v", [tame_num(rng, integral) for _ in range(n)])
                vec_facets_ok = (lo == 1 and hi == 1) or rng.random() < self.wild
                if rng.random() < 0.3 and vec_facets_ok:
                    x, y = sorted(max(-1e300, min(1e300, tame_num(rng).f())) for _ in range(2))
                    which = rng.random()
                    if which < 0.4:
                        fac.append(("min", Num(repr(x))))
                    elif which < 0.7:
                        fac.append(("max", Num(repr(y))))
                    else:
                        fac += [("min", Num(repr(x))), ("max", Num(repr(y)))]
                    if rng.random() < 0.05 and which < 0.7:
                        fac[-1] = (fac[-1][0], True)     # a bare `min` / `max` facet is legal (True is an int)
                if rng.random() < 0.1 and vec_facets_ok:
                    fac.append(("positive", rng.choice([True, True, True, Num("1"), Num("0")])))
        if a["default"] is None and not in_variant and rng.random() < 0.15:
            fac.append(("required", True))
        elif rng.random() < 0.02:
            fac.append(("required", rng.choice([Num("0"), '""'])))   # falsy payloads
        if rng.random() < 0.08:
            fac.append(("nodefault", rng.choice([True, True, Num("0")])))
        if rng.random() < 0.06:
            fac.append(("reading", rng.choice([True, "custom", self.ident("v")])))
        if rng.random() < 0.06:
            fac.append(("writing", rng.choice([True, "custom"])))
        if rng.random() < 0.12:
            fac.append(("field", self.ident("fld") if rng.random() < 0.8 else rng.choice(self.fields or ["fld0"])))
            self.fields.append(fac[-1][1])
        rng.shuffle(fac)
        return a

    def schema(self):
        rng, size = self.rng, self.size
        s = {"enums": [], "groups": [], "elements": []}
        self.syms, self.fields = [], []
        self.ns_declared, self.ns_used = set(), set()
        for _ in range(rng.randint(0, max(1, size // 2))):
            items = []
            for _ in range(rng.randint(1, 5)):
                val = self.ident("mjC") if rng.random() < 0.6 else rng.choice([str(rng.randint(0, 9)), tame_num(rng).text])
                items.append((self.enum_key(), val))
            s["enums"].append({"name": self.ident("e"), "ctype": self.ident("mjt") if rng.random() < 0.5 else None, "items": items})
        ns_pool = [self.ident("ns") for _ in range(rng.randint(1, 3))]
        if rng.random() < 0.5:
            ns_pool.append("default")
        # groups: acyclic uses with pairwise disjoint expansions
        exp = {}
        used_attr = set()
        for gi in range(rng.randint(0, size)):
            variant = rng.random() < 0.2
            name = self.ident("g")
            if rng.random() < 0.15:
                cand = [g for g in GROUP_POOL if g not in exp]
                if cand:
                    name = rng.choice(cand)
            members, own = [], set()
            for _ in range(rng.randint(1, 4)):
                a = self.attr42(s, used_attr, variant, ns_pool)
                members.append(("attr", a))
                own.add(a["name"])
            if not variant and exp and rng.random() < 0.6:
                for h in rng.sample(sorted(exp), min(len(exp), rng.randint(1, 2))):
                    if not (exp[h] & own):
                        members.insert(rng.randint(0, len(members)), ("use", h))
                        own |= exp[h]
            direct = [m[1]["name"] for m in members if m[0] == "attr"]
            if len(direct) >= 2 and rng.random() < 0.4:
                members.append(self.constraint(direct, in_group=True))
            exp[name] = own
            s["groups"].append({"name": name, "variant": variant, "members": members})
        rng.shuffle(s["groups"])
        # element names and the child graph: element i > 0 has a parent among the earlier ones
        nel = rng.randint(1, max(2, size))
        used_el = {"mujoco"}
        names = ["mujoco"] + [self.name_from(ELEMENT_POOL, used_el, "el") for _ in range(nel - 1)]
        if "body" in names and "worldbody" not in names and rng.random() > self.wild:
            names.append("worldbody")
        aliased = {}
        children = {n: [] for n in names}
        for i, n in enumerate(names):
            if i == 0:
                continue
            parents = rng.sample(names[:i], min(i, 1 if rng.random() < 0.8 else 2))
            if n.startswith("default_") and "default" in names[:i]:
                parents = ["default"]
            if rng.random() < self.wild and i > 1:
                parents = []       # unreachable from mujoco: the XSD emitter refuses
            for p in parents:
                children[p].append(n)
            if rng.random() < 0.25:
                children[n].append(n)   # self-recursion
            if n == "worldbody" and "body" in names:
                aliased[n] = "body"
            elif rng.random() < 0.1:
                aliased[n] = rng.choice(names)
        if rng.random() < self.wild and len(names) > 2:
            a, b = rng.sample(names[1:], 2)    # a non-self cycle (when a is an ancestor of b): unbounded recursion
            children[b].append(a)
        spec_pool = []
        for n in names:
            members, have = [], set()
            local_used = set(used_attr)
            for _ in range(rng.randint(0, 6)):
                a = self.attr42(s, local_used, False, ns_pool)
                members.append(("attr", a))
                have.add(a["name"])
            for h in rng.sample(sorted(exp), min(len(exp), rng.randint(0, 2))):
                if not (exp[h] & have):
                    members.insert(rng.randint(0, len(members)), ("use", h))
                    have |= exp[h]
            seen_c = set()
            for c in children[n]:
                if c in seen_c:
                    continue
                seen_c.add(c)
                card = "R" if (c == n and rng.random() < 0.8) else rng.choice(CARDS)
                members.insert(rng.randint(0, len(members)), ("child", c, card))
            for _ in range(1 if rng.random() < 0.25 else 0):
                members.insert(0, ("const", rng.choice(self.fields) if self.fields and rng.random() < 0.3 else self.ident("f"),
                                   self.ident("mjV")))
            if len(have) >= 2 and rng.random() < 0.4:
                members.append(self.constraint(sorted(have), in_group=False))
            facets = []
            if rng.random() < 0.2:
                facets.append(("xml", rng.choice([self.ident("tag"), self.ident("tag"), '"' + self.ident("q") + '"'])))
            if n in aliased:
                facets.append(("alias", aliased[n]))
            spec = None
            if rng.random() < 0.7:
                spec = rng.choice(spec_pool) if spec_pool and rng.random() < 0.3 else self.ident(rng.choice(["mjs", "mjs", "mj"]))
                if spec not in spec_pool:
                    spec_pool.append(spec)
                if rng.random() < 0.15:
                    facets.append(("field", self.ident("sub")))
            rng.shuffle(facets)
            s["elements"].append({"name": n, "spec": spec, "facets": facets, "members": members})
        if rng.random() < 0.7:
            rng.shuffle(s["elements"])     # declaration order is observable (dict order), the root need not come first
        # every namespace referred to must be declared by some id<ns>; dm_control wants an emitted element whose FIRST
        # identifier attribute declares it
        owners = [e for e in s["elements"] if e["name"] != "mujoco"] or s["elements"]
        rng.shuffle(owners)
        for k, ns in enumerate(sorted(self.ns_used | self.ns_declared)):
            if ns in self.ns_declared and ns not in self.ns_used and rng.random() < 0.5:
                continue
            if ns in self.ns_declared and rng.random() < self.wild:
                continue
            e = owners[k % len(owners)]
            nm = "class" if (ns == "default" and "class" not in [a["name"] for a in expand(s, e["members"])]) else self.ident("n")
            e["members"].insert(0, ("attr", {"name": nm, "type": "id", "target": ns, "arity": None,
                                             "default": None, "facets": []}))
        return s


# ------------------------------------------------------------------------------------------------------
# C header matching a schema (the input of parse_spec_structs / parse_dims)
# ------------------------------------------------------------------------------------------------------
def expand(s, members, stack=()):
    out = []
    groups = {g["name"]: g for g in s["groups"]}
    for m in members:
        if m[0] == "attr":
            out.append(m[1])
        elif m[0] == "use" and m[1] in groups and m[1] not in stack:
            out += expand(s, groups[m[1]]["members"], stack + (m[1],))
    return out


def facet(fs, k, default=None):
    for kk, v in fs:
        if kk == k:
            return v
    return default


def _plain(v):
    """Source text of a facet payload -> the string the parser stores."""
    if v is True:
        return True
    if isinstance(v, Num):
        return float(v.text)
    return v.strip('"')


def field_decl(rng, a, wild):
    """(ctype, dim) of the struct field an attribute binds to; consistent with generate_read_table except with probability wild."""
    ty = a["type"]
    ar = a["arity"]
    if ar is None or ar[0] == "raw" and ar[1] != "[]":
        lo, hi = 1, 1
    elif ar[0] in ("any", "raw"):
        lo, hi = 0, None
    elif ar[0] == "exact":
        lo = hi = ar[1]
    elif ar[0] == "range":
        lo, hi = ar[1], ar[2]
    else:
        lo, hi = ar[1], ar[2]
    bad = rng.random() < wild
    if ty in ("string", "ref", "id", "file"):
        ct = "mjString*" if rng.random() < 0.85 else "mjStringVec*"
        return ("double" if bad else ct), None
    if ty == "enum":
        return ("double" if bad else rng.choice(["int", "mjtFoo", "mjtByte", "mjtBool", "mjtGeom"])), None
    if ty == "flags":
        return ("mjtByte" if bad else "int"), None
    if ty == "bool":
        return ("double" if bad else rng.choice(["mjtByte", "mjtBool", "int", "mjtSameFrame"])), None
    if ty == "chars":
        return "char", (str(hi + 1) if bad else str(hi))
    if hi is None and ar[0] != "sym":
        base = {"double": "mjDoubleVec*", "float": "mjFloatVec*", "int": "mjIntVec*"}[ty]
        return ("mjString*" if bad else base), None
    ct = "int" if ty == "int" else rng.choice(["double", "mjtNum", "float"])
    if bad and rng.random() < 0.5:
        ct = "double" if ty == "int" else "int"
        bad = False
    if lo == 1 and hi == 1:
        return ct, ("2" if bad else None)
    dim = str(hi)
    if hi == 3 and rng.random() < 0.3:
        dim = "mjNPOLY+1"
    if bad:
        dim = dim + "1"
    return ct, dim


def header_for(rng, s, groups=(), wild=0.01):
    """Text of a header declaring every bound struct and every symbolic dimension."""
    structs = {}   # spec -> {"": {field: (ctype, dim)}, sub: {...}}
    gmap = {g["name"]: g for g in s["groups"]}
    for gname, spec, _ in groups:
        fields = structs.setdefault(spec, {}).setdefault("", {})
        for m in gmap[gname]["members"]:
            if m[0] == "attr":
                f = facet(m[1]["facets"], "field")
                f = m[1]["name"] if f is None else _plain(f)
                if isinstance(f, str) and f not in fields and rng.random() > wild / 2:
                    fields[f] = field_decl(rng, m[1], wild)
    for e in s["elements"]:
        if not e["spec"]:
            continue
        sub = facet(e["facets"], "field")
        sub = _plain(sub) if sub is not None else ""
        if rng.random() < wild / 2:
            continue      # struct (or sub-struct) missing from the header
        fields = structs.setdefault(e["spec"], {}).setdefault(sub, {})
        for m in e["members"]:
            if m[0] == "const" and rng.random() > wild:
                fields.setdefault(m[1], (rng.choice(["int", "mjtSensor", "mjtByte"]) if rng.random() > wild else "double", None))
        for a in expand(s, e["members"]):
            f = facet(a["facets"], "field")
            f = a["name"] if f is None else _plain(f)
            if not isinstance(f, str) or rng.random() < wild / 2:
                continue
            if f not in fields:
                fields[f] = field_decl(rng, a, wild)
    lines = ["// synthesised for C42", "#define mjNOTDIM 7", "#define mjMINVAL 1E-15"]
    syms = set()
    for c in s["groups"] + s["elements"]:
        for m in c["members"]:
            if m[0] == "attr" and m[1]["arity"] and m[1]["arity"][0] == "sym":
                syms.add(m[1]["arity"][2])
    for sym in sorted(syms):
        if rng.random() > wild / 2:
            lines.append("#define %s %s%d" % (sym, rng.choice([" ", "  ", "\t"]), rng.randint(1, 12)))
    lines.append("")
    for spec in sorted(structs):
        lines.append("typedef struct %s_ {%s" % (spec, rng.choice(["", "  // comment"])))
        for sub in sorted(structs[spec]):
            ind = "  "
            if sub:
                lines.append("  struct {")
                ind = "    "
            for f, (ct, dim) in structs[spec][sub].items():
                star = ct.endswith("*") and rng.random() < 0.3
                decl = ind + (ct[:-1] + " *" if star else ct) + rng.choice([" ", "  "]) + f
                if dim is not None:
                    decl += "[%s]" % dim
                lines.append(decl + ";" + rng.choice(["", "  // doc", " "]))
            if sub:
                lines.append("  } %s;" % sub)
        lines.append("} %s;" % spec)
        lines.append("")
    return "\n".join(lines) + "\n"


def links_for(rng, table_rows, wild=0.03):
    """Text standing for doc/XMLreference.rst: the `.. _link:` targets generate_schema.py validates against."""
    out = ["Reference", "=========", ""]
    for link in table_rows:
        if rng.random() < wild / 10:
            continue
        out.append(".. _%s:" % link)
        out.append("")
    return "\n".join(out) + "\n"


# ------------------------------------------------------------------------------------------------------
# op lines
# ------------------------------------------------------------------------------------------------------
def ser_inputs(structs, dims):
    t = ["structs", str(len(structs))]
    for name, fields in structs.items():
        t += ["=" + esc(name), str(len(fields))]
        for f, (ct, dim) in fields.items():
            t += ["=" + esc(f), "=" + esc(ct), "-" if dim is None else "=" + esc(dim)]
    t += ["dims", str(len(dims))]
    for k, v in dims.items():
        t += ["=" + esc(k), str(v)]
    return " ".join(t)


def ser_cfg(sensors, groups):
    t = ["sensors"] + (["-"] if sensors is None else [str(len(sensors))] + ["=" + esc(x) for x in sensors])
    t += ["groups"] + (["-"] if groups is None else [str(len(groups))] + ["=" + esc(x) for g in groups for x in g])
    return " ".join(t)


def op_line(which, schema_text, hdr, inputs, cfg):
    return " ".join(["gen", which, "=" + esc(schema_text), "-" if hdr is None else "=" + esc(hdr), inputs, cfg])
