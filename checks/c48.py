"""C48  System-identification signal transforms are pure (DESIGN.md §5.C48)."""
import bisect
import json
import os
import struct

from checks import common

# this check never reads lean/MjProof/Gen: no generated-code lock needed
USES_GEN = False

META = {
    "technique": "Lean 4 proof over an arbitrary linearly ordered field (interpolation bracket lemmas, scatter/gather "
                 "extensionality for the grouped resampling) + differential correspondence of the executable model "
                 "(on IEEE doubles) with the tree's Python modules + purity oracle (buffer snapshots, aliasing, "
                 "read-only re-run) around every call of the real code",
    "text": "Model: TimeSeries as an immutable list of (time, row) samples; TimeSeries.__post_init__/interpolate(linear)/"
            "resample, apply_bias, apply_gain, apply_delay, apply_time_window, apply_delayed_ts_window, "
            "_build_per_column_delays, apply_resample_and_delay, _apply_resample_and_delay_columnwise and "
            "SignalTransform._apply_gains_biases, including the exceptions they raise. Proved for every series "
            "length/width: grouped resampling equals the column-by-column result for ANY grouping that is consistent "
            "with the per-column delays (and for the code's own dict grouping in particular); resampling at the "
            "original strictly increasing timestamps is the identity (>= 2 samples); every interpolated value lies "
            "between the two neighbouring samples; queries outside the time range return the first/last row. "
            "Purity cannot be stated about immutable Lean values: it is established on the real code on every run "
            "by snapshotting all input buffers (bytes, id, shape/strides) around each call, np.shares_memory between "
            "outputs and inputs, and a second call on read-only inputs. "
            "Python-level types: the model is over numbers, the documented meaning of an argument does not depend on its "
            "Python representation, so every op line can carry a `types` section (validated by both sides, ignored by the "
            "model) that makes the harness pass the SAME numbers as python int/float, numpy float64/float32/int64/int32 "
            "scalars, python lists vs arrays (Parameter nominal), integer-dtype arrays (ts.times, ts.data, target times, "
            "parameter values), rank-1 data, int32 / list / bare-int mapping indices (TimeSeries.create), empty dict vs "
            "None sensor_delays, int / numpy-bool predicted_data: any dtype/container coercion in the modifiers that "
            "changes the numbers (e.g. a delay table that takes its dtype from an int default) breaks the correspondence. "
            "The grouped = column-by-column clause is additionally decided on the real code against an independent "
            "reference (harness indep_columnwise: own per-column delay table built from the call's numbers, one "
            "TimeSeries.resample per one-column float64 series, exact comparison), not only against the tree's "
            "_apply_resample_and_delay_columnwise, which shares _build_per_column_delays with the code under test.",
    "note": "The linear kernel is scipy.interpolate.interp1d (library code of the venv, modelled from scipy 1.18 "
            "_call_linear/_evaluate and tied by the correspondence); np.searchsorted is modelled by its contract on "
            "sorted arrays. resample(target_dt=...), non-linear interpolation kinds, SignalTransform.apply "
            "(pipeline incl. weighted_diff/normalize) are not modelled: apply is exercised by the purity oracle only. "
            "apply_time_window returns numpy views of its input (slicing) and every modifier passes `times` through "
            "unchanged: this sharing is recorded but not counted as a violation (nothing is written). One-sample "
            "series are accepted by TimeSeries but interp1d divides 0/0 on them: theorems assume >= 2 samples and the "
            "oracle reports the NaN under its own key. Type variety deliberately left out (behaviour not fixed by the "
            "documentation): integer/float32 ts.data for bias/gain/delay/gains+biases (numpy keeps the data dtype: float "
            "results are cast back or the in-place op raises), float32 time arrays (NEP 50 keeps float32 when a python "
            "float delay is added), unsigned / bool / 0-d-array delays.",
}

THEOREMS = [
    "MjProof.C48.grouped_eq_columnwise",
    "MjProof.C48.groupByDelay_eq_columnwise",
    "MjProof.C48.resampleGroups_spec",
    "MjProof.C48.applyResampleAndDelay_eq_columnwise",
    "MjProof.C48.resample_at_original_times_id",
    "MjProof.C48.lerp_between_neighbours",
    "MjProof.C48.interp_within_global_range",
    "MjProof.C48.interp_at_sample",
    "MjProof.C48.clamp_below",
    "MjProof.C48.clamp_above",
    "MjProof.C48.applyDelay_zero_id",
    "MjProof.C48.window_times_in_range",
]

PY = "/venv/bin/python"
FN = {"resample": "resample", "bias": "apply_bias", "gain": "apply_gain", "delay": "apply_delay",
      "window": "apply_time_window", "dwindow": "apply_delayed_ts_window", "rdelay": "apply_resample_and_delay",
      "rdelaycol": "_apply_resample_and_delay_columnwise", "gb": "_apply_gains_biases", "apply": "SignalTransform.apply"}
VIEW_OPS = ("window", "dwindow")          # slicing: views by design
INTERP_OPS = ("resample", "delay", "rdelay", "rdelaycol")
RTOL = 1e-12


def hexf(x):
    return struct.pack(">d", float(x)).hex()


def unhex(t):
    if t == "nan":
        return float("nan")
    return struct.unpack(">d", bytes.fromhex(t))[0]


# ------------------------------------------------------------------ generators
def gen_times(rng, n):
    style = rng.choice(("grid", "grid", "rand", "rand", "big", "tiny", "int", "int"))
    if style == "grid":
        t = rng.randint(-40, 40) / 8.0
        out = []
        for _ in range(n):
            out.append(t)
            t += rng.randint(1, 12) / 8.0
    elif style == "int":
        t = float(rng.randint(-5, 5))
        out = []
        for _ in range(n):
            out.append(t)
            t += float(rng.randint(1, 3))
    else:
        scale, off = {"rand": (1.0, rng.uniform(-5, 5)), "big": (0.01, 1e6 + rng.uniform(0, 10)), "tiny": (1e-9, 0.0)}[style]
        t = off
        out = []
        for _ in range(n):
            out.append(t)
            t = t + scale * rng.uniform(1e-3, 1.0)
        if any(b <= a for a, b in zip(out, out[1:])):   # rounding collapsed a step: fall back
            return gen_times(rng, n)
    return out, style


def gen_mapping(rng, m):
    cols = list(range(m))
    rng.shuffle(cols)
    mapping = []
    k = 0
    while cols:
        w = min(len(cols), rng.choice((1, 1, 2, 2, 3, 4)))
        idx, cols = cols[:w], cols[w:]
        if rng.random() < 0.4:
            idx.sort()
        if rng.random() < 0.15:
            continue                     # some columns belong to no named signal
        mapping.append(("s%d" % k, idx))
        k += 1
    if rng.random() < 0.08:
        mapping.append(("s%d" % k, []))  # a signal without columns
    if not mapping:
        mapping.append(("s0", [rng.randrange(m)] if m else []))
    rng.shuffle(mapping)
    return mapping


def gen_series(ctx, rng, allow_bad=True, nmin=0):
    r = rng.random()
    if r < 0.015 and nmin == 0:
        n = 0
    elif r < 0.07:
        n = max(1, nmin)
    elif r < 0.17:
        n = 2
    elif r < 0.85:
        n = rng.randint(3, 9)
    else:
        n = rng.randint(10, 48 if ctx.tier == "thorough" else 28)
    n = max(n, nmin)
    m = rng.choice((1, 1, 1, 2, 2, 3, 3, 4, 5, 6, 8))
    times, tstyle = gen_times(rng, n)
    bad = None
    if allow_bad and n >= 2 and rng.random() < 0.03:
        i = rng.randrange(n - 1)
        if rng.random() < 0.5:
            times[i + 1] = times[i]
        else:
            times[i], times[i + 1] = times[i + 1], times[i]
        bad = "times"
    dstyle = rng.choice(("unif", "unif", "int", "const", "large", "small"))
    if dstyle == "unif":
        data = [rng.uniform(-10, 10) for _ in range(n * m)]
    elif dstyle == "int":
        data = [float(rng.randint(-9, 9)) for _ in range(n * m)]
    elif dstyle == "const":
        cs = [rng.uniform(-3, 3) for _ in range(m)]
        data = [cs[j] for _ in range(n) for j in range(m)]
    elif dstyle == "large":
        data = [rng.uniform(-1e6, 1e6) for _ in range(n * m)]
    else:
        data = [rng.uniform(-1e-6, 1e-6) for _ in range(n * m)]
    mapping = gen_mapping(rng, m)
    if allow_bad and rng.random() < 0.02:
        k = rng.randrange(len(mapping))
        mapping[k] = (mapping[k][0], mapping[k][1] + [m + rng.randint(0, 2)])
        bad = bad or "index"
    lay = rng.choice(("c", "c", "f", "v"))
    return {"n": n, "m": m, "lay": lay, "times": times, "data": data, "mapping": mapping, "tstyle": tstyle, "bad": bad}


def series_str(s):
    return "%d %d %s ; %s ; %s ; %s" % (
        s["n"], s["m"], s["lay"], " ".join(hexf(x) for x in s["times"]), " ".join(hexf(x) for x in s["data"]),
        " ".join("%s:%s" % (nm, ",".join(map(str, ix))) for nm, ix in s["mapping"]))


def gen_delay(rng, s):
    span = (s["times"][-1] - s["times"][0]) if s["n"] >= 2 else 1.0
    k = rng.random()
    if k < 0.15:
        return 0.0
    if k < 0.45:
        return rng.randint(-16, 16) / 8.0
    if k < 0.7:
        return rng.uniform(-0.5, 0.5) * span
    if k < 0.85:
        return rng.choice((-1, 1)) * span * rng.uniform(1.0, 3.0)   # larger than the span
    if k < 0.93:
        return rng.choice((-1, 1)) * span * 1e-9
    return rng.choice((-1.0, 1.0)) * float(rng.randint(1, 3))


def gen_newtimes(rng, s):
    n, ts = s["n"], s["times"]
    if n == 0:
        return [0.0, 1.0], "any"
    span = (ts[-1] - ts[0]) if n >= 2 else 1.0
    if abs(ts[0]) < 1e5 and abs(ts[-1]) < 1e5 and rng.random() < 0.12:      # whole numbers (can be passed as an integer array)
        lo, hi = int(ts[0]) - 2, int(ts[-1]) + 2
        return [float(x) for x in sorted({rng.randint(lo, hi) for _ in range(rng.randint(1, 6))})], "whole"
    k = rng.random()
    if k < 0.14:
        return list(ts), "original"
    if k < 0.24:
        d = rng.randint(-8, 8) / 8.0
        return [t + d for t in ts], "shifted"
    if k < 0.34 and n >= 2:
        return [0.5 * (a + b) for a, b in zip(ts, ts[1:])], "midpoints"
    if k < 0.40:
        c = rng.randint(1, 4)
        return sorted({ts[0] - span * rng.uniform(0.01, 2) - 1e-3 for _ in range(c)}), "below"
    if k < 0.46:
        c = rng.randint(1, 4)
        return sorted({ts[-1] + span * rng.uniform(0.01, 2) + 1e-3 for _ in range(c)}), "above"
    if k < 0.50:
        return [rng.choice(ts)], "single-hit"
    if k < 0.53:
        return [], "empty"
    if k < 0.56:
        c = rng.randint(2, 5)
        q = [rng.uniform(ts[0] - span, ts[-1] + span) for _ in range(c)]
        i = rng.randrange(c - 1)
        q.sort()
        q[i + 1] = q[i] if rng.random() < 0.5 else q[i] - 0.25
        return q, "not-increasing"
    c = rng.randint(1, 2 * n + 3)
    q = {rng.uniform(ts[0] - 0.3 * span - 0.1, ts[-1] + 0.3 * span + 0.1) for _ in range(c)}
    for _ in range(rng.randint(0, 3)):
        q.add(rng.choice(ts))          # exact hits among generic queries
    return sorted(q), "mixed"


def pick_name(rng, s, badp=0.03):
    if rng.random() < badp:
        return "nosuch"
    return rng.choice(s["mapping"])[0]


def gen_values(rng, k, badp=0.04):
    r = rng.random()
    if r < badp:
        j = rng.choice([x for x in (0, 2, 3, k + 1) if x != k and x != 1])
    elif r < 0.4 or k == 0:
        j = 1
    else:
        j = k
    style = rng.random()
    return [0.0 if style < 0.1 else 1.0 if style < 0.2 else rng.uniform(-4, 4) for _ in range(j)]


def gen_entries(rng, s, lo=0, hi=3):
    ents = []
    for _ in range(rng.randint(lo, hi)):
        pat = "*" if rng.random() < 0.25 else ("nomatch" if rng.random() < 0.1 else rng.choice(s["mapping"])[0])
        target = rng.choice(("predicted", "measured", "both"))
        if pat == "*":
            vals = [rng.uniform(-3, 3)]
        else:
            k = len(dict(s["mapping"]).get(pat, []))
            vals = gen_values(rng, k, badp=0.02)
        ents.append("%s %s %s" % (pat, target, " ".join(hexf(v) for v in vals)))
    return " , ".join(ents)


# ---- python-level representation tags (the `types` section; rules mirrored by lean/Drivers/C48.lean and the harness)
INT_MAX = 2147483647.0
DATA_I64_OPS = ("resample", "rdelay", "rdelaycol", "window", "dwindow")
DATA_1D_OPS = ("resample", "window", "dwindow")
TYPE_HIST = {}


def is_integral(x):
    return x == x and abs(x) != float("inf") and x == float(int(x)) and abs(x) <= INT_MAX


def is_f32(x):
    if x != x or abs(x) == float("inf"):
        return False
    try:
        return struct.unpack("f", struct.pack("f", x))[0] == x
    except OverflowError:
        return False


def pick_scalar_tag(rng, x):
    if is_integral(x) and rng.random() < 0.6:
        return rng.choice(("int", "int", "npi64", "npi32"))
    c = ["float", "npf64"] + (["npf32"] if is_f32(x) else [])
    return rng.choice(c)


def pick_value_tag(rng, v):
    integral = all(is_integral(x) for x in v)
    if integral and rng.random() < 0.5:
        return rng.choice(["ilist", "i64"] + (["int", "int"] if len(v) == 1 else []))
    c = ["arr", "list"] + (["f32"] if all(is_f32(x) for x in v) else []) + (["float", "npf64"] if len(v) == 1 else [])
    return rng.choice(c)


def pick_array_tag(rng, xs, view=True):
    if xs and all(is_integral(x) for x in xs) and rng.random() < 0.7:
        return "i64"
    return "view" if view and rng.random() < 0.25 else "f64"


def entry_values(entries):
    """the value lists of a gen_entries() string"""
    return [[unhex(w) for w in e.split()[2:]] for e in entries.split(",")] if entries.strip() else []


def gen_types(rng, op, s, **vals):
    """The `types` section for one op line: how the harness hands the numbers of the line to the real code.  About a
    third of the lines carry none (every argument in its default representation: float64 arrays, python floats)."""
    whole = bool(s["times"]) and all(is_integral(x) for x in s["times"])      # integer dtypes possible: tag more often
    if rng.random() < (0.15 if whole else 0.35):
        TYPE_HIST["(none)"] = TYPE_HIST.get("(none)", 0) + 1
        return ""
    t = []
    if op in DATA_1D_OPS and s["m"] == 1 and rng.random() < 0.4:
        t.append(("data", "1d"))
    elif op in DATA_I64_OPS and all(is_integral(x) for x in s["data"]) and rng.random() < 0.6:
        t.append(("data", "i64"))
    if s["times"] and all(is_integral(x) for x in s["times"]) and rng.random() < 0.7:
        t.append(("tsd", "i64"))
    if rng.random() < 0.5:
        t.append(("idx", rng.choice(("i32", "list", "int"))))
    for k in ("nt", "t2"):
        if k in vals:
            tag = pick_array_tag(rng, vals[k], view=(k == "nt"))
            if tag != "f64":
                t.append((k, tag))
    if "v" in vals and rng.random() < 0.8:
        t.append(("v", pick_value_tag(rng, vals["v"])))
    for k in ("gv", "bv"):
        if vals.get(k) and rng.random() < 0.8:
            t.append((k, ",".join(pick_value_tag(rng, v) for v in vals[k])))
    for k in ("dflt", "lo", "hi"):
        if k in vals and rng.random() < 0.8:
            t.append((k, pick_scalar_tag(rng, vals[k])))
    if vals.get("sd") and rng.random() < 0.85:
        t.append(("sd", ",".join(pick_scalar_tag(rng, d) for d in vals["sd"])))
    if "sd" in vals and rng.random() < 0.3:
        t.append(("sdc", "dict"))
    if "pred" in vals and rng.random() < 0.4:
        t.append(("pred", rng.choice(("int", "npbool"))))
    if "dv" in vals and rng.random() < 0.7:
        t.append(("dv", rng.choice(["arr", "list", "float", "npf64"] + (["f32"] if all(is_f32(x) for x in vals["dv"]) else []))))
    for k, tag in t:
        for x in tag.split(","):
            TYPE_HIST["%s=%s" % (k, x)] = TYPE_HIST.get("%s=%s" % (k, x), 0) + 1
    return " | types " + " ".join("%s=%s" % kt for kt in t) if t else ""


def gen_lines(ctx, rng, count):
    lines, hist = [], {}
    ops = ["resample"] * 4 + ["bias", "gain"] * 2 + ["delay"] * 4 + ["window", "window", "window", "dwindow"] + ["rdelay"] * 4 + ["gb"] * 2

    def add(l, tag):
        lines.append(l)
        hist[tag] = hist.get(tag, 0) + 1

    for _ in range(count):
        op = rng.choice(ops)
        s = gen_series(ctx, rng)
        S = series_str(s)
        shape = "n=%s" % (s["n"] if s["n"] <= 2 else "3-9" if s["n"] <= 9 else "10+")
        if op == "resample":
            nt, kind = gen_newtimes(rng, s)
            add("resample %s | %s%s" % (S, " ".join(hexf(x) for x in nt), gen_types(rng, op, s, nt=nt)), "resample:%s:%s" % (kind, shape))
        elif op in ("bias", "gain"):
            name = pick_name(rng, s)
            k = len(dict(s["mapping"]).get(name, []))
            v = gen_values(rng, k)
            add("%s %s | %s | %s%s" % (op, S, name, " ".join(hexf(x) for x in v), gen_types(rng, op, s, v=v)), "%s:%s" % (op, shape))
        elif op == "delay":
            name = pick_name(rng, s)
            d = gen_delay(rng, s)
            kind = "zero" if d == 0 else ("neg" if d < 0 else "pos") + (">span" if s["n"] >= 2 and abs(d) > s["times"][-1] - s["times"][0] else "")
            add("delay %s | %s | %s%s" % (S, name, hexf(d), gen_types(rng, op, s, v=[d])), "delay:%s:%s" % (kind, shape))
        elif op == "window":
            ts = s["times"] or [0.0]
            def pt():
                r = rng.random()
                if r < 0.3:
                    return rng.choice(ts)
                if r < 0.42:
                    return rng.choice(ts) + rng.choice((-1, 1)) * rng.randint(1, 7) / 8.0    # just beside a sample
                if r < 0.5:
                    return float(rng.randint(int(ts[0]) - 2, int(ts[-1]) + 2))   # a whole number
                if r < 0.8:
                    return rng.uniform(ts[0] - 1, ts[-1] + 1)
                return rng.choice((ts[0] - 5, ts[-1] + 5))
            a, b = pt(), pt()
            if a > b and rng.random() < 0.8:
                a, b = b, a
            add("window %s | %s %s%s" % (S, hexf(a), hexf(b), gen_types(rng, op, s, lo=a, hi=b)), "window:%s" % shape)
        elif op == "dwindow":
            s2 = gen_series(ctx, rng, allow_bad=False, nmin=1)
            if s["n"] >= 1 and rng.random() < 0.7:      # overlapping time bases, like predicted/measured
                off = s["times"][0] - s2["times"][0] + rng.randint(-4, 4) / 8.0
                t2 = [t + off for t in s2["times"]]
                if any(b <= a for a, b in zip(t2, t2[1:])):
                    t2 = s2["times"]
            else:
                t2 = s2["times"]
            a, b = sorted((rng.randint(-8, 8) / 8.0, rng.randint(-8, 8) / 8.0))
            if rng.random() < 0.06:
                a, b = b + 0.5, a
            add("dwindow %s | %s | %s %s%s" % (S, " ".join(hexf(x) for x in t2), hexf(a), hexf(b), gen_types(rng, op, s, t2=t2, lo=a, hi=b)),
                "dwindow:%s" % shape)
        elif op == "rdelay":
            nt, kind = gen_newtimes(rng, s)
            pool = [gen_delay(rng, s) for _ in range(rng.randint(1, 3))] + [0.0]
            dflt = rng.choice(pool)
            if rng.random() < 0.3:
                # whole-number and fractional delays side by side (default vs per-sensor, either way round): the numbers an
                # int-typed argument can carry next to ones it cannot -- container/dtype coercions show up here
                whole, frac = float(rng.randint(-2, 2)), (2 * rng.randint(-12, 11) + 1) / 16.0
                pool = [whole, frac] + ([gen_delay(rng, s)] if rng.random() < 0.4 else [])
                dflt = whole if rng.random() < 0.6 else frac
            names = [nm for nm, _ in s["mapping"]]
            rng.shuffle(names)
            sd = [(nm, rng.choice(pool)) for nm in names[:rng.randint(0, len(names))]]
            if rng.random() < 0.03:
                sd.append(("nosuch", 0.5))
            pred = rng.choice("01")
            tail = "%s | %s | %s | %s | %s%s" % (S, " ".join(hexf(x) for x in nt), hexf(dflt),
                                                 " ".join("%s=%s" % (nm, hexf(d)) for nm, d in sd), pred,
                                                 gen_types(rng, op, s, nt=nt, dflt=dflt, sd=[d for _, d in sd], pred=pred))
            ngroups = len({(-d if pred == "1" else d) for d in [dflt] + [d for _, d in sd]})
            add("rdelay " + tail, "rdelay:%s:%s:groups<=%d" % (kind, shape, ngroups))
            add("rdelaycol " + tail, "rdelaycol:%s" % shape)
        else:
            label = rng.choice(("predicted", "measured"))
            ge, be = gen_entries(rng, s), gen_entries(rng, s)
            add("gb %s | %s | %s | %s%s" % (S, label, ge, be, gen_types(rng, op, s, gv=entry_values(ge), bv=entry_values(be))), "gb:%s" % shape)
    lines.append("frob 1 1 c ; 0000000000000000 ; 0000000000000000 ; s0:0 | 1")   # malformed op: both sides must reject
    lines.append("resample 1 1 c ; 0000000000000000 ; zz ; s0:0 | ")
    # malformed / inconsistent `types` sections: both sides must reject (a tag must represent its value exactly)
    one = "2 1 c ; %s %s ; %s %s ; s0:0" % (hexf(0.0), hexf(1.0), hexf(1.0), hexf(2.5))
    rd = "rdelay %s | %s | %s | s0=%s | 1" % (one, hexf(0.5), hexf(0.5), hexf(0.1))
    for bad in ("types dflt=int", "types sd=npf32", "types sd=float,float", "types dflt=float dflt=float", "types v=arr",
                "types data=i64", "types dflt=complex", "types dflt", "types tsd=view"):
        lines.append(rd + " | " + bad)
    lines.append("bias %s | s0 | %s | types data=1d" % (one, hexf(1.0)))
    lines.append("delay %s | s0 | %s | types v=int" % (one, hexf(0.5)))
    return lines, hist


def gen_apply_lines(ctx, rng, count):
    """Oracle-only stream: SignalTransform.apply on a predicted/measured pair (purity of both inputs and all parameters)."""
    lines = []
    for _ in range(count):
        sp = gen_series(ctx, rng, allow_bad=False, nmin=2)
        sm = dict(sp)
        n2 = rng.randint(2, 12)
        t0, t1 = sp["times"][0], sp["times"][-1]
        step = (t1 - t0) / (n2 + 1)
        sm["times"] = [t0 + step * (i + 1) * rng.uniform(0.9, 1.0) for i in range(n2)]
        if any(b <= a for a, b in zip(sm["times"], sm["times"][1:])):
            continue
        sm["n"] = n2
        sm["data"] = [rng.uniform(-5, 5) for _ in range(n2 * sp["m"])]
        sm["lay"] = rng.choice(("c", "f", "v"))
        dl = []
        for k in range(rng.randint(0, 2)):
            pat = "*" if rng.random() < 0.3 else rng.choice(sp["mapping"])[0]
            v = rng.uniform(-0.2, 0.2) * step
            dl.append("%s:d%d:%s:%s:%s" % (pat, k, hexf(v), hexf(v - abs(step) * 0.1), hexf(v + abs(step) * 0.1)))
        ge, be = gen_entries(rng, sp, 0, 2), gen_entries(rng, sp, 0, 2)
        ty = gen_types(rng, "apply", {"m": sp["m"], "data": [0.5], "times": [0.5]}, gv=entry_values(ge), bv=entry_values(be),
                       **({"dv": [unhex(x.split(":")[2]) for x in dl]} if dl else {}))
        lines.append("apply %s | %s | %s | %s | %s | %s%s" % (series_str(sp), series_str(sm), " , ".join(dl), ge, be, rng.choice("01"), ty))
    return lines


# ------------------------------------------------------------------ parsing for the oracle
def parse_series(sec):
    p = [x.strip() for x in sec.split(";")]
    hd = p[0].split()
    n, m = int(hd[-3]), int(hd[-2])
    ts = [unhex(w) for w in p[1].split()]
    ds = [unhex(w) for w in p[2].split()]
    mp = []
    for w in p[3].split():
        nm, ix = w.split(":")
        mp.append((nm, [int(x) for x in ix.split(",")] if ix else []))
    return n, m, ts, [ds[i * m:(i + 1) * m] for i in range(n)], mp


def parse_ok(out):
    p = [x.strip() for x in out.split(";")]
    hd = p[0].split()
    n, m = int(hd[1]), int(hd[2])
    ts = [unhex(w) for w in p[1].split()]
    ds = p[2].split() if len(p) > 2 else []
    return n, m, ts, ds


def in_neighbour_range(X, col, q, v):
    """None if v is an admissible linear-interpolation value of column `col` at q, else a description."""
    n = len(X)
    if q < X[0]:
        return None if v == col[0] else "query below the first timestamp must return the first row"
    if q > X[-1]:
        return None if v == col[-1] else "query above the last timestamp must return the last row"
    i = bisect.bisect_left(X, q)
    for k in (i - 1, i):
        if 0 <= k and k + 1 < n and X[k] <= q <= X[k + 1]:
            lo, hi = min(col[k], col[k + 1]), max(col[k], col[k + 1])
            tol = RTOL * max(abs(lo), abs(hi))
            if lo - tol <= v <= hi + tol:
                return None
    return "interpolated value outside the range of the two neighbouring samples"


def column_delays(m, mp, dflt, sd, pred):
    d = [dflt] * m
    mpd = dict(mp)
    for nm, v in sd:
        for i in mpd[nm]:
            d[i] = v
    return [-x for x in d] if pred else d


def oracle(line, facts):
    """Property oracle on what the real code did. Returns list of (key, what)."""
    out = facts.get("out", "")
    if out == "bad-op":
        return []
    op = facts["op"]
    fn = FN[op]
    res = []
    if facts.get("construct_error"):
        return res
    if facts["mutated"]:
        res.append(("c48:%s-mutates-input" % fn, "%s changed the bytes of its input array(s) %s" % (fn, ", ".join(facts["mutated"]))))
    elif facts["ro_write"]:
        res.append(("c48:%s-mutates-input" % fn, "%s writes into an input array (fails on read-only inputs)" % fn))
    else:
        bad_alias = [a for a in facts["alias"] if a[0].startswith("out") and a[0].split(" ")[0].endswith("data") and a[1].endswith(".data")]
        if bad_alias and op not in VIEW_OPS:
            res.append(("c48:%s-mutates-input" % fn, "%s returns data that shares memory with the input's data buffer: %s" % (fn, bad_alias)))
    if facts["rebound"]:
        res.append(("c48:%s-rebinds-input" % fn, "%s replaced attribute(s) %s of an input object" % (fn, facts["rebound"])))
    secs = [s.strip() for s in line.split("|")]
    if op != "apply":
        n, m, X, rows, mp = parse_series(secs[0])
        if facts["self_id"] == "nan" and n == 1:
            res.append(("c48:single-sample-resample-nan", "a one-sample TimeSeries resampled at its own timestamp returns NaN instead of its data"))
        elif facts["self_id"] in ("ne", "nan"):
            res.append(("c48:resample-at-original-times-not-identity", "ts.resample(ts.times).data != ts.data (%s)" % facts["self_id"]))
    if facts.get("colwise_equal") is False:
        res.append(("c48:grouped-ne-columnwise", "apply_resample_and_delay differs from _apply_resample_and_delay_columnwise"))
    elif str(facts.get("indep_colwise") or "").startswith("ne"):
        res.append(("c48:grouped-ne-columnwise", "apply_resample_and_delay differs from the independent column-by-column resampling "
                    "(own per-column delay table from the call's arguments, one TimeSeries.resample per column): %s" % facts["indep_colwise"]))
    elif str(facts.get("indep_colwise") or "").startswith("raised"):
        res.append(("c48:grouped-raises-columnwise-ok", "apply_resample_and_delay %s on arguments for which the column-by-column "
                    "resampling is well defined" % facts["indep_colwise"]))
    if facts.get("ref_equal") is False:
        res.append(("c48:gains-biases-ne-reference", "_apply_gains_biases differs from _apply_gains_biases_reference"))
    if not out.startswith("ok "):
        return res
    if op in INTERP_OPS and n >= 2:
        on, om, ot, od = parse_ok(out)
        if op == "resample":
            q = [[t] * m for t in ot]
            cols = range(m)
        elif op == "delay":
            d = unhex(secs[2].split()[0])
            cols = dict(mp)[secs[1].split()[0]]
            q = [[t - d] * m for t in X]
        else:
            dflt = unhex(secs[2].split()[0])
            sd = [(w.split("=")[0], unhex(w.split("=")[1])) for w in secs[3].split()]
            dl = column_delays(m, mp, dflt, sd, secs[4].split()[0] == "1")
            q = [[t + dl[c] for c in range(m)] for t in ot]
            cols = range(m)
        if om == m and on == len(q) and len(od) == on * m:
            for r in range(on):
                for c in cols:
                    tok = od[r * m + c]
                    why = "uninitialised or NaN output cell" if tok in ("uninit", "nan") else \
                        in_neighbour_range(X, [row[c] for row in rows], q[r][c], unhex(tok))
                    if why:
                        res.append(("c48:interpolation-outside-neighbour-range", "%s: row %d col %d query %r: %s" % (fn, r, c, q[r][c], why)))
                        return res
            if op == "delay":
                for r in range(on):
                    for c in range(m):
                        if c not in cols and unhex(od[r * m + c]) != rows[r][c]:
                            res.append(("c48:apply_delay-touches-other-columns", "row %d col %d changed" % (r, c)))
                            return res
        else:
            res.append(("c48:wrong-output-shape", "%s returned shape (%d,%d)" % (fn, on, om)))
    if op in ("window", "dwindow") and n >= 1:
        on, om, ot, od = parse_ok(out)
        if op == "window":
            lo, hi = [unhex(w) for w in secs[1].split()]
        else:
            t2 = [unhex(w) for w in secs[1].split()]
            dmin, dmax = [unhex(w) for w in secs[2].split()]
            lo, hi = t2[0] - dmin, t2[-1] - dmax
        want = [i for i in range(n) if lo <= X[i] <= hi]
        got_rows = [[unhex(x) for x in od[r * m:(r + 1) * m]] for r in range(on)]
        if ot != [X[i] for i in want] or got_rows != [rows[i] for i in want]:
            res.append(("c48:window-wrong-selection", "%s did not return exactly the samples with min_t <= t <= max_t (%r, %r)" % (fn, lo, hi)))
    return res


# ------------------------------------------------------------------ comparison model vs implementation
class Cmp:
    def __init__(self):
        self.maxrel = 0.0
        self.nfloat = 0
        self.nbitwise = 0

    def __call__(self, a, b):
        if a == b:
            if a.startswith("ok "):
                k = len(a.split()) - 5
                self.nfloat += k
                self.nbitwise += k
            return True
        if not (a.startswith("ok ") and b.startswith("ok ")):
            return False
        ta, tb = a.split(), b.split()
        if len(ta) != len(tb) or ta[:3] != tb[:3]:
            return False
        va = [unhex(t) for t in ta[3:] if t not in (";", "uninit", "nan")]
        scale = max([abs(v) for v in va] + [1.0])
        for x, y in zip(ta[3:], tb[3:]):
            if x == y:
                if x != ";":
                    self.nfloat += 1
                    self.nbitwise += 1
                continue
            if x in (";", "uninit", "nan") or y in (";", "uninit", "nan"):
                return False
            fx, fy = unhex(x), unhex(y)
            self.nfloat += 1
            if fx == fy:          # +0.0 / -0.0
                continue
            rel = abs(fx - fy) / scale
            self.maxrel = max(self.maxrel, rel)
            if rel > RTOL:
                return False
        return True


def keyf(line):
    try:
        return line if int(line.split()[1]) >= 2 else None
    except (ValueError, IndexError):
        return None


def describe(line):
    """A readable replay: shape, mapping, arguments."""
    try:
        secs = [s.strip() for s in line.split("|")]
        n, m, X, rows, mp = parse_series(secs[0])
        d = {"op": line.split()[0], "shape": [n, m], "layout": secs[0].split(";")[0].split()[-1], "times": X,
             "data_rows": rows, "signal_mapping": dict(mp)}
        op = d["op"]
        if secs[-1].split()[:1] == ["types"]:
            d["python_types"] = dict(w.split("=") for w in secs[-1].split()[1:])
            secs = secs[:-1]
        if op in ("bias", "gain", "delay"):
            d["sensor_name"] = secs[1]
            d["delay" if op == "delay" else "value"] = [unhex(w) for w in secs[2].split()]
        elif op in ("rdelay", "rdelaycol", "resample"):
            d["times_arg"] = [unhex(w) for w in secs[1].split()]
            if op != "resample":
                d["default_delay"] = unhex(secs[2].split()[0])
                d["sensor_delays"] = {w.split("=")[0]: unhex(w.split("=")[1]) for w in secs[3].split()}
                d["predicted_data"] = secs[4].split()[0] == "1"
        elif op == "window":
            d["min_t"], d["max_t"] = [unhex(w) for w in secs[1].split()]
        elif op == "dwindow":
            d["ts_delayed_times"] = [unhex(w) for w in secs[1].split()]
            d["min_delay"], d["max_delay"] = [unhex(w) for w in secs[2].split()]
        elif op == "gb":
            d["target_label"], d["gains"], d["biases"] = secs[1], secs[2], secs[3]
        return d
    except Exception:
        return {"line": line[:400]}


def run_oracle(ctx, impl_facts, lines, report=True):
    rc, outs, err = ctx.run_lines(impl_facts, lines)
    found = []
    if rc != 0 or len(outs) != len(lines):
        if report:
            ctx.oblige("c48 harness (facts mode) ran to completion", "impl-run", False, "rc=%s %s" % (rc, err[-800:]))
        return found, None
    per_key = {}
    stats = {"calls": 0, "times_passed_through": 0, "window_views": 0, "construct_errors": 0, "ok": 0, "errors": 0}
    for l, o in zip(lines, outs):
        facts = json.loads(o)
        if facts.get("out") == "bad-op":
            continue
        stats["calls"] += 1
        stats["construct_errors"] += 1 if facts.get("construct_error") else 0
        stats["ok" if facts["out"].startswith("ok") else "errors"] += 1
        if any(a[0].endswith("times") and a[1].endswith(".times") for a in facts["alias"]):
            stats["times_passed_through"] += 1
        if facts["op"] in VIEW_OPS and any(a[1].endswith(".data") for a in facts["alias"]):
            stats["window_views"] += 1
        for key, what in oracle(l, facts):
            per_key[key] = per_key.get(key, 0) + 1
            f = {"key": key, "what": what,
                 "replay": {"line": l, "decoded": describe(l), "facts": {k: v for k, v in facts.items() if k != "out"},
                            "impl_output": facts["out"][:2000],
                            "how": "echo '<line>' | %s %s/harness/py/c48_signal.py $VERIF_REPO --facts" % (PY, common.VERIF)}}
            found.append(f)
            if report and per_key[key] <= 3:
                ctx.oracle_failure(key, what, f["replay"])
    if report:
        ctx.extra["oracle_calls"] = stats
        ctx.extra["oracle_failures_by_key"] = per_key
    return found, outs


def run(ctx):
    ctx.rule = ("op lines: a generated series (0..48 samples incl. 1 and 2, 1..8 columns, C/Fortran/strided-view layout, "
                "exact-grid / random / large-offset / tiny-scale timestamps, unsorted and partial signal mappings, rare invalid "
                "inputs for the error paths) and one modifier call (resample, bias, gain, delay incl. 0 / negative / larger "
                "than the span, whole-number next to fractional delays, window, delayed window, grouped and column-wise "
                "resample-and-delay, gains+biases) plus, on about two thirds of the lines, a `types` section choosing the "
                "Python-level representation of every argument among those that hold its value exactly (distribution in "
                "python_type_tag_distribution); a case is distinct by its full line; non-trivial = at least 2 samples")
    ctx.lean_props(THEOREMS)
    drv = ctx.driver("drv_c48")
    hsrc = os.path.join(common.VERIF, "harness", "py", "c48_signal.py")
    impl = [PY, hsrc, common.REPO]
    impl_facts = impl + ["--facts"]
    thorough = ctx.tier == "thorough"
    TYPE_HIST.clear()
    lines, hist = gen_lines(ctx, ctx.rng, 24000 if thorough else 1600)
    ctx.extra["op_distribution"] = dict(sorted(hist.items()))
    apply_lines = gen_apply_lines(ctx, ctx.rng, 3000 if thorough else 250)
    ctx.extra["python_type_tag_distribution"] = dict(sorted(TYPE_HIST.items()))

    def directed(c):
        rng2 = __import__("random").Random(c.seed * 7919 + 48)
        more, _ = gen_lines(c, rng2, 6000)
        found, _ = run_oracle(c, impl_facts, more + gen_apply_lines(c, rng2, 500), report=False)
        return found[0] if found else None
    ctx.directed_search = directed

    if drv:
        # which variant of TimeSeries.interpolate does the tree have? (model header: `hold`)
        probe = "resample 1 1 c ; %s ; %s ; s0:0 | %s" % (hexf(1.0), hexf(2.0), hexf(1.0))
        rc, po, perr = ctx.run_lines(impl, [probe])
        got = po[0] if rc == 0 and po else "<rc=%s %s>" % (rc, perr[-300:])
        variant = {"ok 1 1 ; %s ; nan" % hexf(1.0): "asfound", "ok 1 1 ; %s ; %s" % (hexf(1.0), hexf(2.0)): "hold"}.get(got)
        ctx.oblige("one-sample interpolate is one of the two modelled variants", "correspondence", variant is not None, got)
        ctx.extra["model_variant_matching_the_code"] = {
            "interpolate_one_sample": variant or "unrecognised",
            "meaning": "asfound = interp1d on a single point (0/0 -> NaN at the sample time); hold = the sample is held constant"}
        cmp = Cmp()
        ctx.differential("sysid signal modifiers vs Lean model (floats: bitwise or <= 1e-12 of the data scale)",
                         [drv, variant or "asfound"], impl, lines, keyf=keyf, cmp=cmp)
        ctx.extra["float_cells_compared"] = cmp.nfloat
        ctx.extra["float_cells_bitwise_equal"] = cmp.nbitwise
        ctx.extra["max_relative_deviation"] = cmp.maxrel
        ctx.extra["tolerance"] = RTOL
    found, outs = run_oracle(ctx, impl_facts, lines + apply_lines)
    ctx.extra["oracle_checked"] = len(lines) + len(apply_lines)
    if outs:
        for i in (3, 11, 19):
            if i < len(lines):
                f = json.loads(outs[i])
                ctx.sample({"op": lines[i][:300] + (" ..." if len(lines[i]) > 300 else ""), "impl_output": f.get("out", "")[:200],
                            "facts": {k: f.get(k) for k in ("mutated", "alias", "ro_write", "self_id", "colwise_equal", "ref_equal")}})
    if thorough:
        ctx.leanchecker(["MjProof.Props.C48"])
