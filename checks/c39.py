"""C39  Virtual file system operations have set semantics (DESIGN.md §5.C39)."""
import itertools
import json
import os
import shutil
import stat as statmod
import tempfile

from . import common

# this check never reads lean/MjProof/Gen: no generated-code lock needed
USES_GEN = False

META = {
    "technique": "Lean 4 proof (refinement of every operation history to the abstract map Name -> Option Bytes, by induction on the history) + exact differential correspondence with the tree's VFS / FilePath code",
    "text": "Model of FilePath normalisation (AbsPrefix, PathReduce, Combine, StripPath, Lower) and of the VFS mount table with mj_addBufferVFS / mj_addFileVFS / mj_deleteFileVFS (incl. lower-cased fall-back) / mj_containsBufferVFS / mj_containsFileVFS / mju_openResource+read (FindMount: exact, directory-prefix, legacy basename match, default provider over an explicit disk table). Proved for all histories: refinement to the abstract spec modulo the key the API computes; a name is present iff some add for its key returned 0 and no later delete/reset removed it; re-add returns 2 and changes nothing; a read of a present name returns exactly the stored bytes; a delete fails iff neither the normalised name nor its lower-cased basename is present. The model has two marked variant switches (contains lookup raw/normalised, FindMount exact-first/loop-only); the check probes the real code and compares against the matching variant; each theorem carries exactly the switch it needs as a hypothesis (state refinement and presence = added-and-not-deleted-since need none; the contains clauses need the normalising lookup; the read clause needs the exact-first lookup only for the empty path; the full trace refinement needs both); `_partial` theorems and machine-checked counter-witnesses cover the as-found variants.",
    "note": "hand-written model; tie = differential run of the unmodified user_vfs.cc/user_resource.cc/user_util.cc (exhaustive op sequences over curated name groups + seeded random sequences) against the compiled Lean model, return codes and bytes compared exactly (hash-order dependent legacy match: membership in the model's candidate set). Assumes no registered resource providers (checked), ASCII names; the OS file system is an explicit table declared from os.stat; directories as read targets are not modelled (generator avoids them). mj_deleteFileVFS's lower-cased fall-back is treated as part of the API's normalisation.",
}

THEOREMS = [
    # hold for every model variant (hence tied to the tree whatever the probe says)
    "MjProof.C39.vfs_state_refines_spec",
    "MjProof.C39.present_iff_added_not_deleted_since",
    "MjProof.C39.add_absent",
    "MjProof.C39.add_existing_repeated_unchanged",
    "MjProof.C39.hasFile_iff_present",
    "MjProof.C39.delete_absent_fails",
    "MjProof.C39.delete_fails_iff_absent",
    "MjProof.C39.delete_present",
    "MjProof.C39.fp1_separator_insensitive",
    # need `normContains = true` (mj_containsBufferVFS normalises its argument)
    "MjProof.C39.has_iff_present",
    "MjProof.C39.has_iff_added_not_deleted_since",
    # need `exactFirst = true` for the empty path (FindMount looks the full path up first)
    "MjProof.C39.read_present_exact",
    "MjProof.C39.read_returns_added_bytes",
    # need both
    "MjProof.C39.vfs_refines_spec",
    "MjProof.C39.vfs_refines_spec_from",
    # what holds for a variant lacking a fix, and the machine-checked counter-witnesses
    "MjProof.C39.vfs_refines_spec_partial",
    "MjProof.C39.has_iff_present_raw_partial",
    "MjProof.C39.has_iff_added_not_deleted_since_raw_partial",
    "MjProof.C39.containsRaw_eq_containsNorm_partial",
    "MjProof.C39.asFound_contains_counterexample",
    "MjProof.C39.asFound_not_refinement",
    "MjProof.C39.asFound_read_counterexample",
]
# theorems whose switch hypothesis is met by the tree only if the real code shows the fixed behaviour
FULL_ONLY_IF_FIXED = {
    "contains": ["MjProof.C39.has_iff_present", "MjProof.C39.has_iff_added_not_deleted_since",
                 "MjProof.C39.vfs_refines_spec", "MjProof.C39.vfs_refines_spec_from"],
    "findmount": ["MjProof.C39.read_present_exact (empty path)", "MjProof.C39.read_returns_added_bytes (empty path)",
                  "MjProof.C39.vfs_refines_spec", "MjProof.C39.vfs_refines_spec_from"]}

KEY_CONTAINS = "c39:contains-unnormalised-name"
KEY_EMPTY = "c39:read-empty-path-wrong-bytes"

# ----------------------------------------------------------------------------- scratch disk
DISK_FILES = {
    "f1.txt": b"F1",
    "empty.bin": b"",
    "dd/File.TXT": b"UPPER",
    "dd/file.txt": b"lower",
    "dd/sub/g.bin": b"\x00\x01\xfe\xff",
    "../up.txt": b"up",
}


def make_scratch():
    os.makedirs(common.CACHE, exist_ok=True)
    root = tempfile.mkdtemp(prefix="c39_scratch_", dir=common.CACHE)
    cwd = os.path.join(root, "w", "cwd")
    os.makedirs(cwd)
    for rel, data in DISK_FILES.items():
        p = os.path.normpath(os.path.join(cwd, rel))
        os.makedirs(os.path.dirname(p), exist_ok=True)
        with open(p, "wb") as f:
            f.write(data)
    return root, cwd


def classify(cwd_fd, path):
    """What the OS answers for stat/fopen of `path` relative to the scratch cwd."""
    try:
        if "\0" in path:
            return "none"
        st = os.stat(path.encode("latin-1"), dir_fd=cwd_fd)
    except OSError:
        return "none"
    except ValueError:
        return "none"
    if statmod.S_ISDIR(st.st_mode):
        return "dir"
    if statmod.S_ISREG(st.st_mode):
        fd = os.open(path.encode("latin-1"), os.O_RDONLY, dir_fd=cwd_fd)
        try:
            data = b""
            while True:
                chunk = os.read(fd, 65536)
                if not chunk:
                    break
                data += chunk
        finally:
            os.close(fd)
        return "file:" + hexs(data)
    return "dir"  # anything else: keep it out of the modelled space


def hexs(b):
    return b.hex() if b else "-"


# ----------------------------------------------------------------------------- op representation
# an op is a tuple: ("add", name, bytes) ("addfile", dir|None, file) ("del", name|None) ("has", name|None)
# ("hasfile", dir|None, file|None) ("open", dir|None, name)
def tok(s):
    return "~" if s is None else "@" + s


def op_line(op):
    k = op[0]
    if k == "add":
        return "add %s %s" % (tok(op[1]), hexs(op[2]))
    if k in ("addfile", "hasfile", "open"):
        return "%s %s %s" % (k, tok(op[1]), tok(op[2]))
    return "%s %s" % (k, tok(op[1]))


def path_pairs(op):
    """(dir, name) pairs whose FilePath(dir,name) reaches the OS in this op."""
    if op[0] in ("addfile", "open") and op[2] is not None:
        return [(op[1] if op[1] is not None else "", op[2])]
    return []


# ----------------------------------------------------------------------------- name spaces
# curated groups: spellings that alias (or nearly alias) each other under FilePath
GROUPS = [
    # separators / "." / ".." spellings of p/a.txt, plus the case variant (a different buffer name)
    ["p/a.txt", "p\\a.txt", "p/./a.txt", "P/A.TXT"],
    ["a.txt", "./a.txt", "x/../a.txt", "A.TXT"],
    # directory-prefix mounts and empty basenames
    ["p", "p/", "p/a.txt", ""],
    ["", "a/", "b\\", "./"],
    # absolute prefixes
    ["/r/a.txt", "\\r\\a.txt", "/r/./a.txt", "a.txt"],
    ["c:/a.txt", "c:\\a.txt", "c:/x/../a.txt", "C:/a.txt"],
    # climbing above the start, doubled separators
    ["../a.txt", "x/../../a.txt", "p//a.txt", "p/a.txt"],
    # a buffer named like a drive: directory-prefix hit through the back-slash of an absolute prefix
    ["c:", "c:\\a.txt", "c:/a.txt", "c:\\"],
]
ALL_NAMES = sorted({n for g in GROUPS for n in g})

FILE_PAIRS = [(None, "f1.txt"), ("", "f1.txt"), ("dd", "File.TXT"), ("dd", "file.txt"), ("dd/", "FILE.TXT"),
              ("dd\\", "File.TXT"), ("./dd", "sub/../File.TXT"), ("dd/sub", "g.bin"), ("dd", "sub\\g.bin"),
              ("", "empty.bin"), ("nodir", "F1.TXT"), ("dd", "/c39zq/File.TXT"), ("..", "up.txt"),
              ("dd/sub/", "../../f1.txt")]
FILE_GROUPS = [
    [("dd", "File.TXT"), ("dd", "file.txt"), ("dd\\", "FILE.TXT")],
    [(None, "f1.txt"), ("nodir", "F1.TXT"), ("./dd", "sub/../File.TXT")],
]


def content(pos, idx):
    return bytes([0x10 + pos, 0xA0 + idx])


def exhaustive_group(names, length, with_open_dir=False):
    """All op sequences of exactly `length` over add/del/has/open x names (prefixes are covered by them)."""
    atoms = []
    for i, n in enumerate(names):
        atoms += [("add", n, i), ("del", n), ("has", n), ("open", None if i % 2 else "", n)]
    for seq in itertools.product(atoms, repeat=length):
        ops = []
        for pos, a in enumerate(seq):
            ops.append(("add", a[1], content(pos, a[2])) if a[0] == "add" else a)
        yield ops


def exhaustive_file_group(pairs, bufnames, length):
    atoms = []
    for d, f in pairs:
        atoms += [("addfile", d, f), ("hasfile", d, f), ("open", d, f)]
    for i, n in enumerate(bufnames):
        atoms += [("add", n, i), ("del", n), ("has", n)]
    for seq in itertools.product(atoms, repeat=length):
        ops = []
        for pos, a in enumerate(seq):
            ops.append(("add", a[1], content(pos, a[2])) if a[0] == "add" else a)
        yield ops


COMPS = ["a.txt", "A.TXT", "a.TXT", "b", "B", "p", "q", "..", ".", "", "c:", "file.txt", "File.TXT", "dd", "f1.txt"]


def variant(rng, name):
    """A spelling that (often) aliases `name`."""
    r = rng.random()
    if r < 0.2:
        return name.replace("/", "\\")
    if r < 0.35:
        return "./" + name
    if r < 0.5:
        parts = name.split("/")
        i = rng.randrange(len(parts))
        parts.insert(i, rng.choice([".", "zz/..", "zz\\.."]))
        return "/".join(parts)
    if r < 0.65:
        return name.swapcase() if rng.random() < 0.5 else name.upper()
    if r < 0.75:
        return name.lower()
    if r < 0.85:
        return name.split("/")[-1].split("\\")[-1]  # basename
    if r < 0.92:
        return name + rng.choice(["/", "\\", "/x.bin"])
    return name


def random_name(rng):
    k = rng.choice((1, 1, 2, 2, 3, 4))
    s = rng.choice(("", "", "", "/", "\\", "./"))
    for i in range(k):
        if i:
            s += rng.choice(("/", "/", "\\"))
        s += rng.choice(COMPS)
    if rng.random() < 0.1:
        s += rng.choice(("/", "\\"))
    return s


def random_sequence(rng, maxlen):
    base = [random_name(rng) for _ in range(rng.choice((1, 2, 3)))]
    pool = list(base)
    for b in base:
        for _ in range(rng.choice((1, 2, 3))):
            pool.append(variant(rng, b))
    if rng.random() < 0.3:
        pool.append(rng.choice(ALL_NAMES))
    fpool = [rng.choice(FILE_PAIRS) for _ in range(rng.choice((0, 1, 2, 3)))]
    n = rng.randint(3, maxlen)
    ops = []
    for pos in range(n):
        r = rng.random()
        nm = rng.choice(pool)
        if fpool and r < 0.2:
            d, f = rng.choice(fpool)
            k = rng.choice(("addfile", "addfile", "hasfile", "open"))
            if k == "hasfile" and rng.random() < 0.05:
                f = None
            ops.append((k, d, f))
        elif fpool and r < 0.25:
            d, f = rng.choice(fpool)
            ops.append(("del", rng.choice((f, (d or "") + "/" + f, f.upper()))))
        elif r < 0.5:
            c = b"" if rng.random() < 0.05 else bytes(rng.randrange(256) for _ in range(rng.choice((1, 2, 3, 8))))
            ops.append(("add", nm, c))
        elif r < 0.65:
            ops.append(("del", None if rng.random() < 0.03 else nm))
        elif r < 0.82:
            ops.append(("has", None if rng.random() < 0.03 else nm))
        else:
            d = rng.choice((None, "", "", "p", "x/..", "."))
            ops.append(("open", d, nm))
    return ops


PROBE_CONTAINS = [("add", "./c.txt", b"\x01"), ("has", "./c.txt")]
PROBE_EMPTY = [
    [("add", "", b"\x05"), ("add", "a/", b"\x06"), ("add", "b/", b"\x07"), ("open", "", "")],
    [("add", "a/", b"\x06"), ("add", "b/", b"\x07"), ("add", "", b"\x05"), ("open", "", "")],
    [("add", "b/", b"\x07"), ("add", "", b"\x05"), ("add", "a/", b"\x06"), ("open", None, "")],
    [("add", "q/", b"\x08"), ("add", "", b"\x05"), ("open", "", "")],
    [("add", "", b"\x05"), ("add", "q\\", b"\x08"), ("open", "", "")],
]


def gen_sequences(ctx):
    rng = ctx.rng
    thorough = ctx.tier == "thorough"
    seqs = [list(PROBE_CONTAINS)] + [list(p) for p in PROBE_EMPTY]
    hist = {}
    L = 4 if thorough else 3
    for g in GROUPS:
        for ops in exhaustive_group(g, L):
            seqs.append(ops)
    ctx.extra["exhaustive_small_scope"] = (
        "every op sequence of length %d over {add,del,has,open} x 4 spellings, for each of %d curated alias groups; "
        "every sequence of length %d over {addfile,hasfile,open} x 3 (dir,file) pairs + {add,del,has} x 2 names for %d file groups"
        % (L, len(GROUPS), L, len(FILE_GROUPS)))
    for fg in FILE_GROUPS:
        for ops in exhaustive_file_group(fg, ["file.txt", "dd/File.TXT"], L):
            seqs.append(ops)
    hist["exhaustive_sequences"] = len(seqs)
    # all pairs of spellings: add one, observe through the other
    for a in ALL_NAMES:
        for b in ALL_NAMES:
            seqs.append([("add", a, b"\x11"), ("has", b), ("open", "", b), ("add", b, b"\x22"), ("open", None, a),
                         ("del", b), ("has", a), ("has", b), ("del", a)])
    nrand = 30000 if thorough else 6000
    maxlen = 40 if thorough else 16
    for _ in range(nrand):
        seqs.append(random_sequence(rng, maxlen))
    hist["random_sequences"] = nrand
    ctx.extra["sequence_counts"] = hist
    return seqs


# ----------------------------------------------------------------------------- oracle
def unnormalised(n):
    if n is None:
        return False
    comps = n.replace("\\", "/").split("/")
    return "\\" in n or "." in comps or ".." in comps


def empty_basename(n):
    return n is not None and n.replace("\\", "/").split("/")[-1] == ""


def os_content(d, f):
    """Expected bytes of mj_addFileVFS(d, f) for spellings on which lexical and OS resolution agree."""
    d = d or ""
    for s in (d, f):
        if "\\" in s or ":" in s or ".." in s.replace("\\", "/").split("/"):
            return None
    rel = f if f.startswith("/") else (d + ("" if (not d or d.endswith("/")) else "/") + f)
    if rel.startswith("/"):
        return None
    key = os.path.normpath(rel) if rel else rel
    if key in DISK_FILES:
        return DISK_FILES[key]
    return None


def parse_code(out, tag):
    w = out.split()
    if len(w) == 2 and w[0] == tag:
        try:
            return int(w[1])
        except ValueError:
            return None
    return None


def oracle_sequence(ops, outs):
    """Set-semantics predicates on the real return codes and bytes of one history (fresh VFS).
    Returns a list of (key, what, index)."""
    fails = []
    count = 0
    win, winf = {}, {}      # raw spelling -> known contents (None = present, contents unknown)
    gone, gonef = {}, set()  # raw spelling known absent (value: how we learnt it)

    def fail(key, what, i):
        fails.append((key, what, i))

    for i, (op, out) in enumerate(zip(ops, outs)):
        k = op[0]
        if k in ("add", "addfile"):
            rc = parse_code(out, k)
            if rc not in (0, 2):
                fail("c39:add-bad-code", "%s returned %r (expected 0 or 2)" % (k, out), i)
                continue
            if k == "add":
                n = op[1]
                if n in win and rc != 2:
                    fail("c39:readd-not-repeated", "re-adding present name %r returned %d, expected 2" % (n, rc), i)
                if n in gone and rc != 0:
                    key = KEY_CONTAINS if (gone[n] == "has" and unnormalised(n)) else "c39:add-absent-fails"
                    fail(key, "adding name %r known absent (by %s) returned %d, expected 0" % (n, gone[n], rc), i)
                if count == 0 and rc != 0:
                    fail("c39:add-absent-fails", "adding %r to an empty VFS returned %d" % (n, rc), i)
                if rc == 0:
                    win[n] = op[2]
                elif n not in win:
                    win[n] = None
            else:
                df = (op[1], op[2])
                if df in winf and rc != 2:
                    fail("c39:readd-not-repeated", "re-adding present file %r returned %d, expected 2" % (df, rc), i)
                if df in gonef and rc != 0:
                    fail("c39:add-absent-fails", "adding file %r known absent returned %d" % (df, rc), i)
                if count == 0 and rc != 0:
                    fail("c39:add-absent-fails", "adding file %r to an empty VFS returned %d" % (df, rc), i)
                if rc == 0:
                    winf[df] = os_content(*df)
                elif df not in winf:
                    winf[df] = None
            if rc == 0:
                count += 1
                gone.clear()
                gonef.clear()
        elif k == "del":
            rc = parse_code(out, k)
            n = op[1]
            if rc not in (0, -1):
                fail("c39:del-bad-code", "del returned %r" % out, i)
                continue
            if n is None and rc != -1:
                fail("c39:del-null", "deleting NULL returned %d" % rc, i)
            if count == 0 and rc != -1:
                fail("c39:delete-absent-succeeds", "deleting %r from an empty VFS returned %d, expected -1" % (n, rc), i)
            if n in win and rc != 0:
                fail("c39:delete-present-fails", "deleting present name %r returned %d, expected 0" % (n, rc), i)
            if rc == 0:
                count -= 1
                if count < 0:
                    fail("c39:more-deletes-than-adds", "more successful deletes than successful adds", i)
                win.clear()
                winf.clear()
            if n is not None:
                gone[n] = "del"
        elif k == "has":
            rc = parse_code(out, k)
            n = op[1]
            if rc not in (0, 1):
                fail("c39:has-bad-code", "has returned %r" % out, i)
                continue
            if n is None:
                if rc != 0:
                    fail("c39:has-null", "contains(NULL) returned %d" % rc, i)
                continue
            if n in win and rc != 1:
                key = KEY_CONTAINS if unnormalised(n) else "c39:contains-false-for-present"
                fail(key, "mj_containsBufferVFS(%r) = 0 although that name was added (add returned 0/2) and nothing "
                          "was deleted since" % n, i)
                continue
            if (n in gone or count == 0) and rc != 0:
                fail("c39:contains-true-for-absent", "mj_containsBufferVFS(%r) = 1 although the name is absent" % n, i)
                continue
            if rc == 1:
                win.setdefault(n, None)
            else:
                gone.setdefault(n, "has")
        elif k == "hasfile":
            rc = parse_code(out, k)
            df = (op[1], op[2])
            if rc not in (0, 1):
                fail("c39:has-bad-code", "hasfile returned %r" % out, i)
                continue
            if op[2] is None:
                if rc != 0:
                    fail("c39:has-null", "containsFile(NULL) returned %d" % rc, i)
                continue
            if df in winf and rc != 1:
                fail("c39:containsfile-false-for-present", "mj_containsFileVFS%r = 0 although it was added" % (df,), i)
                continue
            if (df in gonef or count == 0) and rc != 0:
                fail("c39:contains-true-for-absent", "mj_containsFileVFS%r = 1 although absent" % (df,), i)
                continue
            if rc == 1:
                winf.setdefault(df, None)
            else:
                gonef.add(df)
        elif k == "open":
            d, n = op[1], op[2]
            w = out.split()
            if not (len(w) >= 2 and w[0] == "open" and w[1] in ("fail", "ok")):
                fail("c39:open-bad-result", "open returned %r" % out, i)
                continue
            if d in (None, "") and n in win:
                want = win[n]
                if w[1] != "ok":
                    fail("c39:read-present-fails", "open+read of present name %r failed" % n, i)
                elif want is not None and w[2] != hexs(want):
                    key = KEY_EMPTY if empty_basename(n) else "c39:read-present-wrong-bytes"
                    fail(key, "open+read of present name %r returned %s, but it was added with %s"
                         % (n, w[2], hexs(want)), i)
            if (d, n) in winf and count == 1:
                want = winf[(d, n)]
                if w[1] != "ok":
                    fail("c39:read-present-fails", "open+read of the only present file %r failed" % ((d, n),), i)
                elif want is not None and w[2] != hexs(want):
                    fail("c39:read-present-wrong-bytes", "open+read of file %r returned %s, disk has %s"
                         % ((d, n), w[2], hexs(want)), i)
    return fails


# ----------------------------------------------------------------------------- run
def cmp_lines(a, b):
    if a == b:
        return True
    if a.startswith("open any "):
        w = b.split()
        return len(w) == 3 and w[0] == "open" and w[1] == "ok" and w[2] in a.split()[2:]
    return False


def run_impl(ctx, impl, cwd, lines):
    return ctx.run_lines([impl, cwd], lines)


def build_stream(ctx, drv, seqs, cwd_fd, modes):
    """Lines for one differential stream: modes, OS declarations, path probes, then `reset` + ops per history.
    Histories that would read a directory through the default provider are dropped."""
    pairs = sorted({p for ops in seqs for op in ops for p in path_pairs(op)})
    plines = ["path %s %s" % (tok(d), tok(n)) for d, n in pairs]
    rc, outs, err = ctx.run_lines([drv], plines)
    if rc != 0 or len(outs) != len(plines):
        raise common.Infra("drv_c39 failed on path ops: rc=%d %s" % (rc, err[-300:]))
    reduced = {}
    for (d, n), o in zip(pairs, outs):
        w = o.split(" ")
        if len(w) != 6 or w[0] != "path" or not w[1].startswith("@"):
            raise common.Infra("unexpected driver output for path op: %r" % o)
        reduced[(d, n)] = w[1][1:]
    kinds = {}
    for p in sorted(set(reduced.values())):
        kinds[p] = classify(cwd_fd, p)
    lines = ["mode " + m for m in modes] + ["provcount"]
    lines += ["fs %s %s" % (tok(p), k) for p, k in sorted(kinds.items())]
    lines += plines
    index = []  # (first line index of ops, ops)
    dropped = 0
    for ops in seqs:
        if any(kinds[reduced[p]] == "dir" for op in ops for p in path_pairs(op)):
            dropped += 1
            continue
        lines.append("reset")
        index.append((len(lines), ops))
        lines += [op_line(op) for op in ops]
    lines.append("frob @x")          # malformed ops: both sides must reject
    lines.append("add @x zz")
    lines.append("has x")
    return lines, index, kinds, dropped


def probe_variants(ctx, impl, cwd):
    lines = ["reset"] + [op_line(o) for o in PROBE_CONTAINS]
    for p in PROBE_EMPTY:
        lines += ["reset"] + [op_line(o) for o in p]
    rc, outs, err = run_impl(ctx, impl, cwd, lines)
    if rc != 0 or len(outs) != len(lines):
        return None
    contains = "norm" if outs[2] == "has 1" else "raw"
    opens = [o for l, o in zip(lines, outs) if l.startswith("open ")]
    findmount = "exact" if all(o == "open ok 05" for o in opens) else "loop"
    return contains, findmount


def replay_text(ops, upto):
    return "printf 'reset\\n%s\\n' | <c39_vfs harness> <any empty dir>" % "\\n".join(
        op_line(o).replace("\\", "\\\\") for o in ops[:upto + 1])


def run_oracle(ctx, index, outs, max_report=30):
    nfail, seen = 0, {}
    for start, ops in index:
        o = outs[start:start + len(ops)]
        if len(o) != len(ops):
            break
        for key, what, i in oracle_sequence(ops, o):
            nfail += 1
            seen[key] = seen.get(key, 0) + 1
            if seen[key] <= 3 and len(ctx.oracle_failures) < max_report:
                ctx.oracle_failure(key, what, {
                    "history": ["reset"] + [op_line(x) for x in ops[:i + 1]],
                    "impl_outputs": ["ok"] + o[:i + 1],
                    "failing_op": op_line(ops[i]),
                    "replay": replay_text(ops, i)})
    return nfail, seen


def replay_file(ctx, impl, cwd):
    """--replay <file>: re-run the recorded failing histories on the tree's real code and show the outputs."""
    obj = json.load(open(ctx.replay))
    for f in obj.get("failures", []):
        h = (f.get("replay") or {}).get("history")
        if not h:
            continue
        rc, outs, err = run_impl(ctx, impl, cwd, h)
        print("REPLAY %s: %s" % (f.get("key"), f.get("what")))
        for l, o in zip(h, outs + ["<no output: rc=%d>" % rc] * len(h)):
            print("   %-40s -> %s" % (l, o))
        was = f["replay"].get("impl_outputs")
        if was is not None:
            print("   outputs %s the recorded ones" % ("EQUAL" if was == outs else "DIFFER from"))


def run(ctx):
    ctx.rule = ("histories = `reset` + op lines (add/addfile/del/has/hasfile/open) on one mjVFS; exhaustive fixed-length "
                "sequences over curated alias groups (separator, '.', '..', case, absolute-prefix, empty-name spellings), all "
                "ordered pairs of spellings, and seeded random sequences over per-history pools of aliasing names; a case is "
                "distinct by its op line together with position; non-trivial = every VFS op line (mode/fs/path lines are set-up)")
    ctx.lean_props(THEOREMS)
    drv = ctx.driver("drv_c39")
    impl = ctx.harness("harness/cc/c39_vfs.cc", "c39_vfs")
    if not (drv and impl):
        return
    root, cwd = make_scratch()
    cwd_fd = os.open(cwd, os.O_RDONLY)
    try:
        if getattr(ctx, "replay", None):
            replay_file(ctx, impl, cwd)
        pv = probe_variants(ctx, impl, cwd)
        if pv is None:
            ctx.oracle_failure("c39:crash", "VFS harness crashed on the probe histories", {"probe": True})
            return
        contains, findmount = pv
        ctx.extra["model_variant_matching_the_code"] = {
            "mj_containsBufferVFS": contains + (" (raw string lookup: defect, full theorems not tied)" if contains == "raw" else " (normalising: full theorems tied)"),
            "FindMount": findmount + (" (empty path never looked up: defect, full read theorem not tied)" if findmount == "loop" else " (exact lookup first: full theorems tied)"),
            "theorems_whose_variant_hypothesis_this_tree_does_not_meet": sorted(set(
                (FULL_ONLY_IF_FIXED["contains"] if contains == "raw" else []) +
                (FULL_ONLY_IF_FIXED["findmount"] if findmount == "loop" else []))),
        }
        seqs = gen_sequences(ctx)
        lines, index, kinds, dropped = build_stream(ctx, drv, seqs, cwd_fd, [contains, findmount])
        ctx.extra["histories"] = len(index)
        ctx.extra["histories_dropped_directory_read"] = dropped
        ctx.extra["os_paths_declared"] = {k: sum(1 for v in kinds.values() if v.split(":")[0] == k) for k in ("none", "dir", "file")}
        ophist = {}
        for _, ops in index:
            for op in ops:
                ophist[op[0]] = ophist.get(op[0], 0) + 1
        ctx.extra["op_distribution"] = ophist

        def keyf(l):
            return l if l.split(" ")[0] in ("add", "addfile", "del", "has", "hasfile", "open", "path") else None

        # T: exact correspondence (return codes, bytes, FilePath strings)
        rc, outs, err = run_impl(ctx, impl, cwd, lines)
        ctx.differential("VFS ops + FilePath vs Lean model [contains=%s, findmount=%s]" % (contains, findmount),
                         [drv], [impl, cwd], lines, keyf=keyf, cmp=cmp_lines)
        # S: oracle on the implementation's own outputs
        if rc == 0 and len(outs) == len(lines):
            nfail, seen = run_oracle(ctx, index, outs)
            ctx.extra["oracle_checked_histories"] = len(index)
            ctx.extra["oracle_failures"] = nfail
            ctx.extra["oracle_failure_keys"] = seen
            pc = outs[lines.index("provcount")]
            ctx.oblige("no resource provider registered (model assumption)", "assumption-check", pc == "provcount 0", pc)
            for s, ops in index[:2000]:
                if len(ops) >= 4 and any(o[0] == "open" for o in ops):
                    ctx.sample({"history": [op_line(x) for x in ops], "impl_outputs": outs[s:s + len(ops)]})
                    if len(ctx.samples) >= 3:
                        break
            s, ops = index[-1]
            ctx.sample({"history": [op_line(x) for x in ops], "impl_outputs": outs[s:s + len(ops)]})
        else:
            at = min(len(outs), len(lines) - 1)
            start = max(i for i in range(at + 1) if lines[i] == "reset" or i == 0)
            ctx.oracle_failure("c39:crash", "VFS harness crashed (rc=%s after %d of %d lines)" % (rc, len(outs), len(lines)),
                               {"history": lines[start:at + 1], "stderr": err[-500:],
                                "replay": "feed the history lines to the c39_vfs harness (./check C39 --replay <this file>)"})

        def directed(c):
            import random
            rng = random.Random(c.seed * 7919 + 39)
            more = [random_sequence(rng, 30) for _ in range(20000)]
            l2, idx2, _, _ = build_stream(c, drv, more, cwd_fd, [contains, findmount])
            rc2, o2, _ = run_impl(c, impl, cwd, l2)
            if rc2 != 0 or len(o2) != len(l2):
                return {"key": "c39:crash", "what": "VFS harness crashed in directed search", "replay": {"line": l2[min(len(o2), len(l2) - 1)]}}
            for start, ops in idx2:
                for key, what, i in oracle_sequence(ops, o2[start:start + len(ops)]):
                    return {"key": key, "what": what, "replay": {"history": ["reset"] + [op_line(x) for x in ops[:i + 1]],
                                                               "impl_outputs": ["ok"] + o2[start:start + i + 1]}}
            return None

        # keep the scratch dir alive for the directed search: run it eagerly only if something is broken
        if any(not o["ok"] for o in ctx.obligations) and not ctx.oracle_failures:
            found = directed(ctx)
            ctx.directed_search = lambda c: found
        if ctx.tier == "thorough":
            ctx.leanchecker(["MjProof.Props.C39"])
    finally:
        os.close(cwd_fd)
        shutil.rmtree(root, ignore_errors=True)
