"""C40  Extension registries stay consistent under concurrent use (DESIGN.md §5.C40)."""
import itertools
import json
import os
import re
import subprocess
import sys

from checks import common

META = {
    "technique": "Lean 4 proof by invariant induction over the traces of a transition system (any number of writer/"
                 "reader threads, any sequentially consistent interleaving, unbounded table) + translator check of the "
                 "std::memory_order arguments / access order in engine_global_table.h + exact sequential differential "
                 "correspondence + real-thread stress whose observations are decided by the model",
    "text": "GlobalTable<T> (the registry behind mjp_registerPlugin / mjp_registerResourceProvider / decoders / encoders) "
            "is modelled as a transition system: blocks of kBlockSize cells whose two fields are copied one step at a "
            "time, count published by a separate step after the copy, re-entrant writer lock, lock-free readers "
            "(count load, then one slot per step), injected allocation / copy failures. Proved for every reachable "
            "state of every program and schedule: a reader that loaded n = count finds completely copied objects in "
            "all slots < n; keys are unique case-insensitively; slots 0..count-1 are dense and never move or change; "
            "the null-dereference state of the block walk is unreachable; every completed registration / lookup "
            "result is sound; the execution is linearisable to the sequential specification (identical "
            "re-registration returns the existing slot, a conflicting one fails, both without changing the table); "
            "lookup by key and by slot agree.",
    "note": "the model is hand-written and sequentially consistent: translate/c40_orders.py re-extracts on every run "
            "the memory orders (release store after the copy, acquire load in count()), the order of the writer's "
            "accesses inside the locked lambda, kBlockSize and the lock / comparison shapes, and refuses unknown shapes; "
            "behaviour is tied by exact comparison of all return values (exhaustive short histories over a 3-name "
            "case-variant alphabet, block-boundary suffix enumeration at 15/30, random histories; test instantiation of "
            "the unmodified template with exact and case-insensitive ObjectEqual, and the real plugin and "
            "resource-provider APIs) and by real-thread runs whose observations the Lean driver must explain by a "
            "linearisation replayed through the transition system. Not modelled: the reader's walk over `next` "
            "pointers beyond the published count in GetByKeyUnsafe (a C++ data race on the non-atomic "
            "TableBlock::next that ThreadSanitizer reports; harmless under SC/x86, recorded as supporting evidence in "
            "the thorough tier), decoders/encoders API wrappers (no by-slot API), non-ASCII tolower.",
}

NS = "MjProof.C40."
THEOREMS = [NS + t for t in (
    "reader_sees_complete", "getSlot_never_torn", "getKey_never_torn", "keys_unique", "slots_dense",
    "slots_stable", "no_fault", "writers_exclusive", "table_changes_only_by_new_key", "reg_slot_sound",
    "reg_conflict_sound", "linearizable", "reregistration_linearised", "spec_register_unique", "spec_reregister_identical",
    "spec_reregister_conflict", "spec_register_new", "spec_register_prefix", "spec_lookup_agree", "lookup_agree")]

TRANSLATOR = os.path.join(common.VERIF, "translate", "c40_orders.py")
KINDS = {"t": dict(base=0, exact=True, copyfail=True), "c": dict(base=0, exact=False, copyfail=True),
         "p": dict(base=0, exact=True, copyfail=False), "v": dict(base=1, exact=False, copyfail=False)}
BLOCK = 15


def valid_scheme(s):
    return bool(re.fullmatch(r"[A-Za-z][A-Za-z0-9+.\-]*", s))


# ----------------------------------------------------------------------------- generators
def dump_suffix(kind, names, nreg):
    base = KINDS[kind]["base"]
    return ["c"] + ["s:%d" % i for i in range(base - 1, base + nreg + 1)] + ["n:" + x for x in names]


def nreg_of(ops):
    return sum(1 for o in ops if o.startswith("r:"))


def names_of(ops):
    out = []
    for o in ops:
        f = o.split(":")
        if f[0] in ("r", "n") and f[1] not in out:
            out.append(f[1])
    return out


def mkseq(kind, ops):
    return " ".join(["seq", kind] + list(ops) + dump_suffix(kind, names_of(ops), nreg_of(ops)))


class Batch:
    """One long history on a process-global registry (kinds p, v): many short sub-histories with distinct name
    prefixes, slot lookups placed relative to the number of keys accepted so far (tracked only to aim the lookups)."""

    def __init__(self, kind):
        self.kind, self.base = kind, KINDS[kind]["base"]
        self.ops, self.seen, self.nseg = [], set(), 0

    def accepts(self, name):
        return name != "" if self.kind == "p" else valid_scheme(name)

    def segment(self, templ):
        """templ: ops over names a/A/b and relative slots S0/S1/S-1"""
        tag = "h%d" % self.nseg
        self.nseg += 1
        cnt0 = len(self.seen)
        for o in templ:
            f = o.split(":")
            if f[0] in ("r", "n") and f[1] in ("a", "A", "b", "B"):
                nm = tag + f[1].lower()
                f[1] = nm.upper() if f[1].isupper() else nm
            if f[0] == "s" and f[1].startswith("S"):
                f[1] = str(self.base + cnt0 + int(f[1][1:]))
            if f[0] == "r" and self.accepts(f[1]):
                self.seen.add(f[1].lower())
            self.ops.append(":".join(f))

    def line(self):
        return mkseq(self.kind, self.ops)


def gen_seq(ctx):
    rng, thorough = ctx.rng, ctx.tier == "thorough"
    lines, hist = [], {}

    def add(kind, ops, cls):
        lines.append(mkseq(kind, ops))
        hist[cls] = hist.get(cls, 0) + 1

    # 1. exhaustive short histories over a case-variant alphabet (fresh table per history)
    for kind in "tc":
        alpha = ["r:a:1", "r:A:1", "r:a:2", "r:b:1", "r:B:2", "n:a", "n:A", "n:b", "s:0", "s:1", "c", "L", "U"]
        maxlen = 4 if thorough else 3
        for n in range(0, maxlen + 1):
            for ops in itertools.product(alpha, repeat=n):
                add(kind, ops, "exhaustive:" + kind)
    #    the real plugin / resource-provider registries are process-global: the same sub-histories, with distinct
    #    name prefixes, are concatenated into long histories (one process each), so they also occur at every
    #    alignment relative to the block boundaries
    for kind in "pv":
        alpha = ["r:a:1", "r:A:1", "r:a:2", "r:b:1", "r:B:2", "n:a", "n:A", "n:b", "s:S0", "s:S1", "c"]
        segs = [t for n in range(1, 3) for t in itertools.product(alpha, repeat=n)]
        l3 = list(itertools.product(alpha, repeat=3))
        segs += l3 if thorough else rng.sample(l3, 260)
        rng.shuffle(segs)
        per = 36
        for i in range(0, len(segs), per):
            b = Batch(kind)
            for t in segs[i:i + per]:
                b.segment(list(t))
                hist["exhaustive-segment:" + kind] = hist.get("exhaustive-segment:" + kind, 0) + 1
            lines.append(b.line())
    ctx.extra["exhaustive_small_scope"] = (
        "test instantiations (exact / case-insensitive ObjectEqual): all histories of length <= 3 (thorough: <= 4) over "
        "{register a/A/b with payloads 1,2; lookup a,A,b; slot 0,1; count; open/close LockExclusively scope} on a fresh table, each followed by a full dump "
        "(count, every slot, every name); plugin and resource-provider APIs: all such histories of length <= 2 and %s of "
        "length 3, as prefixed segments of long histories" % ("all" if thorough else "a seeded sample of 260"))
    # 2. block boundaries: prefix of distinct registrations, then every suffix of length <= 2
    for kind in "tcpv":
        base = KINDS[kind]["base"]
        if kind in "pv":
            # process-global registries: a distinct-key prefix, then short prefixed sub-histories that walk across
            # the boundary (one process per line)
            short = ["r:a:1", "r:A:1", "r:a:2", "n:a", "n:A", "s:S0", "s:S-1", "s:S1", "c", "r:b:1"]
            for pre in (13, 28, 43) if thorough else (13, 28):
                for _rep in range(3 if thorough else 1):
                    b = Batch(kind)
                    b.segment(["r:k%d:1" % i for i in range(pre)])
                    for _s in range(8):
                        b.segment(rng.sample(short, 3))
                    lines.append(b.line())
                    hist["boundary:" + kind] = hist.get("boundary:" + kind, 0) + 1
            continue
        pres = (13, 14, 15, 16, 29, 30, 31, 45)
        for pre in pres:
            prefix = ["r:k%d:1" % i for i in range(pre)]
            alpha = ["r:new:1", "r:k0:1", "r:K0:1", "r:k0:2", "r:k%d:1" % (pre - 1), "r:K%d:2" % (pre - 1), "r:nw2:1",
                     "n:k%d" % (pre - 1), "n:NEW", "s:%d" % (base + pre - 1), "s:%d" % (base + pre), "s:%d" % (base + 14),
                     "s:%d" % (base + 15), "c"]
            sufs = [()] + [(a,) for a in alpha] + list(itertools.product(alpha, repeat=2))
            for suf in sufs:
                add(kind, prefix + list(suf), "boundary:" + kind)
    # 3. random histories over larger name pools (several blocks)
    nrand = 20000 if thorough else 1500
    for _ in range(nrand):
        kind = rng.choice("tc") if rng.random() < 0.995 else rng.choice("pv")
        base = KINDS[kind]["base"]
        pool = ["k%d" % i for i in range(rng.choice((2, 4, 8, 17, 24, 40)))]
        n = rng.choice((5, 12, 20, 35, 50, 70)) * (3 if kind in "pv" else 1)
        ops = []
        for _ in range(n):
            r = rng.random()
            nm = rng.choice(pool)
            if rng.random() < 0.3:
                nm = nm.upper()
            if r < 0.62:
                p = 1 if rng.random() < 0.8 else 2
                if KINDS[kind]["copyfail"] and rng.random() < 0.04:
                    p = 99
                if rng.random() < 0.01:
                    nm = "" if kind != "v" else "9x"
                ops.append("r:%s:%d" % (nm, p))
            elif r < 0.78:
                ops.append("n:" + nm)
            elif r < 0.93:
                ops.append("s:%d" % rng.randint(base - 1, base + len(pool)))
            elif r < 0.96 and kind in "tc":
                ops.append(rng.choice("LLU"))
            else:
                ops.append("c")
        add(kind, ops, "random:" + kind)
    # malformed ops: both sides must reject
    lines += ["frob 1 2", "seq x r:a:1", "seq t r:a", "seq t q:1"]
    ctx.extra["sequential_distribution"] = hist
    return lines


def gen_conc(ctx, n, kinds="ttttttttcccccccpv"):
    rng = ctx.rng
    lines = []
    for _ in range(n):
        kind = rng.choice(kinds)
        nw = rng.choice((2, 2, 3, 4))
        nr = rng.choice((1, 2, 3))
        pool = ["k%d" % i for i in range(rng.choice((6, 17, 20, 34)))]
        progs = []
        for _w in range(nw):
            ln = rng.choice((8, 16, 24, 40))
            ops = []
            for _i in range(ln):
                nm = rng.choice(pool)
                if rng.random() < 0.3:
                    nm = nm.upper()
                p = 1 if rng.random() < 0.85 else 2
                if KINDS[kind]["copyfail"] and rng.random() < 0.03:
                    p = 99
                ops.append("r:%s:%d" % (nm, p))
            progs.append(";".join(ops))
        names = rng.sample(pool, min(4, len(pool)))
        names = [x.upper() if rng.random() < 0.3 else x for x in names] + ["zz"]
        lines.append("conc %s %d %s %s" % (kind, nr, ",".join(names), " ".join(progs)))
    return lines


# ----------------------------------------------------------------------------- oracles (implementation output alone)
def oracle_seq(line, out):
    """Bookkeeping of what the implementation itself reported; returns None or (key, description)."""
    w = line.split()
    if len(w) < 2 or w[0] != "seq" or w[1] not in KINDS:
        return None if out == "bad-op" else ("malformed-accepted", "malformed line accepted")
    kind, K = w[1], KINDS[w[1]]
    ops, res = w[2:], out.split()
    if out.startswith("crash"):
        return ("crash", "implementation crashed: " + out)
    if out == "bad-op":
        arity = {"r": 3, "n": 2, "s": 2, "c": 1}
        if K["copyfail"]:
            arity.update({"L": 1, "U": 1})
        if any(len(o.split(":")) != arity.get(o.split(":")[0], 0) for o in ops):
            return None
        return ("wellformed-rejected", "well-formed history rejected")
    if len(res) != len(ops):
        return ("output-shape", "%d results for %d ops" % (len(res), len(ops)))
    base = K["base"]
    known = {}      # lower(key) -> (slot, key, payload)
    byslot = {}
    empty_reg = False
    last_count = 0
    for op, r in zip(ops, res):
        if "TORN" in r:
            return ("incomplete-object", "op %s exposed an incompletely registered object: %s" % (op, r))
        f = op.split(":")
        if f[0] == "r":
            name, p = f[1], int(f[2])
            lk = name.lower()
            if kind == "v" and not valid_scheme(name):
                if r != "W":
                    return ("wrapper", "invalid URI scheme %r not rejected with a warning: %s" % (name, r))
                continue
            if kind == "p" and name == "":
                if r != "E":
                    return ("wrapper", "empty plugin name not rejected: " + r)
                continue
            if r == "W":
                return ("wrapper", "valid registration %s answered with a warning" % op)
            if lk in known:
                slot, key, pay = known[lk]
                identical = pay == p and (key == name or not K["exact"])
                if identical and r != "s%d" % slot:
                    return ("identical-reregistration", "re-registering identical %s returned %s, existing slot is %d" % (op, r, slot))
                if not identical and r != "E":
                    return ("conflicting-reregistration", "conflicting %s (slot %d holds %s:%d) returned %s instead of failing"
                            % (op, slot, key, pay, r))
            else:
                if K["copyfail"] and p == 99:
                    if r != "E":
                        return ("copy-failure", "failing copy %s reported %s" % (op, r))
                    continue
                want = base + len(known)
                if r != "s%d" % want:
                    return ("density", "new key %s got %s, next free slot is %d" % (op, r, want))
                known[lk] = (want, name, p)
                byslot[want] = (name, p)
                if name == "":
                    empty_reg = True
        elif f[0] in ("L", "U"):
            if r != "u":
                return ("output-shape", "lock scope op printed " + r)
        elif f[0] == "c":
            if not r.isdigit():
                return ("output-shape", "count printed " + r)
            if int(r) < last_count:
                return ("stability", "count decreased from %d to %s" % (last_count, r))
            last_count = int(r)
            if int(r) != len(known):
                return ("density", "count %s but %d distinct keys were accepted" % (r, len(known)))
        elif f[0] == "s":
            i = int(f[1])
            if i in byslot and byslot[i][0] != "":
                want = "o:%s:%d" % byslot[i]
                if r != want:
                    return ("stability", "slot %d returned %s, registered object is %s" % (i, r, want))
            elif r != "-":
                return ("density", "slot %d (never assigned / empty key) returned %s" % (i, r))
        elif f[0] == "n":
            if empty_reg:
                continue  # GetByKey stops at an empty key: not covered by the property
            name = f[1]
            hit = known.get(name.lower()) if name != "" and (kind != "v" or valid_scheme(name)) else None
            want = "f%d:%s:%d" % hit if hit else "-"
            if r != want:
                return ("name-slot-agreement", "lookup %s returned %s, registered: %s" % (op, r, want))
    return None


def parse_obs(obs):
    d = {"W": {}, "R": {}, "FINAL": None}
    for tok in obs.split():
        k, _, v = tok.partition("=")
        if k == "FINAL":
            n, _, objs = v.partition("|")
            d["FINAL"] = (int(n), [o for o in objs.split(",") if o != ""])
        elif k[0] == "W":
            d["W"][int(k[1:])] = [x for x in v.split(",") if x != ""]
        elif k[0] == "R":
            r = {}
            for part in v.split("|"):
                a, _, b = part.partition(":")
                r[a] = b
            d["R"][int(k[1:])] = r
    return d


def oracle_conc(line, obs):
    w = line.split()
    kind, K = w[1], KINDS[w[1]]
    base = K["base"]
    if obs.startswith("crash") or obs == "bad-op":
        return ("crash", "concurrent run: " + obs)
    try:
        d = parse_obs(obs)
        n, fin = d["FINAL"]
    except Exception as e:  # noqa: BLE001
        return ("output-shape", "unparsable observation (%s): %s" % (e, obs[:200]))
    if len(fin) != n:
        return ("density", "final dump has %d objects for count %d" % (len(fin), n))
    final = []
    for i, o in enumerate(fin):
        if o == "NULL" or "TORN" in o:
            return ("incomplete-object", "final slot %d is %s" % (i + base, o))
        k, _, p = o.rpartition(":")
        final.append((k, int(p)))
    lows = [k.lower() for k, _ in final]
    if len(set(lows)) != len(lows):
        return ("uniqueness", "two slots hold case-insensitively equal keys: %s" % fin)
    progs = [p.split(";") for p in w[4:]]
    attempted = set()
    for t, prog in enumerate(progs):
        rs = d["W"].get(t, [])
        if len(rs) != len(prog):
            return ("output-shape", "writer %d: %d results for %d ops" % (t, len(rs), len(prog)))
        for op, r in zip(prog, rs):
            _, name, p = op.split(":")
            p = int(p)
            if not (K["copyfail"] and p == 99):
                attempted.add(name.lower())
            if r.startswith("s"):
                i = int(r[1:]) - base
                if not (0 <= i < n):
                    return ("density", "writer %d: %s returned slot %s outside 0..count-1" % (t, op, r))
                k, pay = final[i]
                if k.lower() != name.lower() or pay != p or (K["exact"] and k != name):
                    return ("conflicting-reregistration", "writer %d: %s returned %s but that slot holds %s:%d"
                            % (t, op, r, k, pay))
            elif r == "E":
                if K["copyfail"] and p == 99:
                    continue
                hit = [(k, pay) for k, pay in final if k.lower() == name.lower()]
                if not hit:
                    return ("unjustified-failure", "writer %d: %s failed but no such key was ever registered" % (t, op))
                if hit[0][1] == p and (hit[0][0] == name or not K["exact"]):
                    return ("identical-reregistration", "writer %d: %s failed although the table holds the identical %s" % (t, op, hit))
            else:
                return ("output-shape", "writer %d: result %s" % (t, r))
    # every key whose registration can succeed ends up registered exactly once
    if set(lows) - attempted:
        return ("uniqueness", "final table holds keys nobody registered: %s" % (set(lows) - attempted))
    if attempted - set(lows):
        return ("density", "keys were registered but are absent from the final table: %s" % sorted(attempted - set(lows)))
    for t, r in d["R"].items():
        for cnt, what in (("bad", "incomplete-object"), ("moved", "stability"), ("nonmono", "stability")):
            if int(r.get(cnt, "0")) != 0:
                return (what, "reader %d: %s=%s (objects below the loaded count that were incomplete / changed / "
                              "count decreased)" % (t, cnt, r[cnt]))
        ns = [int(x) for x in r.get("ns", "").split(",") if x != ""]
        if any(x > n for x in ns) or ns != sorted(ns):
            return ("stability", "reader %d: count sequence %s (final %d)" % (t, ns, n))
        for o in [x for x in r.get("obs", "").split(",") if x != ""]:
            i, _, rest = o.partition(":")
            k, _, p = rest.rpartition(":")
            i = int(i) - base
            if not (0 <= i < n) or final[i] != (k, int(p)):
                return ("stability", "reader %d saw %s, final table slot holds %s" % (t, o, final[i] if 0 <= i < n else None))
        for o in [x for x in r.get("keys", "").split(",") if x != ""]:
            name, _, rest = o.partition(">")
            if rest == "-":
                continue
            j, _, rest2 = rest.partition(":")
            k, _, p = rest2.rpartition(":")
            j = int(j) - base
            if not (0 <= j < n) or final[j] != (k, int(p)) or k.lower() != name.lower():
                return ("name-slot-agreement", "reader %d: lookup of %s returned %s, slot holds %s"
                        % (t, name, rest, final[j] if 0 <= j < n else None))
    return None


# ----------------------------------------------------------------------------- stages
def run_translator(ctx):
    r = subprocess.run([sys.executable, TRANSLATOR], capture_output=True, text=True, env=dict(os.environ, VERIF_REPO=common.REPO))
    try:
        j = json.loads(r.stdout)
    except Exception:  # noqa: BLE001
        j = {"status": "refused", "why": "translator crashed: " + (r.stderr or r.stdout)[-400:]}
    ctx.oblige("translator c40_orders: engine_global_table.h is inside the understood shape", "translator",
               j["status"] != "refused", j.get("why", ""))
    ctx.oblige("memory orders (release publish after the copy / acquire count()), writer access order, kBlockSize, lock and "
               "comparison shapes", "translator", j["status"] == "ok", json.dumps(j.get("problems", j.get("why", ""))))
    ctx.extra["translator_facts"] = j.get("facts", {})
    return j["status"] == "ok"


def run_seq(ctx, drv, impl, lines, label):
    rc, outs, err = ctx.run_lines([impl], lines)
    # the implementation is run once (process-global registries need one slow fork per line): its recorded output is
    # what ctx.differential compares with the model
    os.makedirs(os.path.join(common.CACHE, "tmp"), exist_ok=True)
    rec = os.path.join(common.CACHE, "tmp", "c40_impl_out_%d_%d.txt" % (ctx.seed, os.getpid()))
    with open(rec, "w") as f:
        f.write("".join(o + "\n" for o in outs))
    try:
        replay_cmd = ["sh", "-c", "cat >/dev/null; cat '%s'; exit %d" % (rec, rc)]
        bad = ctx.differential(label, [drv], replay_cmd, lines,
                               keyf=lambda l: l if sum(1 for t in l.split() if t.startswith("r:")) >= 2 else None)
    finally:
        os.unlink(rec)
    nfail = 0
    if rc == 0 and len(outs) == len(lines):
        for l, o in zip(lines, outs):
            why = oracle_seq(l, o)
            if why:
                nfail += 1
                if nfail <= 5:
                    ctx.oracle_failure("c40:" + why[0], why[1], {"line": l, "impl_output": o,
                                                                 "replay": "echo '%s' | %s" % (l, impl)})
    else:
        ctx.oracle_failure("c40:crash", "harness stopped (rc=%s) after %d of %d lines" % (rc, len(outs), len(lines)),
                           {"stderr": err[-500:], "line": lines[min(len(outs), len(lines) - 1)]})
        nfail += 1
    return outs, bad, nfail


def run_conc(ctx, drv, impl, lines, label, repeat=1):
    """Run every scenario `repeat` times with real threads; oracle on the observation; model decides `allowed`."""
    nfail, nforbid, samples = 0, [], []
    allc, allo = [], []
    for _ in range(repeat):
        rc, outs, err = ctx.run_lines([impl], lines, timeout=1800)
        if rc != 0 or len(outs) != len(lines):
            ctx.oracle_failure("c40:crash", "concurrent harness stopped (rc=%s)" % rc, {"stderr": err[-500:]})
            return 1, []
        allc += lines
        allo += outs
    chk = []
    for l, o in zip(allc, allo):
        ctx.count(l)
        why = oracle_conc(l, o)
        if why:
            nfail += 1
            if nfail <= 5:
                ctx.oracle_failure("c40:" + why[0], why[1] + " [concurrent]",
                                   {"line": l, "impl_observation": o,
                                    "replay": "echo '%s' | %s   (real threads: repeat until the observation shows it)" % (l, impl)})
        chk.append("chk" + l[4:] + " ## " + o)
    rc, verdicts, err = ctx.run_lines([drv], chk, timeout=1800)
    if rc != 0 or len(verdicts) != len(chk):
        raise common.Infra("model driver failed on chk lines: " + err[-300:])
    for c, v in zip(chk, verdicts):
        if v != "allowed":
            nforbid.append({"line": c[:3000], "model": "allowed", "impl": v})
    ctx.oblige("correspondence %s: every real-thread observation is in the model's allowed set (%d runs)" % (label, len(chk)),
               "correspondence", not nforbid, json.dumps(nforbid[:3])[:1800])
    if nforbid:
        ctx.disagreements += [dict(b, stream=label) for b in nforbid[:20]]
    return nfail, allo


def directed_search(ctx):
    """A proof / tie obligation broke and the normal run found no failing input: search harder."""
    st = getattr(ctx, "_c40", None)
    if not st:
        return None
    drv, impl = st
    # heavier concurrent stress on the test instantiation (yields inside CopyObject), then longer random histories
    for rounds in range(6):
        lines = gen_conc(ctx, 60, kinds="ttc")
        rc, outs, _ = ctx.run_lines([impl], lines, timeout=1800)
        if rc != 0:
            return {"key": "c40:crash", "what": "concurrent harness crashed", "replay": {"lines": lines[:3]}}
        for l, o in zip(lines, outs):
            why = oracle_conc(l, o)
            if why:
                return {"key": "c40:" + why[0], "what": why[1] + " [concurrent, directed search]",
                        "replay": {"line": l, "impl_observation": o, "replay": "echo '%s' | %s" % (l, impl)}}
    save = ctx.tier
    ctx.tier = "thorough"
    try:
        lines = gen_seq(ctx)
    finally:
        ctx.tier = save
    rc, outs, _ = ctx.run_lines([impl], lines, timeout=1800)
    for l, o in zip(lines, outs):
        why = oracle_seq(l, o)
        if why:
            return {"key": "c40:" + why[0], "what": why[1] + " [directed search]",
                    "replay": {"line": l, "impl_output": o, "replay": "echo '%s' | %s" % (l, impl)}}
    return None


def run(ctx):
    thorough = ctx.tier == "thorough"
    ctx.rule = ("every line is one complete scenario on a fresh registry (fresh process): sequential histories = exhaustive "
                "over a case-variant alphabet up to length 3/4, all suffixes of length <= 2 after 13..16 / 29..31 distinct "
                "registrations (block boundaries), seeded random histories over pools of up to 40 names (3 blocks), each "
                "followed by a full dump; concurrent scenarios = 2-4 writer threads registering overlapping / case-variant / "
                "conflicting keys across the block boundary and 1-3 polling readers; a case is distinct by its full line; "
                "non-trivial = at least two registrations")
    import time
    tm = {}
    t0 = time.time()
    ctx.lean_props(THEOREMS)
    tm["lean_props_s"] = round(time.time() - t0, 1)
    run_translator(ctx)
    t0 = time.time()
    drv = ctx.driver("drv_c40")
    impl = ctx.harness("harness/cc/c40_table.cc", "c40_table")
    tm["build_driver_harness_s"] = round(time.time() - t0, 1)
    ctx.extra["stage_timing"] = tm
    if not (drv and impl):
        return
    ctx._c40 = (drv, impl)
    ctx.directed_search = directed_search
    t0 = time.time()
    lines = gen_seq(ctx)
    outs, bad, nfail = run_seq(ctx, drv, impl, lines,
                               "GlobalTable<test type> / plugin API / resource-provider API vs Lean transition system (sequential)")
    ctx.extra["oracle_checked_sequential"] = len(lines)
    tm["sequential_s"] = round(time.time() - t0, 1)
    t0 = time.time()
    clines = gen_conc(ctx, 1200 if thorough else 100)
    nfail_c, obs = run_conc(ctx, drv, impl, clines, "real threads vs model", repeat=3 if thorough else 2)
    ctx.extra["oracle_checked_concurrent_runs"] = len(obs)
    tm["concurrent_s"] = round(time.time() - t0, 1)
    ctx.extra["oracle_failures"] = nfail + nfail_c
    if obs:
        polls = [int(x) for o in obs for x in re.findall(r"polls:(\d+)", o)]
        interm = sum(1 for o in obs for r in re.findall(r"ns:([\d,]*)", o) if len(r.split(",")) > 2)
        ctx.extra["concurrent_stats"] = {"reader_polls_total": sum(polls),
                                         "readers_that_saw_intermediate_counts": interm,
                                         "runs_crossing_first_block": sum(1 for o in obs for m in re.findall(r"FINAL=(\d+)", o) if int(m) > BLOCK)}
        ctx.sample({"scenario": clines[0][:300], "observation": obs[0][:400], "model_verdict": "allowed"})
    if outs and len(outs) == len(lines):
        i = next((k for k, l in enumerate(lines) if l.startswith("seq t r:k0:1 r:k1:1") and "r:K0:1" in l), 0)
        ctx.sample({"op": lines[i][:400], "model_and_impl_output": outs[i][:400]})
        ctx.sample({"op": lines[700][:300], "model_and_impl_output": outs[700][:300]})
    if thorough:
        # supporting evidence only: never part of the verdict (a failing TSan build is just recorded)
        try:
            tsan = common.build.build_harness(os.path.join(common.VERIF, "harness/cc/c40_table.cc"), "c40_table_tsan",
                                              "scalar", ("-fsanitize=thread", "-g"))
        except RuntimeError as e:
            tsan = None
            ctx.extra["tsan_supporting"] = {"note": "TSan variant did not build: " + str(e)[-300:]}
        if tsan:
            tl = gen_conc(ctx, 12, kinds="t")
            r = common.sh([tsan], inp="".join(l + "\n" for l in tl), timeout=1200, env={"TSAN_OPTIONS": "exitcode=0"})
            sites = sorted(set(re.findall(r"SUMMARY: ThreadSanitizer: data race \S*?(engine_global_table\.h:\d+)", r.stderr)))
            other = sorted(set(re.findall(r"SUMMARY: ThreadSanitizer: (.*)", r.stderr)))[:6]
            ctx.extra["tsan_supporting"] = {
                "scenarios": len(tl), "reports": r.stderr.count("WARNING: ThreadSanitizer"),
                "race_sites_in_engine_global_table_h": sites, "summaries": other,
                "note": "supporting evidence only (outside the SC model): reports at lines 152/242 are the non-atomic "
                        "TableBlock::next written under the lock and read by GetByKeyUnsafe's walk beyond the published count"}
        ctx.leanchecker(["MjProof.Props.C40"])
