"""C51  First-party plugins honour their documented laws (DESIGN.md §5.C51).

P  Lean theorems over the reals (Props/C51.lean): PID force law, integral clamp (used value and state invariant for
   every control sequence), slew limit (per step and between consecutive steps), state tracking; cable: zero stress
   and zero torque in the stress-free configuration for every chain, about the kernels *generated* from
   plugin/elasticity/cable.cc.
T  translate/c51_cable.py regenerates lean/MjProof/Gen/CablePlugin.lean from the working tree (c2lean) on every run;
   the generated kernels are compared bitwise with the compiled file-local functions of cable.cc (`kern` op); the
   plugins, compiled from the tree and registered through mjp_registerPlugin, run inside the real engine on models
   built with mjSpec, and their per-step inputs are replayed against the Lean machines (bitwise): PID force / act_dot /
   advanced activations for control sequences, cable omega0 / stress for chains.
S  oracle on the implementation alone: PID law recomputed independently per step with its own bookkeeping of the
   previous setpoint and the running integral, clamp and slew bounds on the observable activations, footprint of the
   plugin callbacks on a copy of mjData (only their own slices of d->buffer may change), cable force zero at the
   reference, non-zero away from it, untouched foreign dofs.
"""
import json
import math
import os
import struct
import sys

from checks import common

# lean/MjProof/Gen/CablePlugin.lean is written only by translate/c51_cable.py and read only by this property's modules.
# Instead of the global generated-code lock (long queues behind other properties' worktree runs) a C51 run holds its own
# lock .cache/c51.lock, which translate/c51_cable.py respects when it is started by anybody else (regen_all.py), and is
# additionally guarded by a fingerprint: the generated file carries the content hash of the sources it came from,
# drv_c51 prints it, and the check compares it with the hash of ITS tree before trusting the driver.
USES_GEN = False

META = {
    "technique": "Lean 4 proofs over the reals (clamp/slew invariants by induction over control sequences; algebra of the "
                 "generated cable kernels) + c2lean translation of the plugin kernels regenerated every run with bitwise "
                 "validation + bitwise replay of the real plugins (compiled from the tree, run by the real engine) against the "
                 "Lean machines + independent PID-law / footprint / zero-force oracle",
    "text": "PID (plugin/actuator/pid.cc with the engine's mj_nextActivation): proved for every accepted configuration, state "
            "and input: force = kp*e + ki*I + kd*edot with I the clamped running integral; I used in the force is always in "
            "[-i_max, i_max] and ki*I in [-imax, imax] for the documented attribute (ki > 0); the setpoint is within "
            "slewmax*dt of the stored previous setpoint whenever time > 0; for Euler-advanced activations (dyntype != "
            "filterexact, dt != 0) the integral/previous-setpoint slots store exactly the values just used, hence for every "
            "control sequence the integral state stays in the clamp range and consecutive setpoints differ by at most "
            "slewmax*dt.  Cable (generated kernels composed as Cable::Compute): for every chain, orientation and stiffness, all "
            "stresses and torques are zero when every joint is at its reference (and, with flat=true, when the cable is "
            "straight).",
    "note": "PID model is hand-written (tied by bitwise replay), cable kernels are translated (tied by regeneration + bitwise "
            "validation) and their composition is hand-written (omega0 and the stress array tied bitwise; the torque enters "
            "qfrc_passive through mj_applyFT and is covered by the oracle only).  Theorems are over the reals.  Not covered: RK4 "
            "(integrates activations through its own stages), actlimited on a plugin actuator, several actuators per instance, "
            "the visualisation colouring of the cable.  GENUINE DEFECT found by the oracle and stated as the hypothesis "
            "`dyn != filterexact` of the tracking theorems: with dyntype=filterexact (accepted by Pid::Create) the engine advances "
            "the plugin-owned integral / previous-setpoint activations with the exact-filter formula instead of the Euler rule the "
            "plugin's act_dot assumes, so the stored previous setpoint lags the real one (slew limit exceeded by up to a factor "
            "2 - (tau/dt)(1-exp(-dt/tau))) and the integral accumulates at the rate (tau/dt)(1-exp(-dt/tau)) < 1 "
            "(key c51:pid-filterexact-plugin-state-advance).",
}

THEOREMS = [
    "MjProof.C51.force_eq_pid_law",
    "MjProof.C51.integral_term_def",
    "MjProof.C51.integral_used_in_imax",
    "MjProof.C51.iterm_force_in_imax",
    "MjProof.C51.setpoint_slew_bounded",
    "MjProof.C51.setpoint_state_tracks",
    "MjProof.C51.consecutive_setpoints_slew_bounded",
    "MjProof.C51.integral_state_tracks",
    "MjProof.C51.integral_in_imax",
    "MjProof.C51.integral_in_imax_filterexact",
    "MjProof.C51.stress_zero_at_reference",
    "MjProof.C51.stress_zero_when_straight",
    "MjProof.C51.cable_zero_at_reference",
    "MjProof.C51.cable_flat_zero_when_straight",
    "MjProof.C51.stress_nopull_formula",
]

KERNELS = ["cable_QuatDiff", "cable_LocalStress_pull", "cable_LocalStress_nopull", "cable_subQuat", "cable_rotVecQuat"]
MINVAL = 1e-15


def hx(x):
    return "%016x" % struct.unpack("<Q", struct.pack("<d", float(x)))[0]


def fb(t):
    return struct.unpack("<d", struct.pack("<Q", int(t, 16)))[0]


def clip(x, lo, hi):
    return lo if x < lo else (hi if x > hi else x)


# ------------------------------------------------------------------------------------------ generators
def unit_quat(rng, spread=2.0):
    """unit quaternion: near the identity for spread < 1, uniform otherwise"""
    while True:
        q = ([1.0] + [rng.gauss(0, spread) for _ in range(3)]) if spread < 1 else [rng.gauss(0, 1) for _ in range(4)]
        n = math.sqrt(sum(x * x for x in q))
        if n > 1e-3:
            return [x / n for x in q]


def gen_pid(rng, nsteps):
    kp = rng.choice((0.0, rng.uniform(0.1, 100), rng.uniform(0.1, 100), 40.0))
    ki = rng.choice((0.0, rng.uniform(0.1, 100), rng.uniform(0.1, 100), 40.0))
    kd = rng.choice((0.0, rng.uniform(0.01, 8), 4.0))
    imax = rng.choice((None, None, 0.0, rng.uniform(0.001, 5), rng.uniform(0.001, 0.2)))
    slew = rng.choice((None, None, 0.0, rng.uniform(0.05, 10), rng.uniform(0.05, 2)))
    dt = rng.choice((0.0005, 0.001, 0.002, 0.005, 0.01, rng.uniform(0.0005, 0.01)))
    dyn = rng.choice((0, 0, 0, 0, 1, 2, 3, 3))
    tau = rng.choice((0.1, rng.uniform(0.002, 0.5), dt, 0.0))
    early = int(rng.random() < 0.4) if dyn else 0
    clim = None
    if rng.random() < 0.3:
        lo = -rng.uniform(0.1, 2)
        clim = (lo, lo + rng.uniform(0.2, 3))
    integ = rng.choice((0, 0, 2, 3))
    style = rng.choice(("walk", "steps", "jumps", "const", "sine"))
    u, x = [], rng.uniform(-1, 1)
    for t in range(nsteps):
        if style == "walk":
            x += rng.gauss(0, 0.05)
        elif style == "steps":
            if t % max(1, nsteps // 6) == 0:
                x = rng.uniform(-2, 2)
        elif style == "jumps":
            x = rng.uniform(-3, 3)
        elif style == "sine":
            x = 1.5 * math.sin(0.3 * t)
        u.append(x)
    return {"kp": kp, "ki": ki, "kd": kd, "imax": imax, "slew": slew, "dt": dt, "dyn": dyn, "tau": tau, "early": early,
            "clim": clim, "integ": integ, "u": u, "style": style}


def pid_line(c):
    return "pid kp=%s ki=%s kd=%s imax=%s slew=%s dt=%s dyn=%d tau=%s early=%d clim=%s integ=%d ownexact=? u=%s" % (
        hx(c["kp"]), hx(c["ki"]), hx(c["kd"]), hx(c["imax"]) if c["imax"] is not None else "-",
        hx(c["slew"]) if c["slew"] is not None else "-", hx(c["dt"]), c["dyn"], hx(c["tau"]), c["early"],
        (hx(c["clim"][0]) + "," + hx(c["clim"][1])) if c["clim"] else "-", c["integ"], ",".join(hx(x) for x in c["u"]))


def gen_cable(rng, kind):
    n = rng.randint(2, 9)
    geom = rng.choice((3, 5, 6))
    return {"n": n, "first": rng.choice((0, 1, 2)), "flat": 1 if kind == "straight" else (0 if kind == "ref" else rng.choice((0, 1))),
            "twist": rng.choice((0.0, rng.uniform(1e3, 1e7))) if rng.random() < 0.15 else rng.uniform(1e3, 1e7),
            "bend": rng.uniform(1e3, 1e7), "geom": geom,
            "size": [rng.uniform(0.003, 0.03), rng.uniform(0.003, 0.03), rng.uniform(0.003, 0.03)],
            "len": rng.uniform(0.03, 0.3),
            "quats": sum((unit_quat(rng, rng.choice((0.05, 0.3, 2.0))) for _ in range(n)), []),
            "qseed": "ref" if kind == "ref" else "straight" if kind == "straight" else str(rng.randrange(1 << 30))}


def cable_line(c):
    return "cable n=%d first=%d flat=%d twist=%s bend=%s vmax=%s geom=%d size=%s len=%s quats=%s qseed=%s" % (
        c["n"], c["first"], c["flat"], hx(c["twist"]), hx(c["bend"]), hx(0.0), c["geom"], ",".join(hx(x) for x in c["size"]),
        hx(c["len"]), ",".join(hx(x) for x in c["quats"]), c["qseed"])


# ------------------------------------------------------------------------------------------ PID oracle
def parse_trace(out):
    """trace nact=K  {time ctrl len vel nact nactdot | force adI adP aI aP ;}  foot=.. warn=.."""
    t = out.split()
    if not t or t[0] != "trace":
        return None
    meta = {"nact": int(t[1].split("=")[1]), "ownexact": int(t[2].split("=")[1]), "foot": t[-2].split("=", 1)[1],
            "warn": int(t[-1].split("=")[1])}
    body = " ".join(t[3:-2])
    steps = []
    for rec in body.split(";"):
        if not rec.strip():
            continue
        a, b = rec.split("|")
        steps.append((a.split(), b.split()))
    return meta, steps


def val(tok):
    return None if tok == "-" else fb(tok)


def pid_oracle(c, meta, steps, stats):
    """independent recomputation of the documented law; returns list of (key, what)"""
    bad = []
    if meta["foot"] != "ok":
        bad.append(("c51:pid-callback-writes-outside-own-slices", meta["foot"]))
    kp, ki, kd, dt = c["kp"], c["ki"], c["kd"], c["dt"]
    imax = (c["imax"] / ki) if (c["imax"] is not None and ki != 0) else None
    slew = c["slew"]
    has_i, has_p = ki != 0, slew is not None
    if meta["nact"] != int(has_i) + int(has_p) + int(c["dyn"] != 0):
        bad.append(("c51:pid-activation-layout", "actuator has %d activations" % meta["nact"]))
    sp_prev, integ = None, 0.0            # the oracle's own bookkeeping: last setpoint, running integral
    # the recorded defect class: filterexact actuator whose plugin-owned slots the engine really advances with the
    # exact-filter rule (measured on the real mj_nextActivation by the harness)
    state_defect = c["dyn"] == 3 and (has_i or has_p) and meta["ownexact"] == 1
    key_law = "c51:pid-filterexact-plugin-state-advance" if state_defect else "c51:pid-force-law"
    tauc = max(MINVAL, c["tau"])
    for k, (ins, outs) in enumerate(steps):
        time, u, ln, vel = fb(ins[0]), fb(ins[1]), fb(ins[2]), fb(ins[3])
        nact, nactdot = val(ins[4]), val(ins[5])
        force, adI, adP, aI, aP = (val(x) for x in outs)
        if c["dyn"] == 0:
            raw0 = raw1 = clip(u, *c["clim"]) if c["clim"] else u
            ctrl_dot = 0.0
        else:
            raw0 = nact
            nxt = nact + nactdot * (tauc * (1 - math.exp(-dt / tauc)) if c["dyn"] == 3 else dt)
            raw1 = nxt if c["early"] else nact
            ctrl_dot = nactdot
        lim = has_p and time > 0 and sp_prev is not None
        sp0 = clip(raw0, sp_prev - slew * dt, sp_prev + slew * dt) if lim else raw0
        sp1 = clip(raw1, sp_prev - slew * dt, sp_prev + slew * dt) if lim else raw1
        e0, e1 = sp0 - ln, sp1 - ln

        def integral(e):
            if not has_i:
                return 0.0
            x = integ + e * dt
            return clip(x, -imax, imax) if imax is not None else x
        want = kp * e1 + kd * (ctrl_dot - vel) + ki * integral(e1)
        scale = abs(kp * e1) + abs(kd * (ctrl_dot - vel)) + abs(ki * integral(e1)) + abs(kp) * 1e-9 + 1e-12
        if not state_defect and abs(force - want) <= 1e-7 * scale:
            stats["pid_force_rel"] = max(stats.get("pid_force_rel", 0.0), abs(force - want) / scale)
        if not abs(force - want) <= 1e-7 * scale:
            bad.append((key_law, "step %d: force %.17g, PID law gives %.17g (setpoint %.17g, previous setpoint %s, integral %.17g)"
                        % (k, force, want, sp1, sp_prev, integral(e1))))
            break
        # observable states
        new_i = integral(e0)
        if has_i:
            if imax is not None and not abs(aI) <= imax * (1 + 1e-9) + 1e-300:
                bad.append(("c51:pid-integral-outside-imax", "step %d: integral state %.17g, i_max %.17g" % (k, aI, imax)))
                break
            if not state_defect:
                stats["pid_state_rel"] = max(stats.get("pid_state_rel", 0.0), abs(aI - new_i) / (abs(new_i) + abs(e0 * dt) + 1e-12))
            if not abs(aI - new_i) <= 1e-7 * (abs(new_i) + abs(e0 * dt) + 1e-12):
                bad.append((key_law if state_defect else "c51:pid-integral-state",
                            "step %d: integral activation %.17g, running clamped integral %.17g" % (k, aI, new_i)))
                break
        if has_p:
            if not state_defect:
                stats["pid_state_rel"] = max(stats.get("pid_state_rel", 0.0), abs(aP - sp0) / (abs(sp0) + slew * dt + 1e-12))
            if not abs(aP - sp0) <= 1e-7 * (abs(sp0) + slew * dt + 1e-12):
                bad.append((key_law if state_defect else "c51:pid-setpoint-state",
                            "step %d: previous-setpoint activation %.17g, setpoint used %.17g" % (k, aP, sp0)))
                break
            if sp_prev is not None and time > 0 and not abs(sp0 - sp_prev) <= slew * dt * (1 + 1e-9) + 1e-15:
                bad.append(("c51:pid-slew-exceeded", "step %d: setpoint moved by %.17g > slewmax*dt = %.17g" % (k, abs(sp0 - sp_prev), slew * dt)))
                break
        integ, sp_prev = new_i, sp0
    return bad


def trace_finite(steps):
    for ins, outs in steps:
        for tk in ins + outs:
            if tk != "-":
                v = fb(tk)
                if v != v or abs(v) > 1e12:
                    return False
    return True


# ------------------------------------------------------------------------------------------ cable oracle
def cable_oracle(c, out):
    bad = []
    parts = out.split(" | ")
    if len(parts) != 3 or not parts[0].startswith("dump"):
        return [("c51:cable-harness-output", out[:200])], None
    tail = parts[2].split()
    kv = dict(x.split("=", 1) for x in tail if "=" in x)
    nv, dof0 = int(kv["nv"]), int(kv["dof0"])
    qfrc = [fb(x) for x in tail[1:1 + nv]]
    res = parts[1].split()
    n = c["n"]
    stress = [fb(x) for x in res[2 + 3 * n:2 + 6 * n]]
    recs = [r.split() for r in parts[0][5:].split(";") if r.strip()]
    stiff = [[fb(x) for x in r[12:16]] for r in recs]
    scale = max(max(abs(s[0]), abs(s[1]), abs(s[2])) / max(s[3], 1e-6) for s in stiff[1:]) if n > 1 else 1.0
    if kv["foot"] != "ok":
        bad.append(("c51:cable-callback-writes-outside-qfrc_passive", kv["foot"]))
    if any(q != 0 for q in qfrc[:dof0]):
        bad.append(("c51:cable-force-on-foreign-dof", "qfrc_passive of dofs before the cable: %s" % qfrc[:dof0]))
    zmax = max([abs(q) for q in qfrc] + [0.0])
    if c["qseed"] == "ref" and not c["flat"]:
        if not zmax <= 1e-10 * scale or any(s != s for s in qfrc):
            bad.append(("c51:cable-force-at-reference", "max |qfrc_passive| = %g at qpos0 (stiffness scale %g)" % (zmax, scale)))
        if any(abs(s) > 1e-10 * scale for s in stress):
            bad.append(("c51:cable-stress-at-reference", "max |stress| = %g at qpos0" % max(abs(s) for s in stress)))
    elif c["qseed"] == "straight" and c["flat"]:
        if not zmax <= 1e-7 * scale:
            bad.append(("c51:cable-force-when-straight", "max |qfrc_passive| = %g for the straight flat cable (scale %g)" % (zmax, scale)))
    elif c["qseed"] not in ("ref", "straight"):
        if scale > 0 and not zmax > 0:
            bad.append(("c51:cable-no-force-away-from-reference", "qfrc_passive is identically zero for a bent cable"))
    return bad, {"zmax": zmax, "scale": scale}


# ------------------------------------------------------------------------------------------ run
def run(ctx):
    ctx.rule = ("PID: gains kp/ki/kd in {0} U [0.01,100], imax/slewmax absent/0/positive, dt 0.5-10 ms, dyntype none/integrator/"
                "filter/filterexact x actearly, ctrlrange, Euler/implicit/implicitfast, control sequences (random walk, steps, "
                "jumps, constant, sine) replayed step by step; cable: chains of 2-9 bodies, first body welded/ball/free, capsule/"
                "cylinder/box, random frame orientations (small to arbitrary), flat or curved reference, at the reference, "
                "straight, and at random joint rotations; kernels: random inputs; a case is distinct by its full line")
    # ---- C51 runs are serialised and own lean/MjProof/Gen/CablePlugin.lean for their duration (see translate/c51_cable.py)
    import fcntl
    os.makedirs(common.CACHE, exist_ok=True)
    lock = open(os.path.join(common.CACHE, "c51.lock"), "a")
    fcntl.flock(lock, fcntl.LOCK_EX)
    try:
        run_locked(ctx)
    finally:
        fcntl.flock(lock, fcntl.LOCK_UN)
        lock.close()


def run_locked(ctx):
    own = {"C51_LOCK_HELD": "1"}
    # ---- T: regenerate the cable kernels from the working tree
    sys.path.insert(0, os.path.join(common.VERIF, "translate"))
    import c51_cable
    expected_id = c51_cable.source_key()
    mp = os.path.join(common.LEAN, "MjProof", "Gen", "cable_manifest.json")
    drv = None
    for attempt in range(3):
        r = common.sh([sys.executable, os.path.join(common.VERIF, "translate", "c51_cable.py")], timeout=900, env=own)
        man = json.load(open(mp)) if os.path.exists(mp) else {"kernels": {}, "refused": {"*": "no manifest"}}
        if attempt == 0:
            ctx.oblige("translate/c51_cable.py regenerates lean/MjProof/Gen/CablePlugin.lean from the working tree", "translator",
                       r.returncode == 0, (r.stdout + r.stderr)[-1500:])
            for k in KERNELS:
                ok = k in man["kernels"] and k not in man["refused"]
                ctx.oblige("c2lean translates %s%s" % (k, " (sha %s)" % man["kernels"][k]["sha256"][:12] if ok else ""), "translator", ok,
                           man["refused"].get(k, "missing"))
            ctx.lean_props(THEOREMS)
        drv = ctx.driver("drv_c51")
        if not drv:
            break
        rc, og, _ = ctx.run_lines([drv], ["genid " + expected_id])
        if rc == 0 and og == ["genid " + expected_id]:
            break
        drv = None
    else:
        raise common.Infra("lean/MjProof/Gen/CablePlugin.lean keeps being regenerated from another tree (expected id %s)" % expected_id)
    ctx.extra["generated_cable_kernels_id"] = expected_id
    R = common.REPO
    impl = ctx.harness("harness/cc/c51_plugins.cc", "c51_plugins", extra=["-I" + os.path.join(R, "plugin")],
                       deps=[os.path.join(R, "plugin", "actuator", "pid.cc"), os.path.join(R, "plugin", "actuator", "pid.h"),
                             os.path.join(R, "plugin", "elasticity", "cable.cc"), os.path.join(R, "plugin", "elasticity", "cable.h")])
    try:
        run_streams(ctx, drv, impl, expected_id)
    finally:
        if os.path.realpath(R) != "/repo":
            # leave the shared generated file as /repo's
            env = dict(os.environ, **own)
            env.pop("VERIF_REPO", None)
            import subprocess
            subprocess.run([sys.executable, os.path.join(common.VERIF, "translate", "c51_cable.py")], capture_output=True, text=True, env=env)


def run_streams(ctx, drv, impl, expected_id):
    if not impl:
        return
    thorough = ctx.tier == "thorough"
    rng = ctx.rng
    npid, nsteps = (4000, 200) if thorough else (400, 80)
    ncable = 1000 if thorough else 90
    nkern = 3000 if thorough else 300

    # ---- pass 1 (oracle stream): traces and dumps from the implementation alone
    pids = [gen_pid(rng, rng.choice((nsteps, nsteps, 12, 3))) for _ in range(npid)]
    # invalid configurations: Pid::Create must refuse them
    invalid = []
    for _ in range(6 if not thorough else 40):
        c = gen_pid(rng, 5)
        if rng.random() < 0.5:
            c["ki"], c["imax"] = -abs(c["ki"] or 3.0), rng.uniform(0.1, 2)      # i_max = imax/ki < 0
        else:
            c["slew"] = -rng.uniform(0.1, 3)
        invalid.append(c)
    cables = [gen_cable(rng, k) for k in (["ref"] * (ncable // 3) + ["straight"] * (ncable // 6) + ["rand"] * (ncable - ncable // 3 - ncable // 6))]
    l1 = [pid_line(c) for c in pids] + [pid_line(c) for c in invalid] + [cable_line(c) for c in cables]
    rc, o1, err = ctx.run_lines([impl], l1)
    if rc != 0 or len(o1) != len(l1):
        idx = min(len(o1), len(l1) - 1)
        ctx.oracle_failure("c51:crash", "plugin harness died (rc=%s) on line %d" % (rc, idx),
                           {"line": l1[idx][:4000], "stderr": err[-400:], "replay": "echo '<line>' | c51_plugins"})
        return
    nfail, hist = 0, {}
    diff_lines = []
    skipped_unstable = 0
    own = {}
    worst = {"pid_force_rel": 0.0, "pid_state_rel": 0.0, "cable_zero_at_reference": 0.0, "cable_zero_straight_rel": 0.0}

    def fail(key, what, replay):
        nonlocal nfail
        nfail += 1
        if sum(1 for f in ctx.oracle_failures if f["key"] == key) < 3:
            ctx.oracle_failure(key, what, replay)

    for c, l, o in zip(pids, l1, o1):
        pt = parse_trace(o)
        tag = "dyn%d%s%s%s" % (c["dyn"], "+I" if c["ki"] else "", "+slew" if c["slew"] is not None else "", "+early" if c["early"] else "")
        hist[tag] = hist.get(tag, 0) + 1
        if pt is None:
            fail("c51:pid-harness-output", "unexpected output: " + o[:200], {"line": l[:4000]})
            continue
        meta, steps = pt
        if meta["warn"] or not trace_finite(steps):
            skipped_unstable += 1
            continue
        for key, what in pid_oracle(c, meta, steps, worst):
            fail(key, what, {"line": l[:6000], "config": {k: v for k, v in c.items() if k != "u"}, "u": c["u"][:40],
                             "replay": "echo '<line>' | c51_plugins   (prints the per-step trace: time ctrl len vel nact nactdot | "
                                       "force actdotI actdotP actI' actP')"})
        ins = " ".join(" ".join(a) for a, _ in steps)
        diff_lines.append(l.replace("ownexact=?", "ownexact=%d" % meta["ownexact"]) + " | " + ins)
        own[meta["ownexact"]] = own.get(meta["ownexact"], 0) + (c["dyn"] == 3 and (c["ki"] != 0 or c["slew"] is not None))
    for c, l, o in zip(invalid, l1[len(pids):], o1[len(pids):]):
        if o != "create-failed":
            fail("c51:pid-invalid-config-accepted", "negative i_max / slewmax accepted: " + o[:120], {"line": l[:3000]})
        diff_lines.append(l.replace("ownexact=?", "ownexact=0") + " | " +
                          " ".join("0000000000000000 %s 0000000000000000 0000000000000000 - -" % hx(u) for u in c["u"]))
    base = len(pids) + len(invalid)
    for c, l, o in zip(cables, l1[base:], o1[base:]):
        tag = "cable:%s%s:first%d" % (c["qseed"] if c["qseed"] in ("ref", "straight") else "rand", ":flat" if c["flat"] else "", c["first"])
        hist[tag] = hist.get(tag, 0) + 1
        bad, info = cable_oracle(c, o)
        for key, what in bad:
            fail(key, what, {"line": l[:6000], "impl_output": o[-600:], "replay": "echo '<line>' | c51_plugins"})
        if info:
            if c["qseed"] == "ref" and not c["flat"]:
                worst["cable_zero_at_reference"] = max(worst["cable_zero_at_reference"], info["zmax"])
            if c["qseed"] == "straight" and c["flat"] and info["scale"] > 0:
                worst["cable_zero_straight_rel"] = max(worst["cable_zero_straight_rel"], info["zmax"] / info["scale"])
        if o.startswith("dump "):
            diff_lines.append(l + " | " + o.split(" | ")[0][5:])
    # kernels
    for _ in range(nkern):
        name, nin = rng.choice((("QuatDiff", 8), ("LocalStress_pull", 11), ("LocalStress_nopull", 11)))
        style = rng.choice(("gauss", "unitq", "small", "wide"))
        v = [rng.gauss(0, 1) if style != "wide" else rng.uniform(-1, 1) * 10 ** rng.randint(-8, 8) for _ in range(nin)]
        if style == "small":
            v = [x * 1e-9 for x in v]
        if style == "unitq":
            qi = 0 if name == "QuatDiff" else 4
            v[qi:qi + 4] = unit_quat(rng, rng.choice((1e-9, 0.1, 2.0)))
            if name == "QuatDiff":
                v[4:8] = unit_quat(rng, 2.0)
        if name != "QuatDiff":
            v[0:4] = [abs(x) for x in v[0:4]]
        diff_lines.append("kern %s %s" % (name, " ".join(hx(x) for x in v)))
    diff_lines = ["genid " + expected_id] + diff_lines + ["frob 1", "pid kp=1", "kern QuatDiff 0000000000000000"]
    ctx.extra["case_histogram"] = hist
    ctx.extra["pid_configs_dropped_as_numerically_unstable"] = skipped_unstable
    ctx.extra["oracle_failures"] = nfail
    ctx.extra["filterexact_configs_with_owned_slots_by_measured_engine_rule"] = {("exact-filter" if k else "euler"): v for k, v in own.items()}
    ctx.extra["oracle_checked"] = len(l1)
    ctx.extra["float_deviation"] = dict(worst, comparison="replay: bitwise; PID-law oracle: threshold 1e-7 relative (pid_force_rel / pid_state_rel = "
                                        "largest deviation measured on this run outside the recorded defect class); cable at reference: "
                                        "exact zero expected, threshold 1e-10*stiffness/length; straight flat cable: threshold 1e-7 relative")
    if drv:
        ctx.differential("PID replay / cable omega0+stress / generated cable kernels: Lean(Float) vs the plugins of the tree, bitwise",
                         [drv], [impl], diff_lines, keyf=lambda l: l if "|" in l or l.startswith("kern ") and len(l) > 60 else None)
    for pref in ("pid ", "cable ", "kern "):
        for l in diff_lines:
            if l.startswith(pref) and len(l) > 80:
                ctx.sample({"op": l.split("|")[0][:220] + " ...", "tokens": len(l.split())})
                break
    if thorough:
        ctx.leanchecker(["MjProof.Props.C51"])
