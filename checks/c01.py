"""C01  Simulation is a deterministic function of the integration state (DESIGN.md §5.C01).

Shared machinery for C01 and C04 (checks/c04.py imports it): the timeout-guarded wrapper around the
implementation-side harness harness/c/c01_pipeline.c, the Lean-side tables printed by `drv_c01`, the model /
scenario generators, the footprint validation (V1/V2) and the poison differentials."""
import json
import os
import select
import subprocess
import sys

from . import common, kernelval

sys.path.insert(0, common.VERIF)
from gen import models  # noqa: E402
from gen.enums import E  # noqa: E402

META = {
    "technique": "Lean 4 proof: sound abstract dataflow analysis (read-before-write / may-write / must-determine) of the "
                 "clang-translated call skeletons of mj_step / mj_forward / mj_inverse over a stage footprint table, "
                 "non-interference theorem for every interpretation respecting the table; the table is validated against "
                 "the real engine by per-stage write / poison tests; property oracle = bitwise poison differentials",
    "text": "Proved (all guards, integrators, loop trip counts, interpretations): abs_sound (non-interference: data agreeing on "
            "I ⊇ analysed read-before-write set run in lock step and agree on I ∪ determined groups), frame_sound; the "
            "read-before-write sets of the inlined skeletons of mj_forward / mj_step (all integrators) / mj_inverse, computed by "
            "the kernel on the programs regenerated from engine_forward.c / engine_inverse.c on every run, lie inside the "
            "integration-state groups derived from mjSTATE_INTEGRATION + mj_stateElemPtr (plus allocation constants, qacc for "
            "mj_inverse); hence forward/step/inverse outputs of two mjData with equal integration state agree on every "
            "determined group (corollaries for copyData / copyState / setState receivers). Sleeping models: the analysis shows "
            "(and the oracle confirms) that derived arrays of sleeping trees are latent state: only mj_copyData copies are "
            "claimed there.",
    "note": "footprints are per stage function and per field group, hand-written (lean/MjProof/Model/Footprint.lean) and only "
            "validated dynamically (V1: changed fields ⊆ may-write groups; V2: non-read groups poisoned ⇒ read ∪ determined "
            "groups bitwise equal) on generated models without flex / plugins / user callbacks; statics reachable only inside "
            "larger calls (mj_advance, mj_discreteAcc, stack bookkeeping) are validated through the whole-function "
            "differentials only; lazily evaluated caches (energy, subtree velocities, rne-post) are compared as "
            "flag + (cache if flag set); diagnostics (timers, warnings, solver statistics, maxuse_*) are excluded; memory "
            "exhaustion paths are outside the model.",
}

THEOREMS = [
    "MjProof.Prog.abs_sound",
    "MjProof.Prog.frame_sound",
    "MjProof.C01.classification_covers_all_fields",
    "MjProof.C01.cond_fields_classified",
    "MjProof.C01.state_groups_are_integration_state",
    "MjProof.C01.translator_refused_nothing",
    "MjProof.C01.all_stages_have_footprints",
    "MjProof.C01.no_calls_left",
    "MjProof.C01.forward_inputs_subset_state",
    "MjProof.C01.step_inputs_subset_state",
    "MjProof.C01.inverse_inputs_subset_state_partial",
    "MjProof.C01.inverse_reads_actuation",
    "MjProof.C01.forward_sleep_inputs_partial",
    "MjProof.C01.forward_determines_outputs",
    "MjProof.C01.step_determines_state",
    "MjProof.C01.inverse_determines_outputs",
    "MjProof.C01.run_noninterference",
    "MjProof.C01.forward_deterministic",
    "MjProof.C01.step_deterministic",
    "MjProof.C01.inverse_deterministic_partial",
    "MjProof.C01.forward_after_copyState",
    "MjProof.C01.step_after_copyState",
]

HARNESS_SRC = "harness/c/c01_pipeline.c"
GEN_DIR = os.path.join(common.LEAN, "MjProof", "Gen")
NEVER_POISON = {"memc", "stack", "handle", "locals"}
NEVER_COMPARE = {"handle", "diag", "locals"}
INTEGRATORS = ("mjINT_EULER", "mjINT_RK4", "mjINT_IMPLICIT", "mjINT_IMPLICITFAST")


# ------------------------------------------------------------------------------------------ harness wrapper
class HarnessDied(Exception):
    pass


class Harness:
    """line-protocol wrapper with a timeout per command (poisoned data may send the engine into a long loop)"""

    def __init__(self, exe, timeout=20.0):
        self.exe, self.timeout = exe, timeout
        self.log = []
        self.start()

    def start(self):
        self.p = subprocess.Popen([self.exe], stdin=subprocess.PIPE, stdout=subprocess.PIPE, stderr=subprocess.DEVNULL, bufsize=0)
        self.buf = b""

    def _readline(self):
        while b"\n" not in self.buf:
            r, _, _ = select.select([self.p.stdout], [], [], self.timeout)
            if not r:
                self.p.kill()
                raise HarnessDied("timeout")
            chunk = os.read(self.p.stdout.fileno(), 1 << 16)
            if not chunk:
                raise HarnessDied("exit rc=%s" % self.p.poll())
            self.buf += chunk
        i = self.buf.index(b"\n")
        line, self.buf = self.buf[:i], self.buf[i + 1:]
        return line.decode()

    def cmd(self, line):
        self.log.append(line)
        try:
            self.p.stdin.write((line + "\n").encode())
            self.p.stdin.flush()
        except (BrokenPipeError, OSError):
            raise HarnessDied("broken pipe")
        return self._readline()

    def model(self, text):
        self.log = ["model\n" + text.rstrip("\n")]
        try:
            self.p.stdin.write(("model\n" + text).encode())
            self.p.stdin.flush()
        except (BrokenPipeError, OSError):
            raise HarnessDied("broken pipe")
        return self._readline()

    def ok(self, line):
        r = self.cmd(line)
        if r != "ok":
            raise RuntimeError("harness: %r -> %r" % (line[:120], r))
        return r

    def close(self):
        try:
            self.p.stdin.close()
            self.p.wait(timeout=5)
        except Exception:
            self.p.kill()

    def replay_text(self):
        return "\n".join(self.log) + "\n"


# ------------------------------------------------------------------------------------------ Lean side
class LeanInfo:
    """what drv_c01 prints: groups, field classification, stage footprints, analysis results"""

    def __init__(self, drv):
        self.drv = drv
        self.cache = {}
        out = self._ask(["groups", "classify", "stages 0", "stages 1", "cond"])
        self.cond = json.loads(out[4])
        self.groups = json.loads(out[0])
        self.classify = json.loads(out[1])
        self.stages = {False: json.loads(out[2]), True: json.loads(out[3])}

    def _ask(self, lines):
        r = common.sh([self.drv], inp="".join(l + "\n" for l in lines), timeout=600)
        if r.returncode != 0:
            raise common.Infra("drv_c01 failed: " + r.stderr[-300:])
        out = r.stdout.split("\n")
        if len(out) < len(lines) or any(o == "bad-op" for o in out[:len(lines)]):
            raise common.Infra("drv_c01: bad answer for %r" % lines)
        return out

    def analyze(self, entry, sleeping=False, integ="-", args=()):
        key = (entry, sleeping, integ, tuple(args))
        if key not in self.cache:
            line = "analyze %s %d %s %s" % (entry, 1 if sleeping else 0, integ, " ".join(str(a) for a in args))
            self.cache[key] = json.loads(self._ask([line.strip()])[0])
        return self.cache[key]

    def fields_of(self, groups, present):
        """harness field names (with slices) of the given groups, restricted to the fields the harness lists"""
        gs = set(groups)
        out = []
        for f, fg in self.classify.items():
            if len(fg) == 1:
                if fg[0] in gs and f in present:
                    out.append(f)
            else:
                for g in fg:
                    if g in gs and (f + "@" + g) in present:
                        out.append(f + "@" + g)
        return out

    def group_of_field(self, name):
        if "@" in name:
            return [name.split("@")[1]]
        return self.classify.get(name, [])




# ------------------------------------------------------------------------------------------ models
DISABLE_EXTRA = ("mjDSBL_CONSTRAINT", "mjDSBL_EQUALITY", "mjDSBL_FRICTIONLOSS", "mjDSBL_LIMIT", "mjDSBL_CONTACT",
                 "mjDSBL_SPRING", "mjDSBL_DAMPER", "mjDSBL_GRAVITY", "mjDSBL_CLAMPCTRL", "mjDSBL_ACTUATION", "mjDSBL_REFSAFE",
                 "mjDSBL_NATIVECCD")
ENABLE_EXTRA = ("mjENBL_OVERRIDE", "mjENBL_FWDINV", "mjENBL_INVDISCRETE")


def enum_or_none(name):
    try:
        return E(name)
    except Exception:
        return None


def make_model(rng, sleep=0.0, integrator=None, extra_flags=True, history=0.3, profile=None):
    """a generated model + post-processing of the description lines (allowed by the guide): more option flags,
    history buffers (delayed actuators / sensors), userdata, noslip iterations"""
    prof = {"sleep": sleep, "energy": 0.5, "sensors": (1, 6), "actuators": (0, 3), "nbody": (1, 5),
            "equalities": 0.35, "tendons": 0.4}
    if integrator:
        prof["integrators"] = (integrator,)
    prof.update(profile or {})
    mdl = models.ModelGen(rng, prof).make()
    lines = list(mdl.lines)
    opts = {"disable": 0, "enable": 0}
    for i, l in enumerate(lines):
        w = l.split()
        if w[:2] == ["option", "disableflags"]:
            v = int(w[2])
            if extra_flags:
                for nm in DISABLE_EXTRA:
                    bit = enum_or_none(nm)
                    if bit is not None and rng.random() < 0.06:
                        v |= bit
            lines[i] = "option disableflags %d" % v
            opts["disable"] = v
        elif w[:2] == ["option", "enableflags"]:
            v = int(w[2])
            if extra_flags:
                for nm in ENABLE_EXTRA:
                    bit = enum_or_none(nm)
                    if bit is not None and rng.random() < 0.12:
                        v |= bit
            lines[i] = "option enableflags %d" % v
            opts["enable"] = v
    if extra_flags and rng.random() < 0.15:
        lines.insert(0, "option noslip_iterations %d" % rng.choice((1, 3)))
    if rng.random() < 0.3:
        lines.insert(0, "spec nuserdata %d" % rng.randint(1, 4))
    # history buffers: delayed controls / sensors
    out = []
    for l in lines:
        out.append(l)
        w = l.split()
        if w[0] == "actuator" and rng.random() < history:
            out.append("set %s nsample %d" % (w[1], rng.randint(2, 4)))
            out.append("set %s delay %r" % (w[1], rng.uniform(0.001, 0.01)))
            out.append("set %s interp %d" % (w[1], rng.choice((0, 1))))
        if w[0] == "sensor" and rng.random() < history:
            out.append("set %s nsample %d" % (w[1], rng.randint(2, 4)))
            r = rng.random()
            if r < 0.4:
                out.append("set %s delay %r" % (w[1], rng.uniform(0.001, 0.01)))
            elif r < 0.7:
                out.append("set %s interval %r" % (w[1], rng.uniform(0.002, 0.02)))
            out.append("set %s interp %d" % (w[1], rng.choice((0, 1))))
    mdl.lines = out
    mdl.optflags = opts
    return mdl


def integrator_of(mdl):
    return "mjINT_" + mdl.options["integrator"].upper()


def state_cmds(k, st, mdl_sizes=None):
    out = []
    for f in ("qpos", "qvel", "act", "ctrl", "mocap_pos", "mocap_quat", "qfrc_applied", "xfrc_applied"):
        if st.get(f):
            out.append("set %d %s %s" % (k, f, " ".join(repr(float(x)) for x in st[f])))
    return out


class Scene:
    """one model loaded in a harness, with the Lean tables at hand"""

    def __init__(self, h, info, mdl, sleeping):
        self.h, self.info, self.mdl, self.sleeping = h, info, mdl, sleeping
        r = h.model(mdl.text())
        self.loaded = r.startswith("ok")
        self.load_msg = r
        if not self.loaded:
            return
        self.sizes = dict(zip(r.split()[1::2], (int(x) for x in r.split()[2::2])))
        for fl, caches in info.cond.items():
            h.ok("lazydef %s %s" % (fl, " ".join(caches)))
        h.ok("data 0")
        fl = h.cmd("fields 0").split()
        self.present = {x.rsplit(":", 1)[0]: int(x.rsplit(":", 1)[1]) for x in fl}
        self.stages = info.stages[sleeping]

    def fields(self, groups):
        return self.info.fields_of(groups, self.present)

    def random_state(self, rng, k, extra=True):
        st = self.mdl.random_state(rng)
        cmds = ["call %d resetData" % k] + state_cmds(k, st)
        if extra:
            if self.sizes.get("nuserdata"):
                cmds.append("set %d userdata %s" % (k, " ".join(repr(rng.uniform(-1, 1)) for _ in range(self.sizes["nuserdata"]))))
            if self.sizes.get("neq") and rng.random() < 0.3:
                cmds.append("set %d eq_active %s" % (k, " ".join(str(rng.choice((0, 1))) for _ in range(self.sizes["neq"]))))
            cmds.append("set %d time %r" % (k, rng.uniform(0, 2)))
        for c in cmds:
            self.h.ok(c)
        return cmds


# ------------------------------------------------------------------------------------------ V1 / V2: footprint validation
STAGE_CALL = {
    "mj_fwdPosition": "fwdPosition", "mj_sensorPos": "sensorPos", "mj_energyPos": "energyPos",
    "mj_fwdVelocity": "fwdVelocity", "mj_sensorVel": "sensorVel", "mj_energyVel": "energyVel",
    "mj_fwdActuation": "fwdActuation", "mj_fwdAcceleration": "fwdAcceleration", "mj_fwdConstraint": "fwdConstraint",
    "mj_sensorAcc": "sensorAcc", "mj_invPosition": "invPosition", "mj_invConstraint": "invConstraint",
    "mj_EulerSkip(m, d, 0)": "EulerSkip 0", "mj_implicitSkip(m, d, 0)": "implicitSkip 0", "mj_resetData": "resetData",
}
FWD_ORDER = ["mj_fwdPosition", "mj_sensorPos", "mj_energyPos", "mj_fwdVelocity", "mj_sensorVel", "mj_energyVel",
             "mj_fwdActuation", "mj_fwdAcceleration", "mj_fwdConstraint", "mj_sensorAcc"]
INV_ORDER = ["mj_invPosition", "mj_sensorPos", "mj_fwdVelocity", "mj_sensorVel", "mj_invConstraint", "mj_sensorAcc"]


def validate_stage(sc, rng, key, src=0, a=1, b=2):
    """V1 + V2 for stage `key` from the data in slot `src`; leaves the advanced data in slot `a`.
    Returns (list of problems, stats)."""
    h, info = sc.h, sc.info
    fp = sc.stages.get(key)
    problems = []
    call = STAGE_CALL[key]
    if fp is None:
        return [{"kind": "no-footprint", "stage": key}], {}
    R, W, K = set(fp["R"]), set(fp["W"]), set(fp["K"])
    h.ok("copydata %d %d" % (a, src))
    r = h.cmd("call %d %s" % (a, call))
    if r != "ok":
        return [{"kind": "stage-error", "stage": key, "msg": r}], {}
    # V1: changed fields belong to may-write groups
    changed = h.cmd("cmp %d %d *" % (src, a)).split()
    if changed != ["="]:
        for f in changed:
            if "@" in f or f in ("sensordata", "energy"):
                gs = info.group_of_field(f) if "@" in f else []
                if not gs:
                    continue      # the whole array is reported through its slices
            else:
                gs = info.group_of_field(f)
            if not gs:
                problems.append({"kind": "unclassified-field", "stage": key, "field": f})
            elif not any(g in W for g in gs):
                problems.append({"kind": "V1-write-outside-footprint", "stage": key, "field": f, "groups": gs})
    # V2: poison every group outside R, compare R ∪ K
    pois_groups = [g for g in info.groups if g not in R and g not in NEVER_POISON]
    pf = sc.fields(pois_groups)
    seed = rng.randrange(1 << 30)
    h.ok("copydata %d %d" % (b, src))
    h.ok("poison %d %d %s $arena" % (b, seed, " ".join(pf)))
    r = h.cmd("call %d %s" % (b, call))
    if r != "ok":
        problems.append({"kind": "V2-error-after-poison", "stage": key, "msg": r, "seed": seed})
        return problems, {"poisoned": len(pf)}
    cf = sc.fields([g for g in (R | K) if g not in NEVER_COMPARE])
    diff = h.cmd("cmpl %d %d %s" % (a, b, " ".join(cf))) if cf else "="
    if diff != "=":
        problems.append({"kind": "V2-read-outside-footprint", "stage": key, "differing": diff.split()[:12], "seed": seed,
                         "poisoned_groups": pois_groups})
    return problems, {"poisoned": len(pf), "compared": len(cf)}


def validate_model(sc, rng, nstates=1):
    """walk the forward pipeline, the integrator and the inverse pipeline of one model; returns problems + counts"""
    h = sc.h
    problems, nst = [], 0
    h.ok("data 1")
    h.ok("data 2")
    for _ in range(nstates):
        sc.random_state(rng, 0)
        for _ in range(rng.randint(0, 3)):
            if h.cmd("call 0 step") != "ok":
                break
        order = list(FWD_ORDER)
        integ = integrator_of(sc.mdl)
        if integ == "mjINT_EULER":
            order.append("mj_EulerSkip(m, d, 0)")
        elif integ in ("mjINT_IMPLICIT", "mjINT_IMPLICITFAST"):
            order.append("mj_implicitSkip(m, d, 0)")
        order += INV_ORDER
        if rng.random() < 0.3:
            order.append("mj_resetData")
        for key in order:
            pr, _ = validate_stage(sc, rng, key)
            nst += 1
            for p in pr:
                p["replay"] = {"model": sc.mdl.text(), "commands": h.log[1:][-60:]}
            problems += pr
            if any(p["kind"] in ("stage-error",) for p in pr):
                break
            h.ok("copydata 0 1")
    return problems, nst


# ------------------------------------------------------------------------------------------ poison differentials (oracle)
def make_receiver(sc, rng, kind, src, dst, I_groups, sig):
    """build in slot dst an mjData that holds the integration state of slot src; returns a description"""
    h = sc.h
    keep = set(I_groups) | NEVER_POISON
    if kind == "copydata+poison":
        h.ok("copydata %d %d" % (dst, src))
        pg = [g for g in sc.info.groups if g not in keep]
        seed = rng.randrange(1 << 30)
        h.ok("poison %d %d %s $arena" % (dst, seed, " ".join(sc.fields(pg))))
        return {"kind": kind, "seed": seed}
    h.ok("data %d" % dst)
    desc = {"kind": kind}
    if kind.startswith("used"):
        # leftovers of an unrelated history
        sc.random_state(rng, dst)
        n = rng.randint(1, 4)
        for _ in range(n):
            if h.cmd("call %d step" % dst) != "ok":
                break
        desc["used_steps"] = n
    elif kind.startswith("reset"):
        sc.random_state(rng, dst)
        h.cmd("call %d step" % dst)
        h.ok("call %d resetData" % dst)
    elif kind.startswith("junk"):
        pg = [g for g in sc.info.groups if g not in keep]
        seed = rng.randrange(1 << 30)
        h.ok("poison %d %d %s $arena" % (dst, seed, " ".join(sc.fields(pg))))
        desc["seed"] = seed
    if kind.endswith("setstate"):
        h.ok("xferstate %d %d %d" % (dst, src, sig))
    else:
        h.ok("copystate %d %d %d" % (dst, src, sig))
    return desc


RECEIVERS = ("copydata+poison", "fresh+copystate", "fresh+setstate", "reset+copystate", "used+copystate", "used+setstate",
             "junk+copystate")
ENTRY_PROG = {"forward": "mj_forward", "step": "mj_step", "inverse": "mj_inverse"}


def differential(sc, rng, entry, receiver, sig, nsteps=1, src=0, dst=3):
    """run `entry` on slot src and on a receiver holding the same inputs; compare the groups the Lean analysis claims.
    The inputs are exactly the analysed read-before-write set (proved ⊆ state ∪ rest [∪ qacc, actuation for inverse]):
    groups of that set that the state API does not transfer are copied field by field.  Returns None or a failure."""
    h, info = sc.h, sc.info
    integ = integrator_of(sc.mdl)
    an = info.analyze(ENTRY_PROG[entry], sc.sleeping, integ if entry == "step" else "-")
    state_groups = set(g for f in sc.state_fields for g in info.classify[f["field"]])
    I = set(an["rbw"]) | state_groups
    desc = make_receiver(sc, rng, receiver, src, dst, I, sig)
    extra_in = [g for g in I if g not in state_groups and g not in NEVER_POISON and g != "sleep"]
    if receiver != "copydata+poison":
        for f in sc.fields(extra_in):
            v = h.cmd("get %d %s" % (src, f)).split(":", 1)[1].split()
            if v:
                ty = "x" if all(len(x) == 16 for x in v) else ""
                h.ok("set %d %s %s" % (dst, f, " ".join(ty + x for x in v)))
        desc["copied_inputs"] = extra_in
    claimed = [g for g in set(an["killN"] or []) | state_groups if g not in NEVER_COMPARE]
    if sc.sleeping:
        claimed = [g for g in info.groups if g not in NEVER_COMPARE and g != "iscratch"]
    call = entry
    for i in range(nsteps):
        r1 = h.cmd("call %d %s" % (src, call))
        r2 = h.cmd("call %d %s" % (dst, call))
        if r1 != r2:
            return {"what": "different outcome", "src": r1, "dst": r2, "receiver": desc, "entry": entry, "step": i}
        if r1 != "ok":
            return None
        cf = sc.fields(claimed)
        diff = h.cmd("cmpl %d %d %s" % (src, dst, " ".join(cf)))
        if diff != "=":
            return {"what": "outputs differ", "fields": diff.split()[:16], "receiver": desc, "entry": entry, "step": i,
                    "claimed_groups": sorted(claimed)}
    return None


def load_state_fields():
    j = json.load(open(os.path.join(GEN_DIR, "DataFields.json")))
    if "refused" in j:
        return None, j
    return j["integration_state"], j


# ------------------------------------------------------------------------------------------ run
def build_all(ctx):
    kernelval.regen(ctx)
    man = json.load(open(os.path.join(GEN_DIR, "pipeline_manifest.json")))
    ctx.oblige("skeleton translator refused nothing", "translator", not man.get("refused"), json.dumps(man.get("refused")))
    ctx.oblige("skeleton translated from this tree", "translator", man.get("repo") == common.REPO, "%s vs %s" % (man.get("repo"), common.REPO))
    sf, dj = load_state_fields()
    ctx.oblige("mjData field translator refused nothing", "translator", sf is not None, json.dumps(dj.get("refused")))
    ctx.oblige("field list translated from this tree", "translator", dj.get("repo") == common.REPO, "%s vs %s" % (dj.get("repo"), common.REPO))
    return man, sf, dj


def run(ctx):
    rng = ctx.rng
    thorough = ctx.tier == "thorough"
    ctx.rule = ("generated models (gen/models.py + extra flags / history buffers / userdata) × random states; a case = (model, state, "
                "stage or entry point, receiver kind); non-trivial = nv > 0")
    man, sf, dj = build_all(ctx)
    ctx.lean_props(THEOREMS)
    drv = ctx.driver("drv_c01")
    exe = ctx.harness(HARNESS_SRC, "c01_pipeline", deps=["harness/mjbuild.h"])
    if not drv or not exe or sf is None:
        return
    info = LeanInfo(drv)
    sig = dj["integration_sig"]
    # the harness observes exactly the members the translator found
    h = Harness(exe)
    nmodels = 120 if thorough else 14
    nV, nD, vprob, fails = 0, 0, [], []
    hist = {}
    crashed = 0
    for mi in range(nmodels):
        sleeping = False
        mdl = make_model(rng, sleep=0.0)
        try:
            sc = Scene(h, info, mdl, sleeping)
            if not sc.loaded:
                continue
            sc.state_fields = sf
            if mi == 0:
                missing = [f["name"] for f in dj["fields"] if f["name"] not in sc.present]
                ctx.oblige("harness observes every member of struct mjData_", "correspondence", not missing, str(missing))
            pr, n = validate_model(sc, rng)
            nV += n
            vprob += pr
            for entry in ("forward", "step", "inverse"):
                for rec in RECEIVERS:
                    if not thorough and rng.random() < 0.5:
                        continue
                    sc.random_state(rng, 0)
                    for _ in range(rng.randint(0, 3)):
                        h.cmd("call 0 step")
                    if entry == "inverse":
                        h.cmd("call 0 forward")
                    f = differential(sc, rng, entry, rec, sig, nsteps=(3 if entry == "step" else 1))
                    nD += 1
                    hist[entry + ":" + rec] = hist.get(entry + ":" + rec, 0) + 1
                    ctx.count((mi, entry, rec), nontrivial=sc.sizes.get("nv", 0) > 0)
                    if f:
                        f["replay"] = {"model": mdl.text(), "commands": h.log[1:][-80:]}
                        fails.append(f)
        except HarnessDied as e:
            crashed += 1
            fails.append({"what": "harness died (%s)" % e, "replay": {"model": mdl.text(), "commands": h.log[1:][-80:]}})
            h = Harness(exe)
    h.close()
    ctx.extra["stage_validations"] = nV
    ctx.extra["differentials"] = hist
    ctx.oblige("footprint table validated on the real engine (V1/V2, %d stage runs)" % nV, "correspondence", not vprob,
               json.dumps(vprob[:4])[:1800])
    for f in fails[:6]:
        ctx.oracle_failure("c01:" + f["what"].split(" (")[0], f["what"], f)
    ctx.extra["oracle_failures"] = len(fails)
