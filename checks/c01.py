"""C01  Simulation is a deterministic function of the integration state (DESIGN.md §5.C01).

Shared machinery for C01 and C04 (checks/c04.py imports it): the timeout-guarded wrapper around the
implementation-side harness harness/c/c01_pipeline.c, the Lean-side tables printed by `drv_c01`, the model /
scenario generators, the footprint validation (V1/V2) and the poison differentials.

Two layers.  Pipeline layer: mj_step / mj_forward / mj_inverse are translated and analysed over a table of stage
footprints.  Second layer: the constraint stage (mj_fwdConstraint with the static warmstart, mj_invConstraint) — where the
solver / warm-start / island / noslip options select which arena arrays are an initial iterate and which are recomputed —
is translated too and analysed against the footprints of its leaf calls (the solvers, mj_constraintUpdate, mj_mulJacVec,
...); the result must refine the stage's table entry (MjProof.C01.fwdConstraint_refines_footprint), so a branch that stops
determining an array a solver reads breaks a proof for every option combination at once.  The leaf footprints are validated
on the real engine like the stage footprints.  The models come from an option PLAN that covers the cells
solver x warm start x islands x noslip (instead of sampling them independently) and half of them are constraint-rich."""
import json
import os
import select
import subprocess
import sys

from . import common, kernelval

sys.path.insert(0, common.VERIF)
from gen import models  # noqa: E402
from gen.enums import E  # noqa: E402

META = {
    "technique": "Lean 4 proof: sound abstract dataflow analysis (read-before-determined / may-write / must-determine) of the "
                 "clang-translated call skeletons of mj_step / mj_forward / mj_inverse over a stage footprint table, "
                 "non-interference theorem for every interpretation of the stages respecting the table (data-dependent guards, "
                 "while-loops with fuel, ret/err scoping included); second layer: the translated bodies of mj_fwdConstraint (+ static "
                 "warmstart) and mj_invConstraint analysed per solver over leaf footprints and proved to refine their table entries; "
                 "stage and leaf footprints are validated against the real engine by write / poison tests; property oracle = bitwise "
                 "poison differentials on the real engine over an option plan covering solver x warm start x islands x noslip",
    "text": "Proved once, for every interpretation / model-constant environment / fuel: Prog.abs_sound (two data agreeing on I ⊇ the "
            "analysed read-before-determined set run in lock step and agree afterwards on I and on the determined groups) and "
            "Prog.frame_sound.  Kernel-evaluated on the programs regenerated from engine_forward.c / engine_inverse.c on every "
            "run: the inputs of mj_forward, of mj_step (each of the 4 integrators and the unknown-integrator join) and of mj_inverse "
            "lie inside the integration-state groups derived from mjSTATE_INTEGRATION + mj_stateElemPtr (+ allocation constants, "
            "empty stack, function locals, the all-awake sleep bookkeeping; + qacc and — surfaced, _partial — the actuator forces for "
            "mj_inverse); every member of struct mjData_ is classified.  Hence forward / step / inverse on two mjData with equal "
            "integration state agree on the state and on every determined output group, whatever the receiver held "
            "(forward_after_copyState, step_after_copyState).  Second layer, kernel-evaluated on the bodies regenerated from the tree: "
            "for PGS, CG and Newton, with and without constraint rows, and for every value of the warm-start / island / noslip / "
            "sparsity flags, mj_fwdConstraint reads only pos / vel / smooth / qacc_warmstart before determining it and determines "
            "qfrc_constraint, efc_force, efc_b, solver_niter, qacc (fwdConstraint_refines_footprint, fwdConstraint_deterministic; whole-array "
            "writes mju_zero / mju_copy / mju_gather of the declared size count as determining a single-member group, "
            "singleton_groups_have_one_member); likewise mj_invConstraint.  With mjENBL_SLEEP the analysis shows (forward_sleep_inputs_partial) "
            "and the oracle confirms that the derived arrays of sleeping trees are latent state: only mj_copyData copies are claimed.",
    "note": "footprints are per stage function (per leaf call inside the constraint stage) and per field group, hand-written (lean/MjProof/Model/Footprint.lean) and validated only "
            "dynamically (V1: changed fields ⊆ may-write groups; V2: every non-read group and the free arena filled with junk ⇒ read ∪ "
            "determined groups bitwise equal) on generated models without flex / plugins / user callbacks; statics reachable only inside "
            "larger calls (mj_advance, mj_discreteAcc, stack bookkeeping) are validated through the whole-function differentials only; "
            "the leaves of the constraint stage are validated from post-mj_forward states (and the cold-start point efc_force = 0), the island "
            "dispatch through mju_dispatch with a callback making the same three-way solver choice as the engine's static one; the bodies of "
            "the other stage functions (position, velocity, actuation, sensors, integrators) are not translated. "
            "Lazily evaluated caches (energy, subtree velocities, rne-post) are compared as flag + (cache if the flag is set); members "
            "that are meaningful only under a condition (sparse Jacobian index arrays, act_dot with actuation disabled, nidof without "
            "islands, unused tails of efc_J / wrap arrays) are compared under that condition; diagnostics (timers, warnings, solver "
            "statistics, maxuse_*, bvh_active), solver scratch (island-ordered vectors, efc_state, contact.H) and addresses are not "
            "compared; memory-exhaustion paths are outside the model.  Findings reported under stable keys: c01:sleep-latent-state "
            "(documented upstream), c01:inverse-stale-actuator-force, c01:efc_state-stale-with-islands.",
}

THEOREMS = [
    "MjProof.Prog.abs_sound",
    "MjProof.Prog.frame_sound",
    "MjProof.C01.classification_covers_all_fields",
    "MjProof.C01.cond_fields_classified",
    "MjProof.C01.state_groups_are_integration_state",
    "MjProof.C01.translator_refused_nothing",
    "MjProof.C01.all_stages_have_footprints",
    "MjProof.C01.no_calls_left",
    "MjProof.C01.singleton_groups_have_one_member",
    "MjProof.C01.all_leaves_have_footprints",
    "MjProof.C01.no_sub_calls_left",
    "MjProof.C01.sub_programs_are_bodies",
    "MjProof.C01.fwdConstraint_refines_footprint",
    "MjProof.C01.invConstraint_refines_footprint",
    "MjProof.C01.fwdConstraint_unknown_solver_reads_island_copies",
    "MjProof.C01.sub_noninterference",
    "MjProof.C01.fwdConstraint_deterministic",
    "MjProof.C01.forward_inputs_subset_state",
    "MjProof.C01.step_inputs_subset_state",
    "MjProof.C01.inverse_inputs_subset_state_partial",
    "MjProof.C01.inverse_reads_actuation",
    "MjProof.C01.forward_sleep_inputs_partial",
    "MjProof.C01.forward_determines_outputs",
    "MjProof.C01.step_determines_state",
    "MjProof.C01.inverse_determines_outputs",
    "MjProof.C01.run_noninterference",
    "MjProof.C01.forward_deterministic",
    "MjProof.C01.step_deterministic",
    "MjProof.C01.inverse_deterministic_partial",
    "MjProof.C01.forward_after_copyState",
    "MjProof.C01.step_after_copyState",
]

HARNESS_SRC = "harness/c/c01_pipeline.c"
GEN_DIR = os.path.join(common.LEAN, "MjProof", "Gen")
NEVER_POISON = {"memc", "stack", "handle", "locals"}
NEVER_COMPARE = {"handle", "diag", "locals"}
INTEGRATORS = ("mjINT_EULER", "mjINT_RK4", "mjINT_IMPLICIT", "mjINT_IMPLICITFAST")


# ------------------------------------------------------------------------------------------ harness wrapper
class HarnessDied(Exception):
    pass


class Harness:
    """line-protocol wrapper with a timeout per command (poisoned data may send the engine into a long loop)"""

    def __init__(self, exe, timeout=20.0):
        self.exe, self.timeout = exe, timeout
        self.log = []
        self.prev_log = []
        self.start()

    def start(self):
        self.p = subprocess.Popen([self.exe], stdin=subprocess.PIPE, stdout=subprocess.PIPE, stderr=subprocess.DEVNULL, bufsize=0)
        self.buf = b""

    def _readline(self):
        while b"\n" not in self.buf:
            r, _, _ = select.select([self.p.stdout], [], [], self.timeout)
            if not r:
                self.p.kill()
                raise HarnessDied("timeout")
            chunk = os.read(self.p.stdout.fileno(), 1 << 16)
            if not chunk:
                raise HarnessDied("exit rc=%s" % self.p.poll())
            self.buf += chunk
        i = self.buf.index(b"\n")
        line, self.buf = self.buf[:i], self.buf[i + 1:]
        return line.decode()

    def cmd(self, line):
        self.log.append(line)
        try:
            self.p.stdin.write((line + "\n").encode())
            self.p.stdin.flush()
        except (BrokenPipeError, OSError):
            raise HarnessDied("broken pipe")
        return self._readline()

    def model(self, text):
        self.prev_log = self.log          # if the process dies while replacing a model, the culprit is the previous session
        self.log = ["model\n" + text.rstrip("\n")]
        try:
            self.p.stdin.write(("model\n" + text).encode())
            self.p.stdin.flush()
        except (BrokenPipeError, OSError):
            raise HarnessDied("broken pipe")
        return self._readline()

    def ok(self, line):
        r = self.cmd(line)
        if r != "ok":
            raise RuntimeError("harness: %r -> %r" % (line[:120], r))
        return r

    def close(self):
        try:
            self.p.stdin.close()
            self.p.wait(timeout=5)
        except Exception:
            self.p.kill()

    def replay_text(self):
        return "\n".join(self.log) + "\n"


# ------------------------------------------------------------------------------------------ Lean side
class LeanInfo:
    """what drv_c01 prints: groups, field classification, stage footprints, analysis results"""

    def __init__(self, drv):
        self.drv = drv
        self.cache = {}
        out = self._ask(["groups", "classify", "stages 0", "stages 1", "cond"])
        self.cond = json.loads(out[4])
        self.groups = json.loads(out[0])
        self.classify = json.loads(out[1])
        self.stages = {False: json.loads(out[2]), True: json.loads(out[3])}

    def _ask(self, lines):
        r = common.sh([self.drv], inp="".join(l + "\n" for l in lines), timeout=600)
        if r.returncode != 0:
            raise common.Infra("drv_c01 failed: " + r.stderr[-300:])
        out = r.stdout.split("\n")
        if len(out) < len(lines) or any(o == "bad-op" for o in out[:len(lines)]):
            raise common.Infra("drv_c01: bad answer for %r" % lines)
        return out

    def analyze(self, entry, sleeping=False, integ="-", args=()):
        key = (entry, sleeping, integ, tuple(args))
        if key not in self.cache:
            line = "analyze %s %d %s %s" % (entry, 1 if sleeping else 0, integ, " ".join(str(a) for a in args))
            self.cache[key] = json.loads(self._ask([line.strip()])[0])
        return self.cache[key]

    def leaves(self, solver):
        """footprints of the leaf calls of the second layer (constraint stage) for a solver name or None"""
        key = ("leaves", solver)
        if key not in self.cache:
            self.cache[key] = json.loads(self._ask(["leaves %s" % (solver or "-")])[0])
        return self.cache[key]

    def subanalyze(self, fn, solver, nefc):
        key = ("sub", fn, solver, nefc)
        if key not in self.cache:
            self.cache[key] = json.loads(self._ask(["subanalyze %s %s %s" % (fn, solver or "-", "-" if nefc is None else int(nefc))])[0])
        return self.cache[key]

    def fields_of(self, groups, present):
        """harness field names (with slices) of the given groups, restricted to the fields the harness lists"""
        gs = set(groups)
        out = []
        for f, fg in self.classify.items():
            if len(fg) == 1:
                if fg[0] in gs and f in present:
                    out.append(f)
            else:
                for g in fg:
                    if g in gs and (f + "@" + g) in present:
                        out.append(f + "@" + g)
        return out

    def group_of_field(self, name):
        if "@" in name:
            return [name.split("@")[1]]
        return self.classify.get(name, [])




# ------------------------------------------------------------------------------------------ models
DISABLE_EXTRA = ("mjDSBL_CONSTRAINT", "mjDSBL_EQUALITY", "mjDSBL_FRICTIONLOSS", "mjDSBL_LIMIT", "mjDSBL_CONTACT",
                 "mjDSBL_SPRING", "mjDSBL_DAMPER", "mjDSBL_GRAVITY", "mjDSBL_CLAMPCTRL", "mjDSBL_ACTUATION", "mjDSBL_REFSAFE",
                 "mjDSBL_NATIVECCD")
ENABLE_EXTRA = ("mjENBL_OVERRIDE", "mjENBL_FWDINV", "mjENBL_INVDISCRETE")


def enum_or_none(name):
    try:
        return E(name)
    except Exception:
        return None


SOLVERS = ("PGS", "CG", "Newton")
# profile of a constraint-rich scene: a floor, several free bodies dropped into each other and into the floor (see
# rich_state), joint limits, friction loss, equalities, tendons — many coupled active constraint rows of every kind
RICH_PROFILE = {"plane": 1.0, "free": 0.7, "nbody": (2, 5), "limits": 0.6, "frictionloss": 0.5, "equalities": 0.6,
                "tendons": 0.5, "contacts": 1.0, "mocap": 0.05, "static_body": 0.05}


def option_plan(rng, n):
    """option vectors for n models: the constraint-stage factors solver x warm start x islands x noslip (24 cells) are
    COVERED, not sampled — every aligned block of 12 models contains each (solver, warm start, islands) cell once and
    every aligned block of 24 each cell of the full product; cone / Jacobian / integrator are balanced shuffles.  Half of
    the models are constraint-rich scenes.  (Independent sampling left rare cells such as PGS without warm start at 1/30.)"""
    cells = [(so, ws, isl) for so in SOLVERS for ws in (True, False) for isl in (True, False)]
    plan = []
    while len(plan) < n:
        first = list(cells)
        rng.shuffle(first)
        slip = [i % 2 == 0 for i in range(len(cells))]
        rng.shuffle(slip)
        ns = dict(zip(first, slip))
        second = list(cells)
        rng.shuffle(second)
        # aligned blocks of 12 contain every (solver, warm start, islands) cell once; the second block of a pair flips the
        # noslip assignment of each cell, so aligned blocks of 24 contain every cell of the full product
        plan += [{"solver": c[0], "warmstart": c[1], "islands": c[2], "noslip": ns[c]} for c in first]
        plan += [{"solver": c[0], "warmstart": c[1], "islands": c[2], "noslip": not ns[c]} for c in second]
    plan = plan[:n]

    def balanced(values):
        seq = []
        while len(seq) < n:
            v = list(values)
            rng.shuffle(v)
            seq += v
        return seq[:n]
    for p, cone, jac, integ, rich in zip(plan, balanced(("pyramidal", "elliptic")), balanced(("dense", "sparse", "auto")),
                                         balanced(("Euler", "RK4", "implicit", "implicitfast")), balanced((True, False))):
        p.update(cone=cone, jacobian=jac, integrator=integ, rich=rich)
    return plan


def plan_profile(opt):
    prof = {"solvers": (opt["solver"],), "no_warmstart": 0.0 if opt["warmstart"] else 1.0, "islands": 1.0 if opt["islands"] else 0.0,
            "cones": (opt["cone"],), "jacobians": (opt["jacobian"],), "integrators": (opt["integrator"],)}
    if opt.get("rich"):
        prof.update(RICH_PROFILE)
    return prof


def rich_state(mdl, st, rng):
    """a state of a constraint-rich scene: free bodies close together just above / inside the floor, hinge / slide
    joints often outside their limits"""
    q = list(st["qpos"])
    for j in mdl.joints:
        a = j["qposadr"]
        if j["type"] == "free":
            q[a] = rng.uniform(-0.25, 0.25)
            q[a + 1] = rng.uniform(-0.25, 0.25)
            q[a + 2] = rng.uniform(0.0, 0.3)
        elif j["type"] != "ball" and j["limited"] and rng.random() < 0.5:
            lo, hi = j["range"]
            q[a] = rng.choice((lo - rng.uniform(0.0, 0.1), hi + rng.uniform(0.0, 0.1)))
    st["qpos"] = q
    st["qvel"] = [0.3 * v for v in st["qvel"]]
    return st


def make_model(rng, sleep=0.0, integrator=None, extra_flags=True, history=0.3, profile=None, opt=None):
    """a generated model + post-processing of the description lines (allowed by the guide): more option flags,
    history buffers (delayed actuators / sensors), userdata, noslip iterations.  `opt` (an entry of option_plan) fixes
    the constraint-stage options instead of sampling them."""
    prof = {"sleep": sleep, "energy": 0.5, "sensors": (1, 6), "actuators": (0, 3), "nbody": (1, 5),
            "equalities": 0.35, "tendons": 0.4}
    if integrator:
        prof["integrators"] = (integrator,)
    if opt:
        prof.update(plan_profile(opt))
        prof["gravcomp"] = 0.15
    prof.update(profile or {})
    mdl = models.ModelGen(rng, prof).make()
    mdl.rich = bool(opt and opt.get("rich"))
    lines = list(mdl.lines)
    opts = {"disable": 0, "enable": 0}
    for i, l in enumerate(lines):
        w = l.split()
        if w[:2] == ["option", "disableflags"]:
            v = int(w[2])
            if extra_flags:
                for nm in DISABLE_EXTRA:
                    bit = enum_or_none(nm)
                    if bit is not None and rng.random() < 0.06:
                        v |= bit
            lines[i] = "option disableflags %d" % v
            opts["disable"] = v
        elif w[:2] == ["option", "enableflags"]:
            v = int(w[2])
            if extra_flags:
                for nm in ENABLE_EXTRA:
                    bit = enum_or_none(nm)
                    if bit is not None and rng.random() < 0.12:
                        v |= bit
            lines[i] = "option enableflags %d" % v
            opts["enable"] = v
    if (opt["noslip"] if opt else (extra_flags and rng.random() < 0.15)):
        lines.insert(0, "option noslip_iterations %d" % rng.choice((1, 3)))
        opts["noslip"] = True
    if opt and rng.random() < 0.35:
        # few solver iterations: the result depends strongly on the initial iterate (warm start, stale arrays)
        opts["iterations"] = rng.choice((1, 2, 3, 5))
        lines.insert(0, "option iterations %d" % opts["iterations"])
    if opt and rng.random() < 0.2:
        opts["tolerance"] = 0
        lines.insert(0, "option tolerance 0")
    if rng.random() < 0.3:
        lines.insert(0, "spec nuserdata %d" % rng.randint(1, 4))
    # history buffers: delayed controls / sensors
    out = []
    for l in lines:
        out.append(l)
        w = l.split()
        if w[0] == "actuator" and rng.random() < history:
            out.append("set %s nsample %d" % (w[1], rng.randint(2, 4)))
            out.append("set %s delay %r" % (w[1], rng.uniform(0.001, 0.01)))
            out.append("set %s interp %d" % (w[1], rng.choice((0, 1))))
        if w[0] == "sensor" and rng.random() < history:
            out.append("set %s nsample %d" % (w[1], rng.randint(2, 4)))
            r = rng.random()
            if r < 0.4:
                out.append("set %s delay %r" % (w[1], rng.uniform(0.001, 0.01)))
            elif r < 0.7:
                out.append("set %s interval %r" % (w[1], rng.uniform(0.002, 0.02)))
            out.append("set %s interp %d" % (w[1], rng.choice((0, 1))))
    # acceleration-stage sensors that go through the lazily evaluated rne-post / subtree caches
    hmax = max([int(w.split()[1]) for w in out if len(w.split()) > 1 and w.split()[1].isdigit()] + [0])
    if mdl.sites and rng.random() < 0.7:
        for st in rng.sample(["ACCELEROMETER", "FORCE", "TORQUE", "FRAMELINACC", "SUBTREELINVEL"], 2):
            hmax += 1
            out.append("sensor %d" % hmax)
            out.append("set %d type %d" % (hmax, E("mjSENS_" + st)))
            if st == "SUBTREELINVEL":
                out.append("set %d objtype %d" % (hmax, E("mjOBJ_BODY")))
                out.append("set %d objname %s" % (hmax, rng.choice(mdl.bodies)["name"]))
            else:
                out.append("set %d objtype %d" % (hmax, E("mjOBJ_SITE")))
                out.append("set %d objname %s" % (hmax, rng.choice(mdl.sites)["name"]))
    mdl.lines = out
    mdl.optflags = opts
    return mdl


def integrator_of(mdl):
    return "mjINT_" + mdl.options["integrator"].upper()


def state_cmds(k, st, mdl_sizes=None):
    out = []
    for f in ("qpos", "qvel", "act", "ctrl", "mocap_pos", "mocap_quat", "qfrc_applied", "xfrc_applied"):
        if st.get(f):
            out.append("set %d %s %s" % (k, f, " ".join(repr(float(x)) for x in st[f])))
    return out


class Scene:
    """one model loaded in a harness, with the Lean tables at hand"""

    def __init__(self, h, info, mdl, sleeping):
        self.h, self.info, self.mdl, self.sleeping = h, info, mdl, sleeping
        r = h.model(mdl.text())
        self.loaded = r.startswith("ok")
        self.load_msg = r
        if not self.loaded:
            return
        self.sizes = dict(zip(r.split()[1::2], (int(x) for x in r.split()[2::2])))
        for fl, caches in info.cond.items():
            h.ok("lazydef %s %s" % (fl, " ".join(caches)))
        h.ok("data 0")
        fl = h.cmd("fields 0").split()
        self.present = {x.rsplit(":", 1)[0]: int(x.rsplit(":", 1)[1]) for x in fl}
        self.stages = info.stages[sleeping]

    def fields(self, groups):
        return self.info.fields_of(groups, self.present)

    def random_state(self, rng, k, extra=True):
        st = self.mdl.random_state(rng)
        if getattr(self.mdl, "rich", False) and rng.random() < 0.8:
            st = rich_state(self.mdl, st, rng)
        # a fresh mjData: an engine error (longjmp out of a call) may have left the previous one with a live stack frame
        cmds = ["data %d" % k] + state_cmds(k, st)
        if extra:
            if self.sizes.get("nuserdata"):
                cmds.append("set %d userdata %s" % (k, " ".join(repr(rng.uniform(-1, 1)) for _ in range(self.sizes["nuserdata"]))))
            if self.sizes.get("neq") and rng.random() < 0.3:
                cmds.append("set %d eq_active %s" % (k, " ".join(str(rng.choice((0, 1))) for _ in range(self.sizes["neq"]))))
            cmds.append("set %d time %r" % (k, rng.uniform(0, 2)))
        for c in cmds:
            self.h.ok(c)
        return cmds


# ------------------------------------------------------------------------------------------ V1 / V2: footprint validation
STAGE_CALL = {
    "mj_fwdPosition": "fwdPosition", "mj_sensorPos": "sensorPos", "mj_energyPos": "energyPos",
    "mj_fwdVelocity": "fwdVelocity", "mj_sensorVel": "sensorVel", "mj_energyVel": "energyVel",
    "mj_fwdActuation": "fwdActuation", "mj_fwdAcceleration": "fwdAcceleration", "mj_fwdConstraint": "fwdConstraint",
    "mj_sensorAcc": "sensorAcc", "mj_invPosition": "invPosition", "mj_invConstraint": "invConstraint",
    "mj_EulerSkip(m, d, 0)": "EulerSkip 0", "mj_implicitSkip(m, d, 0)": "implicitSkip 0", "mj_resetData": "resetData",
}
FWD_ORDER = ["mj_fwdPosition", "mj_sensorPos", "mj_energyPos", "mj_fwdVelocity", "mj_sensorVel", "mj_energyVel",
             "mj_fwdActuation", "mj_fwdAcceleration", "mj_fwdConstraint", "mj_sensorAcc"]
INV_ORDER = ["mj_invPosition", "mj_sensorPos", "mj_fwdVelocity", "mj_sensorVel", "mj_invConstraint", "mj_sensorAcc"]


# (history is left out: it is a structured buffer whose cursor the engine trusts)
WITNESS_SAFE = {"time", "qpos", "qvel", "act", "qacc_warmstart", "ctrl", "qfrc_applied", "xfrc_applied", "mocap_pos",
                "mocap_quat", "vel", "actuation", "smooth", "cfrc", "qacc", "qfrc_inverse", "sensPos", "sensVel", "sensAcc"}


def witness_reads(sc, rng, key, witness, src=0, a=1, b=2):
    """thorough tier: for each (float-valued) group in the reads of `key`, does junk in that group alone change the stage's
    determined outputs on this model?  (a witness that the `reads` entry is real; absence proves nothing)"""
    h = sc.h
    fp = sc.stages.get(key)
    if not fp:
        return
    cf = sc.fields([g for g in fp["K"] if g not in NEVER_COMPARE])
    if not cf:
        return
    for r in fp["R"]:
        if r not in WITNESS_SAFE:
            continue
        fs = sc.fields([r])
        if not fs:
            continue
        h.ok("copydata %d %d" % (b, src))
        h.ok("poison %d %d %s" % (b, rng.randrange(1 << 30), " ".join(fs)))
        if h.cmd("call %d %s" % (b, STAGE_CALL[key])) != "ok":
            continue
        d = h.cmd("cmpl %d %d %s" % (a, b, " ".join(c for c in cf if c not in fs)))
        k = "%s<-%s" % (key, r)
        witness[k] = witness.get(k, 0) + (1 if d != "=" else 0)


def validate_stage(sc, rng, key, src=0, a=1, b=2, fp=None, call=None):
    """V1 + V2 for stage `key` from the data in slot `src`; leaves the advanced data in slot `a`.
    Returns (list of problems, stats).  `fp` / `call`: footprint and harness call of a second-layer leaf."""
    h, info = sc.h, sc.info
    fp = fp if fp is not None else sc.stages.get(key)
    problems = []
    call = call or STAGE_CALL[key]
    if fp is None:
        return [{"kind": "no-footprint", "stage": key}], {}
    R, W, K = set(fp["R"]), set(fp["W"]), set(fp["K"])
    h.ok("copydata %d %d" % (a, src))
    r = h.cmd("call %d %s" % (a, call))
    if r == "na":
        return [], {"na": True}       # a leaf that does not apply to this model (e.g. a dual solver without efc_AR)
    if r != "ok":
        return [{"kind": "stage-error", "stage": key, "msg": r}], {}
    # V1: changed fields belong to may-write groups
    changed = h.cmd("cmp %d %d *" % (src, a)).split()
    if changed != ["="]:
        for f in changed:
            if "@" in f or f in ("sensordata", "energy"):
                gs = info.group_of_field(f) if "@" in f else []
                if not gs:
                    continue      # the whole array is reported through its slices
            else:
                gs = info.group_of_field(f)
            if gs == ["handle"]:
                continue          # addresses: differ between any two mjData
            if not gs:
                problems.append({"kind": "unclassified-field", "stage": key, "field": f})
            elif not any(g in W for g in gs):
                problems.append({"kind": "V1-write-outside-footprint", "stage": key, "field": f, "groups": gs})
    # V2: poison every group outside R, compare R ∪ K
    pois_groups = [g for g in info.groups if g not in R and g not in NEVER_POISON]
    pf = sc.fields(pois_groups)
    seed = rng.randrange(1 << 30)
    h.ok("copydata %d %d" % (b, src))
    h.ok("poison %d %d %s $arena" % (b, seed, " ".join(pf)))
    r = h.cmd("call %d %s" % (b, call))
    if r != "ok":
        problems.append({"kind": "V2-error-after-poison", "stage": key, "msg": r, "seed": seed})
        return problems, {"poisoned": len(pf)}
    cf = sc.fields([g for g in (R | K) if g not in NEVER_COMPARE])
    diff = h.cmd("cmpl %d %d %s" % (a, b, " ".join(cf))) if cf else "="
    if diff != "=":
        problems.append({"kind": "V2-read-outside-footprint", "stage": key, "differing": diff.split()[:12], "seed": seed,
                         "poisoned_groups": pois_groups})
    return problems, {"poisoned": len(pf), "compared": len(cf)}


# second layer: leaf call of mj_fwdConstraint / warmstart / mj_invConstraint (key in Gen.Pipeline.subStageKeys) -> harness call.
# Locals of the caller that a leaf receives (jar, Ma, island) are harness-owned: equal in both runs by construction.
LEAF_CALL = {
    "mj_mulJacVec(m, d, d->efc_b, d->qacc_smooth)": "mulJacVec_efcb",
    "mj_mulJacVec(m, d, jar, d->qacc_warmstart)": "mulJacVec_jar_warmstart",
    "mj_mulJacVec(m, d, jar, d->qacc)": "mulJacVec_jar_qacc",
    "mj_mulM(m, d, Ma, d->qacc_warmstart)": "mulM_Ma_warmstart",
    "mj_constraintUpdate(m, d, jar, &cost_warmstart, 0)": "constraintUpdate_jar 7",
    "mj_constraintUpdate(m, d, d->efc_b, &cost_smooth, 0)": "constraintUpdate_efcb",
    "mj_constraintUpdate(m, d, jar, NULL, 0)": "constraintUpdate_null 11",
    "mj_solPGS(m, d, m->opt.iterations)": "solPGS",
    "mj_solCG(m, d, m->opt.iterations)": "solCG",
    "mj_solNewton(m, d, m->opt.iterations)": "solNewton",
    "mj_solNoSlip(m, d, m->opt.noslip_iterations)": "solNoSlip",
    "mju_dispatch(m, d, solveIslandTask, NULL, nisland)": "dispatch",
    "mj_solNoSlip_island(m, d, island, m->opt.noslip_iterations)": "solNoSlip_island 0",
    "mj_dualFinish": "dualFinish",
}
LEAF_SKIP = {"mj_markStack", "mj_freeStack"}          # validated through the pipeline-level table / whole-function runs
SOLVER_ENUM = {"PGS": "mjSOL_PGS", "CG": "mjSOL_CG", "Newton": "mjSOL_NEWTON"}


def validate_leaves(sc, rng, stats):
    """V1 + V2 of the leaf footprints of the second layer, from the state the pipeline leaves in slot 0 after mj_forward
    (constraint rows present); for the dual solvers additionally from the cold-start point efc_force = 0.  The island
    dispatch runs the solver of the model, so its footprint is the one of that solver."""
    h = sc.h
    problems, n = [], 0
    if h.cmd("call 0 forward") != "ok":
        return problems, n
    nefc = int(h.cmd("scalar 0 nefc"))
    nisland = int(h.cmd("scalar 0 nisland"))
    stats["leaf_states"] = stats.get("leaf_states", 0) + 1
    if nefc == 0:
        return problems, n
    stats["leaf_states_nefc"] = stats.get("leaf_states_nefc", 0) + 1
    solver = SOLVER_ENUM[sc.mdl.options["solver"]]
    leaves = sc.info.leaves(solver)
    for key, fp in leaves.items():
        if key in LEAF_SKIP or key.startswith("mjSTACKALLOC"):
            continue
        call = LEAF_CALL.get(key)
        if fp is None or call is None:
            problems.append({"kind": "leaf-without-footprint-or-call", "stage": key})
            continue
        if call in ("dispatch", "solNoSlip_island 0") and nisland == 0:
            continue
        if "efc_force" in fp["R"] and rng.random() < 0.5:
            h.ok("set 0 efc_force " + " ".join(["0"] * nefc))      # the cold-start point of the dual solvers
        pr, vst = validate_stage(sc, rng, key, fp=fp, call=call)
        if vst.get("na"):
            continue
        n += 1
        k = "leaf:" + call.split()[0]
        stats["leaves"][k] = stats["leaves"].get(k, 0) + 1
        for p in pr:
            p["replay"] = {"model": sc.mdl.text(), "commands": h.log[1:][-60:]}
        problems += pr
    return problems, n


def validate_model(sc, rng, nstates=1, witness=None):
    """walk the forward pipeline, the integrator and the inverse pipeline of one model; returns problems + counts"""
    h = sc.h
    problems, nst = [], 0
    h.ok("data 1")
    h.ok("data 2")
    for _ in range(nstates):
        sc.random_state(rng, 0)
        for _ in range(rng.randint(0, 3)):
            if h.cmd("call 0 step") != "ok":
                break
        order = list(FWD_ORDER)
        integ = integrator_of(sc.mdl)
        if integ == "mjINT_EULER":
            order.append("mj_EulerSkip(m, d, 0)")
        elif integ in ("mjINT_IMPLICIT", "mjINT_IMPLICITFAST"):
            order.append("mj_implicitSkip(m, d, 0)")
        order += INV_ORDER
        if rng.random() < 0.3:
            order.append("mj_resetData")
        for key in order:
            pr, _ = validate_stage(sc, rng, key)
            nst += 1
            if witness is not None and not pr:
                witness_reads(sc, rng, key, witness)
            for p in pr:
                p["replay"] = {"model": sc.mdl.text(), "commands": h.log[1:][-60:]}
            problems += pr
            if any(p["kind"] in ("stage-error",) for p in pr):
                break
            h.ok("copydata 0 1")
    return problems, nst


# ------------------------------------------------------------------------------------------ poison differentials (oracle)
def make_receiver(sc, rng, kind, src, dst, I_groups, sig, history=None):
    """build in slot dst an mjData that holds the integration state of slot src; returns a description"""
    h = sc.h
    keep = set(I_groups) | NEVER_POISON
    if kind == "copydata+poison":
        h.ok("data %d" % dst)
        h.ok("copydata %d %d" % (dst, src))
        pg = [g for g in sc.info.groups if g not in keep]
        seed = rng.randrange(1 << 30)
        h.ok("poison %d %d %s $arena" % (dst, seed, " ".join(sc.fields(pg))))
        return {"kind": kind, "seed": seed}
    h.ok("data %d" % dst)
    desc = {"kind": kind}
    if kind == "replay":
        # the same call sequence on a new mjData (no state transfer at all)
        for c in history or []:
            w = c.split()
            w[1] = str(dst)
            r = h.cmd(" ".join(w))
            if r != "ok":
                desc["replay_error"] = r
        desc["replayed_commands"] = len(history or [])
        return desc
    if kind.startswith("used"):
        # leftovers of an unrelated history
        sc.random_state(rng, dst)
        n = rng.randint(1, 4)
        for _ in range(n):
            if h.cmd("call %d step" % dst) != "ok":
                break
        desc["used_steps"] = n
    elif kind.startswith("reset"):
        sc.random_state(rng, dst)
        h.cmd("call %d step" % dst)
        if sc.sizes.get("nkey") and rng.random() < 0.5:
            h.ok("call %d resetKey 0" % dst)
            desc["keyframe"] = 0
        else:
            h.ok("call %d resetData" % dst)
    elif kind.startswith("junk"):
        pg = [g for g in sc.info.groups if g not in keep]
        seed = rng.randrange(1 << 30)
        h.ok("poison %d %d %s $arena" % (dst, seed, " ".join(sc.fields(pg))))
        desc["seed"] = seed
    if kind.endswith("setstate"):
        h.ok("xferstate %d %d %d" % (dst, src, sig))
    else:
        h.ok("copystate %d %d %d" % (dst, src, sig))
    return desc


RECEIVERS = ("copydata+poison", "fresh+copystate", "fresh+setstate", "reset+copystate", "used+copystate", "used+setstate",
             "junk+copystate", "replay")
ENTRY_PROG = {"forward": "mj_forward", "step": "mj_step", "inverse": "mj_inverse"}


def differential(sc, rng, entry, receiver, sig, nsteps=1, src=0, dst=3, history=None):
    """run `entry` on slot src and on a receiver holding the same inputs; compare the groups the Lean analysis claims.
    The inputs are exactly the analysed read-before-write set (proved ⊆ state ∪ rest [∪ qacc, actuation for inverse]):
    groups of that set that the state API does not transfer are copied field by field.  Returns None or a failure."""
    h, info = sc.h, sc.info
    integ = integrator_of(sc.mdl)
    an = info.analyze(ENTRY_PROG[entry], sc.sleeping, integ if entry == "step" else "-")
    state_groups = set(g for f in sc.state_fields for g in info.classify[f["field"]])
    if sc.sleeping:
        I = set(an["rbw"]) | state_groups          # latent state: only full copies are claimed
    else:
        # the input set the THEOREMS allow (MjProof.C01.*_inputs_subset_state*), not whatever the analysis of the current
        # tree reports: a new dependency on derived data must show up as an output difference
        I = state_groups | {"memc", "stack", "sleep", "locals"}
        if entry == "inverse":
            I |= {"qacc", "actuation"}
    desc = make_receiver(sc, rng, receiver, src, dst, I, sig, history=history)
    extra_in = [g for g in I if g not in state_groups and g not in NEVER_POISON and g != "sleep"]
    if receiver not in ("copydata+poison", "replay"):
        for f in sc.fields(extra_in):
            v = h.cmd("get %d %s" % (src, f)).split(":", 1)[1].split()
            if v:
                ty = "x" if all(len(x) == 16 for x in v) else ""
                h.ok("set %d %s %s" % (dst, f, " ".join(ty + x for x in v)))
        desc["copied_inputs"] = extra_in
    claimed = [g for g in set(an["killN"] or []) | I if g not in NEVER_COMPARE]
    call = entry
    for i in range(nsteps):
        r1 = h.cmd("call %d %s" % (src, call))
        r2 = h.cmd("call %d %s" % (dst, call))
        if r1 != r2:
            return {"what": "different outcome", "src": r1, "dst": r2, "receiver": desc, "entry": entry, "step": i}
        if r1 != "ok":
            return None
        cf = sc.fields(claimed)
        diff = h.cmd("cmpl %d %d %s" % (src, dst, " ".join(cf)))
        if diff != "=":
            return {"what": "outputs differ", "fields": diff.split()[:16], "receiver": desc, "entry": entry, "step": i,
                    "claimed_groups": sorted(claimed)}
    return None


def load_state_fields():
    j = json.load(open(os.path.join(GEN_DIR, "DataFields.json")))
    if "refused" in j:
        return None, j
    return j["integration_state"], j


# ------------------------------------------------------------------------------------------ run
def build_all(ctx):
    kernelval.regen(ctx)
    man = json.load(open(os.path.join(GEN_DIR, "pipeline_manifest.json")))
    ctx.oblige("skeleton translator refused nothing", "translator", not man.get("refused"), json.dumps(man.get("refused")))
    ctx.oblige("skeleton translated from this tree", "translator", man.get("repo") == common.REPO, "%s vs %s" % (man.get("repo"), common.REPO))
    sf, dj = load_state_fields()
    ctx.oblige("mjData field translator refused nothing", "translator", sf is not None, json.dumps(dj.get("refused")))
    ctx.oblige("field list translated from this tree", "translator", dj.get("repo") == common.REPO, "%s vs %s" % (dj.get("repo"), common.REPO))
    return man, sf, dj


# ------------------------------------------------------------------------------------------ directed probes (findings)
def simple_model(extra_lines, enable=0, disable=0, solver="mjSOL_NEWTON", cone="mjCONE_PYRAMIDAL"):
    L = ["option timestep 0.002", "option enableflags %d" % enable, "option disableflags %d" % disable,
         "option solver %d" % E(solver), "option cone %d" % E(cone),
         "geom 1 0", "set 1 type %d" % E("mjGEOM_PLANE"), "set 1 size 5 5 0.1"]
    return "\n".join(L + extra_lines) + "\nend\n"


def probe_sleep_latent(h, sig):
    """KNOWN DEVIATION (documented upstream, doc/programming/simulation.rst "Notes on sleeping"): once a tree sleeps its
    derived arrays are latent state, so mj_copyState(mjSTATE_INTEGRATION) into a fresh mjData does not reproduce the
    trajectory while mj_copyData does.  Returns (finding or None, info)."""
    body = ["body 2 0", "set 2 pos 0 0 0.12", "freejoint 3 2", "geom 4 2", "set 4 type %d" % E("mjGEOM_SPHERE"), "set 4 size 0.1",
            "body 5 0", "set 5 pos 1 0 0.5", "joint 6 5", "set 6 type %d" % E("mjJNT_HINGE"), "set 6 axis 0 1 0",
            "geom 7 5", "set 7 type %d" % E("mjGEOM_CAPSULE"), "set 7 size 0.05 0.2", "set 7 pos 0.3 0 0"]
    text = simple_model(body, enable=E("mjENBL_SLEEP"))
    if not h.model(text).startswith("ok"):
        return None, {"skipped": "model does not compile"}
    h.ok("data 0")
    asleep = False
    for k in range(40):
        for _ in range(100):
            h.cmd("call 0 step")
        ta = h.cmd("get 0 tree_asleep").split(":", 1)[1].split()
        if any(int(x) >= 0 for x in ta):
            asleep = True
            break
    if not asleep:
        return None, {"skipped": "no tree fell asleep"}
    h.ok("data 1")
    h.ok("copystate 1 0 %d" % sig)
    h.ok("data 2")
    h.ok("copydata 2 0")
    res = {}
    for i in range(3):
        for k in (0, 1, 2):
            h.cmd("call %d step" % k)
        res[i] = (h.cmd("cmp 0 1 qpos qvel qacc"), h.cmd("cmp 0 2 qpos qvel qacc"))
    info = {"steps_to_sleep": (k + 1) * 100, "copystate_vs_src": res[2][0], "copydata_vs_src": res[2][1]}
    if any(v[1] != "=" for v in res.values()):
        return {"key": "c01:copydata-not-deterministic", "what": "mj_copyData copy diverges from its source (sleeping model)",
                "replay": {"model": text, "commands": h.log[1:][-30:]}}, info
    if any(v[0] != "=" for v in res.values()):
        return {"key": "c01:sleep-latent-state",
                "what": "with mjENBL_SLEEP and a sleeping tree, a fresh mjData that received mj_copyState(mjSTATE_INTEGRATION) "
                        "diverges bitwise from the source after mj_step (fields %s) while an mj_copyData copy does not: the "
                        "sleep state (tree_asleep + derived arrays of sleeping trees) is not part of the integration state "
                        "(documented upstream as a limitation of sleeping)" % res[2][0],
                "replay": {"model": text, "commands": ["data 0", "call 0 step  (x%d, until tree_asleep >= 0)" % ((k + 1) * 100),
                                                       "data 1", "copystate 1 0 %d" % sig, "call 0 step", "call 1 step",
                                                       "cmp 0 1 qpos qvel qacc"]}}, info
    return None, info


def probe_inverse_actuator_sensor(h, sig):
    """mj_inverse does not recompute actuator forces, mj_sensorAcc reads them: an actuator-force sensor reports the force
    of the last forward call (surfaced by MjProof.C01.inverse_inputs_subset_state_partial)."""
    body = ["body 2 0", "set 2 pos 0 0 0.5", "joint 3 2", "set 3 type %d" % E("mjJNT_HINGE"), "set 3 axis 0 1 0", "name 3 j1",
            "geom 4 2", "set 4 type %d" % E("mjGEOM_CAPSULE"), "set 4 size 0.05 0.2", "set 4 pos 0.3 0 0",
            "actuator 5", "name 5 a1", "set 5 trntype %d" % E("mjTRN_JOINT"), "set 5 target j1",
            "sensor 6", "set 6 type %d" % E("mjSENS_ACTUATORFRC"), "set 6 objtype %d" % E("mjOBJ_ACTUATOR"), "set 6 objname a1"]
    text = simple_model(body)
    if not h.model(text).startswith("ok"):
        return None, {"skipped": "model does not compile"}
    cmds = ["data 0", "set 0 ctrl 0.75", "set 0 qpos 0.3", "call 0 forward", "data 1", "copystate 1 0 %d" % sig]
    for c in cmds:
        h.ok(c)
    q = h.cmd("get 0 qacc").split(":", 1)[1].split()
    cmds.append("set 1 qacc " + " ".join("x" + x for x in q))
    h.ok(cmds[-1])
    cmds += ["call 0 inverse", "call 1 inverse", "cmp 0 1 sensordata qfrc_inverse"]
    h.ok(cmds[-3])
    h.ok(cmds[-2])
    d = h.cmd(cmds[-1])
    info = {"differing": d, "sensordata_src": h.cmd("get 0 sensordata"), "sensordata_fresh": h.cmd("get 1 sensordata")}
    if "sensordata" in d.split():
        return {"key": "c01:inverse-stale-actuator-force",
                "what": "mj_inverse on two mjData with equal integration state and qacc gives different sensordata for an "
                        "ACTUATORFRC sensor: mj_sensorAcc reads actuator_force, which inverse dynamics does not recompute "
                        "(value of the last forward call; 0 in a fresh mjData)",
                "replay": {"model": text, "commands": cmds, "observed": info}}, info
    return None, info


def probe_efc_state(h, sig):
    """with constraint islands the CG / Newton solvers work on the island copies (iefc_state) and never write efc_state back:
    after mj_forward it holds the warm-start classification, or stale data when warm-starting is disabled."""
    body = []
    hh = 2
    for k in range(2):
        body += ["body %d 0" % hh, "set %d pos %g 0 0.09" % (hh, 0.5 * k), "freejoint %d %d" % (hh + 1, hh),
                 "geom %d %d" % (hh + 2, hh), "set %d type %d" % (hh + 2, E("mjGEOM_SPHERE")), "set %d size 0.1" % (hh + 2)]
        hh += 3
    text = simple_model(body, disable=E("mjDSBL_WARMSTART"))
    if not h.model(text).startswith("ok"):
        return None, {"skipped": "model does not compile"}
    # receiver: used in a state with a different constraint layout (spheres pressed into each other and the floor)
    cmds = ["data 0", "call 0 step", "call 0 step", "call 0 step", "data 1",
            "set 1 qpos 0 0 0.05 1 0 0 0 0.12 0 0.05 1 0 0 0", "call 1 step", "call 1 step",
            "copystate 1 0 %d" % sig, "call 0 forward", "call 1 forward", "cmp 0 1 efc_state efc_force qacc"]
    for c in cmds[:-1]:
        h.ok(c)
    d = h.cmd(cmds[-1])
    info = {"differing": d, "nefc": h.cmd("scalar 0 nefc"), "nisland": h.cmd("scalar 0 nisland"),
            "efc_state_src": h.cmd("get 0 efc_state"), "efc_state_fresh": h.cmd("get 1 efc_state")}
    if d.split() == ["efc_state"]:
        return {"key": "c01:efc_state-stale-with-islands",
                "what": "after mj_forward on two mjData with equal integration state (islands on, Newton, warm start disabled) "
                        "efc_state differs while efc_force and qacc agree: the island solvers update iefc_state only, "
                        "efc_state keeps whatever the receiving mjData held",
                "replay": {"model": text, "commands": cmds, "observed": info}}, info
    if d != "=":
        return {"key": "c01:outputs differ", "what": "probe_efc_state: %s differ" % d, "replay": {"model": text, "commands": cmds}}, info
    return None, info


# ------------------------------------------------------------------------------------------ run
def build_all(ctx):
    kernelval.regen(ctx)
    man = json.load(open(os.path.join(GEN_DIR, "pipeline_manifest.json")))
    ctx.oblige("skeleton translator refused nothing", "translator", not man.get("refused"), json.dumps(man.get("refused")))
    ctx.oblige("skeleton translated from this tree", "translator", man.get("repo") == common.REPO, "%s vs %s" % (man.get("repo"), common.REPO))
    sf, dj = load_state_fields()
    ctx.oblige("mjData field translator refused nothing", "translator", sf is not None, json.dumps(dj.get("refused")))
    ctx.oblige("field list translated from this tree", "translator", dj.get("repo") == common.REPO, "%s vs %s" % (dj.get("repo"), common.REPO))
    return man, sf, dj


def failure_key(f):
    if f["what"].startswith("harness died"):
        return "c01:crash"
    if f.get("entry") == "inverse" and set(f.get("fields", [])) <= {"sensordata@sensAcc"}:
        return "c01:inverse-outputs-differ"
    return "c01:%s-%s" % (f.get("entry", "?"), f["what"].replace(" ", "-"))


def run_models(ctx, info, exe, sf, sig, nmodels, sleep, thorough, stats):
    rng = ctx.rng
    h = Harness(exe)
    vprob, fails = [], []
    plan = option_plan(rng, nmodels)
    stats.setdefault("leaves", {})
    for mi in range(nmodels):
        mdl = make_model(rng, sleep=sleep, opt=plan[mi])
        cell = "%s/%s/%s/%s" % (plan[mi]["solver"], "warm" if plan[mi]["warmstart"] else "cold",
                                "islands" if plan[mi]["islands"] else "monolithic", "noslip" if plan[mi]["noslip"] else "-")
        stats.setdefault("option_cells", {})
        stats["option_cells"][cell] = stats["option_cells"].get(cell, 0) + 1
        sleeping = bool(mdl.optflags["enable"] & E("mjENBL_SLEEP"))
        try:
            sc = Scene(h, info, mdl, sleeping)
            if not sc.loaded:
                stats["not_compiled"] = stats.get("not_compiled", 0) + 1
                continue
            sc.state_fields = sf
            if not stats.get("coverage_checked"):
                stats["coverage_checked"] = True
                dj = json.load(open(os.path.join(GEN_DIR, "DataFields.json")))
                missing = [f["name"] for f in dj["fields"] if f["name"] not in sc.present]
                ctx.oblige("harness observes every member of struct mjData_", "correspondence", not missing, str(missing))
            pr, n = validate_model(sc, rng, witness=stats.get("witness"))
            stats["stage_validations"] = stats.get("stage_validations", 0) + n
            vprob += pr
            if not sleeping:
                for _ in range(2):
                    sc.random_state(rng, 0)
                    pr, n = validate_leaves(sc, rng, stats)
                    stats["leaf_validations"] = stats.get("leaf_validations", 0) + n
                    vprob += pr
            receivers = ("copydata+poison", "replay") if sleeping else RECEIVERS
            for entry in ("forward", "step", "inverse"):
                for rec in receivers:
                    if not thorough and rng.random() < 0.45:
                        continue
                    hist = list(sc.random_state(rng, 0))
                    pre = [h.cmd("call 0 step") for _ in range(rng.randint(0, 3))]
                    hist += ["call 0 step"] * len(pre)
                    if entry == "inverse":
                        pre.append(h.cmd("call 0 forward"))
                        hist.append("call 0 forward")
                    if any(r != "ok" for r in pre):
                        stats["engine_errors_in_setup"] = stats.get("engine_errors_in_setup", 0) + 1
                        continue      # e.g. RK4 + discrete inverse: mj_step itself raises an error for this model
                    f = differential(sc, rng, entry, rec, sig, nsteps=(3 if entry == "step" else 1), history=hist)
                    k = "%s:%s:%s" % ("sleep" if sleeping else "nosleep", entry, rec)
                    stats["diff"][k] = stats["diff"].get(k, 0) + 1
                    ctx.count((ctx.seed, sleep, mi, entry, rec), nontrivial=sc.sizes.get("nv", 0) > 0)
                    if f:
                        f["options"] = dict(mdl.options)
                        f["replay"] = {"model": mdl.text(), "commands": h.log[1:][-80:]}
                        fails.append(f)
            if mi < 2 and not sleeping:
                ctx.sample({"model_options": mdl.options, "sizes": sc.sizes, "stages_validated": n})
        except HarnessDied as e:
            rp = {"model": mdl.text(), "commands": h.log[1:][-80:]}
            if len(h.log) <= 1 and h.prev_log:
                rp = {"note": "died while loading the next model; previous session:", "model": h.prev_log[0][6:],
                      "commands": h.prev_log[1:][-120:], "next_model": mdl.text()}
            fails.append({"what": "harness died (%s)" % e, "replay": rp})
            h.close()
            h = Harness(exe)
        except RuntimeError as e:
            # an unexpected answer of the harness (e.g. an engine error inside a helper command): scenario abandoned, recorded
            stats.setdefault("scenario_errors", []).append(str(e)[:300])
            h.close()
            h = Harness(exe)
    h.close()
    return vprob, fails


def run(ctx):
    thorough = ctx.tier == "thorough"
    ctx.rule = ("generated models (gen/models.py + extra flags / history buffers / userdata; options from a plan that covers every cell of "
                "solver x warm start x islands [x noslip] per 12 [24] models, cone / Jacobian / integrator balanced, every second model a "
                "constraint-rich scene) x random states; a case = (model, state, entry point, receiver kind) for the differentials and "
                "(model, state, stage or leaf) for the footprint validation; non-trivial = nv > 0")
    man, sf, dj = build_all(ctx)
    ctx.lean_props(THEOREMS)
    drv = ctx.driver("drv_c01")
    exe = ctx.harness(HARNESS_SRC, "c01_pipeline", deps=["harness/mjbuild.h"])
    if not drv or not exe or sf is None:
        return
    info = LeanInfo(drv)
    sig = dj["integration_sig"]
    stats = {"diff": {}}
    if thorough:
        stats["witness"] = {}
    vprob, fails = run_models(ctx, info, exe, sf, sig, 160 if thorough else 12, 0.0, thorough, stats)
    v2, f2 = run_models(ctx, info, exe, sf, sig, 60 if thorough else 4, 1.0, thorough, stats)
    vprob += v2
    fails += f2
    ctx.extra["stage_validations"] = stats.get("stage_validations", 0)
    ctx.extra["leaf_validations"] = {"runs": stats.get("leaf_validations", 0), "by_leaf": stats.get("leaves", {}),
                                     "states": stats.get("leaf_states", 0), "states_with_constraints": stats.get("leaf_states_nefc", 0)}
    ctx.extra["option_cells"] = stats.get("option_cells", {})
    ctx.extra["second_layer_analysis"] = {
        "%s nefc%s0" % (sv, "!=" if ne else "=="): {k: info.subanalyze("mj_fwdConstraint", sv, ne)[k] for k in ("rbw", "killN")}
        for sv in SOLVER_ENUM.values() for ne in (True, False)}
    ctx.extra["differentials"] = stats["diff"]
    ctx.extra["models_not_compiled"] = stats.get("not_compiled", 0)
    ctx.extra["scenario_errors"] = stats.get("scenario_errors", [])[:5]
    ctx.extra["engine_errors_in_setup"] = stats.get("engine_errors_in_setup", 0)
    ctx.oblige("at most a few scenarios abandoned on unexpected harness answers", "correspondence",
               len(stats.get("scenario_errors", [])) <= 2 + (stats.get("stage_validations", 0) // 200), str(stats.get("scenario_errors", [])[:3]))
    ctx.extra["conditional_fields"] = info.cond
    ctx.extra["analysis"] = {e: {k: info.analyze(p, False, "-")[k] for k in ("rbw", "killN")} for e, p in ENTRY_PROG.items()}
    ctx.oblige("footprint table validated on the real engine (V1/V2, %d stage runs + %d leaf runs of the constraint stage)"
               % (stats.get("stage_validations", 0), stats.get("leaf_validations", 0)),
               "correspondence", not vprob, json.dumps([{k: v for k, v in p.items() if k != "replay"} for p in vprob[:4]])[:1800])
    if vprob:
        ctx.disagreements += [dict(p, stream="footprint") for p in vprob[:10]]
        # a footprint that the engine does not respect is at once a stale-read / unexpected-write witness
        p0 = vprob[0]
        ctx.oracle_failure("c01:footprint:%s:%s" % (p0["stage"], p0["kind"]),
                           "stage %s does not respect its footprint (%s): %s" % (p0["stage"], p0["kind"], p0.get("differing") or p0.get("field") or p0.get("msg")), p0)
    for f in fails[:6]:
        ctx.oracle_failure(failure_key(f), f["what"] + (": " + " ".join(f.get("fields", [])) if f.get("fields") else ""), f)
    # directed probes: documented deviations / surfaced dependencies, each under a stable key
    h = Harness(exe, timeout=60.0)
    probes = {}
    for name, fn in (("sleep_latent_state", probe_sleep_latent), ("inverse_actuator_sensor", probe_inverse_actuator_sensor),
                     ("efc_state_islands", probe_efc_state)):
        try:
            finding, pinfo = fn(h, sig)
        except (HarnessDied, RuntimeError) as e:
            finding, pinfo = None, {"skipped": str(e)}
            h.close()
            h = Harness(exe, timeout=60.0)
        probes[name] = pinfo
        if finding:
            ctx.oracle_failure(finding["key"], finding["what"], finding["replay"])
    h.close()
    ctx.extra["probes"] = probes
    ctx.extra["oracle_failures"] = len(fails)
    if thorough:
        w = stats.get("witness", {})
        ctx.extra["reads_witnessed"] = {k: v for k, v in sorted(w.items()) if v}
        ctx.extra["reads_not_witnessed"] = sorted(k for k, v in w.items() if not v)
        ctx.leanchecker(["MjProof.Props.C01"])

    def directed(c):
        """a proof / tie obligation broke and the sampled oracle found nothing: search harder"""
        st = {"diff": {}, "coverage_checked": True}
        vp, fl = run_models(c, info, exe, sf, sig, 40, 0.0, True, st)
        if fl:
            f = fl[0]
            return {"key": failure_key(f), "what": f["what"] + ": " + " ".join(f.get("fields", [])), "replay": f}
        if vp:
            p0 = vp[0]
            return {"key": "c01:footprint:%s:%s" % (p0["stage"], p0["kind"]), "what": "stage %s does not respect its footprint" % p0["stage"], "replay": p0}
        return None
    ctx.directed_search = directed
