"""Shared machinery of the per-property checks (DESIGN.md §2, §3).

A check is three stages:
  P  Lean theorems (built by lake, axioms audited)            -> ctx.lean_props(...)
  T  tie: translator regeneration and/or differential correspondence  -> ctx.differential(...), ctx.oblige(...)
  S  property oracle on the real code                          -> ctx.oracle_failure(...)
and the verdict protocol of DESIGN.md §2 is applied by ctx.finish().
Exit codes: 0 held, 1 violation (with a VIOLATION line), 2 infrastructure failure.
"""
import fcntl
import hashlib
import json
import os
import random
import re
import subprocess
import sys
import time
import traceback

VERIF = os.path.dirname(os.path.dirname(os.path.abspath(__file__)))
REPO = os.environ.get("VERIF_REPO", "/repo")
LEAN = os.path.join(VERIF, "lean")
CACHE = os.path.join(VERIF, ".cache")
sys.path.insert(0, os.path.join(VERIF, "harness"))
import build  # noqa: E402

ALLOWED_AXIOMS = {"propext", "Classical.choice", "Quot.sound"}
TRUSTED_BASE = [
    "Lean 4.33.0 kernel; Mathlib lemmas used by the proof files",
    "axioms: subset of {propext, Classical.choice, Quot.sound} (audited by #print axioms on every run)",
    "differential correspondence harness and generators under /verif/harness, /verif/checks",
    "from-source gcc build of /repo's working tree with stubbed third-party headers (libccd, lodepng, MC, qhull); src/xml is compiled only in the XML variant used by C32/C36/C37, against harness/stubs/tinyxml2 (a stand-in for tinyxml2, itself trusted)",
    "reals vs IEEE doubles: numeric theorems are over the reals; rounding is outside the proofs",
]


class Infra(Exception):
    pass


def sh(cmd, inp=None, timeout=3600, cwd=None, env=None):
    e = dict(os.environ)
    if env:
        e.update(env)
    return subprocess.run(cmd, input=inp, capture_output=True, text=True, timeout=timeout, cwd=cwd, env=e)


class LakeLock:
    def __enter__(self):
        os.makedirs(CACHE, exist_ok=True)
        self.f = open(os.path.join(CACHE, "lake.lock"), "w")
        fcntl.flock(self.f, fcntl.LOCK_EX)
        return self

    def __exit__(self, *a):
        fcntl.flock(self.f, fcntl.LOCK_UN)
        self.f.close()


def strip_lean_comments(src):
    out, i, depth, n = [], 0, 0, len(src)
    while i < n:
        if src.startswith("/-", i):
            depth += 1
            i += 2
        elif depth and src.startswith("-/", i):
            depth -= 1
            i += 2
        elif depth:
            i += 1
        elif src.startswith("--", i):
            while i < n and src[i] != "\n":
                i += 1
        else:
            out.append(src[i])
            i += 1
    return "".join(out)


FORBIDDEN = re.compile(r"\b(sorry|admit|native_decide|bv_decide|implemented_by|unsafe)\b|^\s*axiom\s|maxHeartbeats\s+0\b", re.M)


class Ctx:
    def __init__(self, pid, tier, seed):
        self.pid, self.tier, self.seed = pid, tier, seed
        self.t0 = time.time()
        self.rng = random.Random(seed * 1000003 + int(pid[1:]))
        self.obligations = []      # dicts: name kind ok detail
        self.oracle_failures = []  # dicts: key what replay
        self.disagreements = []    # tie failures carrying inputs (for directed search)
        self.evaluations = 0
        self.nontrivial = set()
        self.samples = []
        self.extra = {}
        self.assumptions = []
        self.axioms = {}
        self.directed_search = None  # callable(ctx) -> replay object or None
        self.rule = ""
        self.checker_cmd = "cd /verif/lean && lake build MjProof.Props.%s && lake env lean Audit/%s.lean" % (pid, pid)

    # ---------------------------------------------------------------- obligations
    def oblige(self, name, kind, ok, detail=""):
        self.obligations.append({"name": name, "kind": kind, "ok": bool(ok), "detail": str(detail)[:2000]})
        return ok

    def count(self, case_key, nontrivial=True):
        self.evaluations += 1
        if nontrivial:
            self.nontrivial.add(hashlib.md5(repr(case_key).encode()).hexdigest()[:12])

    def sample(self, s, limit=6):
        if len(self.samples) < limit:
            self.samples.append(s)

    # ---------------------------------------------------------------- P: Lean
    def lake(self, args, timeout=3000):
        with LakeLock():
            return sh(["lake"] + args, cwd=LEAN, timeout=timeout)

    def lean_props(self, theorems, module=None, extra_modules=(), files=None):
        """Build MjProof.Props.<pid> and audit the axioms of the listed theorems."""
        module = module or "MjProof.Props.%s" % self.pid
        r = self.lake(["build", module] + list(extra_modules))
        ok = r.returncode == 0
        self.oblige("lake build " + module, "proof-build", ok, (r.stdout + r.stderr)[-3000:])
        if not ok:
            for t in theorems:
                self.oblige("theorem " + t, "theorem", False, "library does not build")
            return False
        # forbidden tokens in every project source this property's module imports (transitively)
        bad = []
        todo, seen = [module] + list(extra_modules), set()
        while todo:
            mod = todo.pop()
            if mod in seen or not mod.startswith("MjProof"):
                continue
            seen.add(mod)
            p = os.path.join(LEAN, *mod.split(".")) + ".lean"
            if not os.path.exists(p):
                continue
            src = strip_lean_comments(open(p).read())
            m = FORBIDDEN.search(src)
            if m:
                bad.append("%s: %s" % (os.path.relpath(p, LEAN), m.group(0).strip()))
            todo += re.findall(r"^\s*(?:public\s+)?import\s+([A-Za-z0-9_.]+)", src, re.M)
        self.extra["lean_sources_audited"] = sorted(seen)
        self.oblige("no sorry/admit/axiom/native_decide in the %d project files imported by %s" % (len(seen), module),
                    "audit", not bad, "; ".join(bad))
        os.makedirs(os.path.join(LEAN, "Audit"), exist_ok=True)
        ap = os.path.join(LEAN, "Audit", self.pid + ".lean")
        with open(ap, "w") as f:
            f.write("import %s\n" % module)
            for m in extra_modules:
                f.write("import %s\n" % m)
            for t in theorems:
                f.write("#print axioms %s\n" % t)
        r = self.lake(["env", "lean", ap])
        out = r.stdout + r.stderr
        all_ok = True
        for t in theorems:
            m = re.search(r"'%s' depends on axioms: \[([^\]]*)\]" % re.escape(t), out, re.S)
            if m:
                ax = {a.strip() for a in m.group(1).replace("\n", " ").split(",") if a.strip()}
            elif re.search(r"'%s' does not depend on any axioms" % re.escape(t), out):
                ax = set()
            else:
                self.oblige("theorem " + t, "theorem", False, "not found by #print axioms: " + out[-500:])
                all_ok = False
                continue
            self.axioms[t] = sorted(ax)
            good = ax <= ALLOWED_AXIOMS
            all_ok &= good
            self.oblige("theorem " + t, "theorem", good, "axioms: " + ", ".join(sorted(ax)))
        return all_ok

    def leanchecker(self, modules):
        r = self.lake(["env", "leanchecker"] + list(modules), timeout=3000)
        self.oblige("leanchecker " + " ".join(modules), "kernel-recheck", r.returncode == 0, (r.stdout + r.stderr)[-1500:])

    # ---------------------------------------------------------------- T: drivers / harnesses
    def driver(self, exe):
        """Build (incrementally) and return the compiled Lean driver."""
        r = self.lake(["build", exe])
        if r.returncode != 0:
            self.oblige("lake build " + exe, "model-build", False, (r.stdout + r.stderr)[-3000:])
            return None
        return os.path.join(LEAN, ".lake", "build", "bin", exe)

    def lean_run(self, file, inp, timeout=1800):
        """Run a Lean file that imports Mathlib-dependent code via `lake env lean --run`."""
        with LakeLock():
            pass
        return sh(["lake", "env", "lean", "--run", file], inp=inp, cwd=LEAN, timeout=timeout)

    def harness(self, src, name, variant="scalar", extra=(), link_lib=True, deps=()):
        try:
            return build.build_harness(os.path.join(VERIF, src), name, variant, extra, link_lib,
                                       [os.path.join(VERIF, d) for d in deps])
        except RuntimeError as e:
            # the tree no longer compiles the way the harness needs: tie failure, not a violation by itself
            self.oblige("build " + src + " [" + variant + "]", "impl-build", False, str(e))
            return None

    def run_lines(self, cmd, lines, timeout=1800, env=None):
        r = sh(cmd, inp="".join(l + "\n" for l in lines), timeout=timeout, env=env)
        out = r.stdout.split("\n")
        if out and out[-1] == "":
            out.pop()
        return r.returncode, out, r.stderr

    def differential(self, label, model_cmd, impl_cmd, lines, keyf=None, cmp=None, max_report=5):
        """Run the same op lines through model and implementation; record disagreements."""
        rc_m, om, em = self.run_lines(model_cmd, lines)
        rc_i, oi, ei = self.run_lines(impl_cmd, lines)
        bad = []
        if rc_m != 0:
            raise Infra("model driver failed (%s): rc=%d %s" % (label, rc_m, em[-500:]))
        if rc_i != 0 or len(oi) != len(lines):
            # the implementation crashed or stopped early: find the first line without output
            idx = min(len(oi), len(lines) - 1)
            bad.append({"line": lines[idx], "model": om[idx] if idx < len(om) else None,
                        "impl": "<crash rc=%d after %d outputs> %s" % (rc_i, len(oi), ei[-300:])})
        else:
            if len(om) != len(lines):
                raise Infra("model driver produced %d lines for %d ops (%s)" % (len(om), len(lines), label))
            for l, a, b in zip(lines, om, oi):
                same = cmp(a, b) if cmp else a == b
                if not same:
                    bad.append({"line": l, "model": a, "impl": b})
        for l in lines:
            k = keyf(l) if keyf else l
            self.count(k if k is not None else l, nontrivial=k is not None)
        ok = not bad
        self.oblige("correspondence " + label + " (%d ops)" % len(lines), "correspondence", ok,
                    json.dumps(bad[:max_report]))
        if bad:
            self.disagreements += [dict(b, stream=label) for b in bad[:50]]
        return bad

    # ---------------------------------------------------------------- S: oracle
    def oracle_failure(self, key, what, replay):
        self.oracle_failures.append({"key": key, "what": what, "replay": replay})

    # ---------------------------------------------------------------- verdict
    def known(self):
        p = os.path.join(VERIF, "known_findings.json")
        if not os.path.exists(p):
            return []
        return [k for k in json.load(open(p)) if k.get("property") == self.pid and k.get("status") == "known"]

    def write_replay(self, obj, tag):
        os.makedirs(os.path.join(VERIF, "replays"), exist_ok=True)
        p = os.path.join(VERIF, "replays", "%s_%s_seed%d.json" % (self.pid, tag, self.seed))
        obj = dict(obj, seed=self.seed, tier=self.tier,
                   rerun="VERIF_SEED=%d ./check %s --tier %s" % (self.seed, self.pid, self.tier))
        with open(p, "w") as f:
            json.dump(obj, f, indent=1, default=str)
        return p

    def finish(self):
        known = {k["key"]: k for k in self.known()}
        violations = []
        seen_known = set()
        for f in self.oracle_failures:
            if f["key"] in known:
                if f["key"] not in seen_known:
                    print("KNOWN-FINDING: property=%s %s" % (self.pid, known[f["key"]]["what"]))
                    seen_known.add(f["key"])
                continue
            violations.append(f)
        broken = [o for o in self.obligations if not o["ok"]]
        lines = []
        if violations:
            # one replay per distinct key first (so every failing class is visible), then further examples
            firsts, rest, seenk = [], [], set()
            for v in violations:
                (rest if v["key"] in seenk else firsts).append(v)
                seenk.add(v["key"])
            violations = firsts[:300] + rest[:20]
            p = self.write_replay({"property": self.pid, "kind": "failing-input", "failures": violations,
                                   "broken_obligations": broken[:20]}, "input")
            lines.append("VIOLATION property=%s replay=%s" % (self.pid, p))
        elif broken:
            found = None
            if self.directed_search:
                try:
                    found = self.directed_search(self)
                except Exception:
                    found = None
            if found is not None and found.get("key") in known:
                print("KNOWN-FINDING: property=%s %s" % (self.pid, known[found["key"]]["what"]))
                # the break is explained by a recorded finding only if nothing else is broken
                found = None
                broken = [o for o in broken if o["kind"] not in ("correspondence",)]
            if found is not None:
                p = self.write_replay({"property": self.pid, "kind": "failing-input", "failures": [found],
                                       "broken_obligations": broken[:20]}, "input")
                lines.append("VIOLATION property=%s replay=%s" % (self.pid, p))
            elif broken:
                p = self.write_replay({"property": self.pid, "kind": "unproved",
                                       "broken_obligations": broken[:40],
                                       "disagreements": self.disagreements[:20],
                                       "note": "a theorem / translator / correspondence no longer checks and the "
                                               "directed search found no input on which the real code violates the property"},
                                      "unproved")
                lines.append("VIOLATION property=%s replay=%s no-failing-input-found" % (self.pid, p))
        self.write_evidence(len(lines))
        for l in lines:
            print(l)
        sys.stdout.flush()
        return 1 if lines else 0

    def write_evidence(self, nviol):
        n = len(self.obligations)
        d = sum(1 for o in self.obligations if o["ok"])
        cov = {
            "obligations": n, "discharged": d,
            "checker_cmd": self.checker_cmd,
            "trusted_base": TRUSTED_BASE + self.assumptions,
            "evaluations": self.evaluations,
            "distinct_nontrivial": len(self.nontrivial),
            "rule": self.rule,
            "samples": self.samples or ["(no differential cases on this run)"],
            "obligation_list": [{"name": o["name"], "kind": o["kind"], "ok": o["ok"]} for o in self.obligations],
            "axioms": self.axioms,
        }
        cov.update(self.extra)
        ev = {"property_id": self.pid, "tier": self.tier, "seed": self.seed, "level": "proof",
              "coverage": cov, "assumptions": TRUSTED_BASE + self.assumptions,
              "wall_s": round(time.time() - self.t0, 2), "violations": nviol}
        # evidence/ describes /repo itself; a run against a scratch worktree (VERIF_REPO) must not overwrite it
        edir = os.path.join(VERIF, "evidence") if os.path.realpath(REPO) == "/repo" else \
            os.path.join(VERIF, ".cache", "evidence_alt", os.path.basename(REPO.rstrip("/")))
        try:
            head = subprocess.run(["git", "-C", REPO, "rev-parse", "--short", "HEAD"], capture_output=True,
                                  text=True).stdout.strip()
            dirty = bool(subprocess.run(["git", "-C", REPO, "status", "--porcelain", "--untracked-files=no"],
                                        capture_output=True, text=True).stdout.strip())
            cov["repo"] = {"root": REPO, "head": head, "working_tree_modified": dirty}
        except Exception:
            pass
        os.makedirs(edir, exist_ok=True)
        tmp = os.path.join(edir, self.pid + ".json.%d.tmp" % os.getpid())
        with open(tmp, "w") as f:
            json.dump(ev, f, indent=1, default=str)
        os.replace(tmp, os.path.join(edir, self.pid + ".json"))


def main(run, pid, uses_gen=True):
    import argparse
    ap = argparse.ArgumentParser()
    ap.add_argument("--tier", default=os.environ.get("VERIF_TIER", "quick"))
    ap.add_argument("--replay", default=None)
    a = ap.parse_args(sys.argv[2:] if len(sys.argv) > 1 and sys.argv[1] == pid else sys.argv[1:])
    seed = int(os.environ.get("VERIF_SEED", "0") or 0)
    tier = a.tier if a.tier in ("quick", "thorough") else "quick"
    if a.replay:
        # replay = re-run the check with the recorded seed and tier; the recorded failing inputs are printed first
        try:
            rp = json.load(open(a.replay))
            seed, tier = int(rp.get("seed", seed)), rp.get("tier", tier)
            print("REPLAY of %s (seed %d, tier %s): %s" % (a.replay, seed, tier, json.dumps(rp.get("failures", rp.get("broken_obligations", [])))[:4000]))
        except Exception as e:
            print("INFRA: cannot read replay file: %s" % e, file=sys.stderr)
            sys.exit(2)
    ctx = Ctx(pid, tier, seed)
    ctx.replay = a.replay
    # drop this (property, seed)'s replay files of an earlier run so that a file on disk always belongs to the last run
    import glob
    for old in glob.glob(os.path.join(VERIF, "replays", "%s_*_seed%d.json" % (pid, seed))):
        if not a.replay or os.path.realpath(old) != os.path.realpath(a.replay):
            try:
                os.remove(old)
            except OSError:
                pass
    # lean/MjProof/Gen is shared: a run against a scratch worktree (VERIF_REPO set) regenerates it from
    # that worktree, so such runs are exclusive and restore Gen from /repo before releasing the lock;
    # ordinary runs share the lock.
    os.makedirs(CACHE, exist_ok=True)
    genlock = open(os.path.join(CACHE, "genmode.lock"), "w")
    foreign = uses_gen and os.path.realpath(REPO) != "/repo"
    if uses_gen:
        # gate: a waiting exclusive run keeps the gate, so later shared runs queue behind it (no starvation)
        with open(os.path.join(CACHE, "genmode.gate"), "w") as gate:
            fcntl.flock(gate, fcntl.LOCK_EX)
            fcntl.flock(genlock, fcntl.LOCK_EX if foreign else fcntl.LOCK_SH)
            fcntl.flock(gate, fcntl.LOCK_UN)
    try:
        try:
            run(ctx)
            rc = ctx.finish()
        finally:
            if foreign:
                env = dict(os.environ)
                env.pop("VERIF_REPO", None)
                subprocess.run([sys.executable, os.path.join(VERIF, "translate", "regen_all.py")],
                               capture_output=True, text=True, env=env)
                subprocess.run(["lake", "build", "MjProof.Gen.KernelsDispatch"], cwd=LEAN, capture_output=True, text=True)
            fcntl.flock(genlock, fcntl.LOCK_UN)
    except subprocess.TimeoutExpired as e:
        print("INFRA: timeout %s" % e, file=sys.stderr)
        rc = 2
    except Infra as e:
        print("INFRA: %s" % e, file=sys.stderr)
        rc = 2
    except Exception:
        traceback.print_exc()
        rc = 2
    sys.exit(rc)
