"""Which properties are claimed, at what level, and why the others are not (feeds MANIFEST.json)."""

NOTE_COMMON = ("Trusted: Lean kernel, axioms propext/Classical.choice/Quot.sound only (audited each run), the "
               "correspondence harness + generators, the stub-header from-source build; ")

# property ids whose check has been reviewed by the coordinator and is claimed in MANIFEST.checks
ENABLED = ["C01", "C02", "C03", "C04", "C05", "C06", "C07", "C08", "C09", "C10", "C11", "C12", "C13", "C14", "C15", "C16", "C17", "C18", "C19", "C20", "C21", "C22", "C23", "C24", "C25", "C26", "C27", "C28", "C29", "C30", "C31", "C32", "C33", "C34", "C35", "C36", "C37", "C38", "C39", "C40", "C41", "C42", "C43", "C44", "C46", "C47", "C48", "C49", "C50", "C51"]

HOOK_COMMITS = []

DEFAULT_NA = "not claimed yet: no model/proof has been built for this property in this round (see DESIGN.md §8 staging order); nothing is asserted about it"
NOT_APPLICABLE = {
    "C45": "JAX automatic differentiation semantics are not expressible as a model here; MJX defines no derivative code on the anchored path (DESIGN.md §7)",
}

NOTES = ("Every check = P (Lean theorems, audited axioms) + T (translator/correspondence tie to /repo's working tree) "
         "+ S (property oracle searching the real code for a failing input). See DESIGN.md §2 for the verdict protocol.")
