"""Which properties are claimed, at what level, and why the others are not (feeds MANIFEST.json)."""

NOTE_COMMON = ("Trusted: Lean kernel, axioms propext/Classical.choice/Quot.sound only (audited each run), the "
               "correspondence harness + generators, the stub-header from-source build; ")

CHECKS = {
    "C22": {
        "technique": "Lean 4 proof (induction: stable-sort invariant over runs/merge passes) + exact differential correspondence with the compiled macros",
        "text": "mjSORT / insertion sort: proved for every length and every total-preorder comparator that the model returns a sorted permutation preserving every ordered subsequence (stability); mjPARTIAL_SORT modelled (heap ops) and tied by exact correspondence. The model is hand-written; the tie is a differential run of the unmodified macros of engine_sort.h against the compiled Lean model (exhaustive small scope + seeded random around run boundaries).",
        "note": NOTE_COMMON + "model abstracts the ping-pong buffers to lists of runs (index arithmetic covered by the correspondence only); partial-sort theorem pending (correspondence + oracle only).",
    },
}

HOOK_COMMITS = []

DEFAULT_NA = "not claimed yet: no model/proof has been built for this property in this round (see DESIGN.md §8 staging order); nothing is asserted about it"
NOT_APPLICABLE = {
    "C45": "JAX automatic differentiation semantics are not expressible as a model here; MJX defines no derivative code on the anchored path (DESIGN.md §7)",
}

NOTES = ("Every check = P (Lean theorems, audited axioms) + T (translator/correspondence tie to /repo's working tree) "
         "+ S (property oracle searching the real code for a failing input). See DESIGN.md §2 for the verdict protocol.")
