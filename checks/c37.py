"""C37  Model loading never crashes and enforces the schema (DESIGN.md §5.C37)."""
import copy
import importlib.util
import json
import os
import re
import subprocess
import sys

from . import common

sys.path.insert(0, os.path.join(common.VERIF, "harness"))
import build_xml  # noqa: E402

META = {
    "technique": "Lean 4 proof that the model of mjXSchema::Check accepts exactly the documents of a declarative conformance "
                 "relation (structural induction over the element tree, for every grammar tree) + translator-regenerated "
                 "grammar table (mjcf_table.inc) proved well formed + exact differential correspondence (accept/reject, "
                 "message, element, line; mj_printSchema text) with the real reader on schema-derived documents and "
                 "single-violation mutants + accept/reject and API-contract oracle on the real code",
    "text": "Model/XmlSchema.lean models the mjXSchema constructor (flat rows with < > markers and the constraint table -> tree), "
            "NameMatch, CheckConstraints (e/t/r/o bundles) and Check (name, attribute names, presence constraints, recursion of "
            "'R' nodes, first-match child lookup with reference counts, '!' and '?' cardinalities) with the exact error text. "
            "Spec/Conform.lean states conformance declaratively. Proved for every grammar tree, level and element tree: "
            "check_iff_conforms (variant that validates frame/replicate) and check_current_iff_conforms_weak (code as it stands); "
            "conforming documents are never rejected by the current code (conforms_mono, conforming_accepted_by_current_code); the "
            "current code is sound on documents that do not go through the frame/replicate rule (check_current_iff_conforms_of_holeFree) "
            "and NOT sound in general (current_code_accepts_nonconforming, a concrete counterexample). The counting code of the "
            "presence constraints and of the cardinalities is proved equivalent to the logical statements. generated_table_wf: the "
            "table regenerated from mjcf_table.inc on every run builds and has distinct sibling names. Tie: the model driver and the "
            "real mj_parseXMLString agree on every generated document (valid and mutated) including message, element and line; "
            "the Lean Print of the built tree equals mj_printSchema. Oracle: every valid document derived from mjcf.schema (the "
            "tree's own parser) must not be rejected with a schema-type message; every single-violation mutant (unknown "
            "attribute/element, duplicated unique child, broken presence constraint, bad enum keyword, non-numeric token, "
            "wrong arity, bad bool) must be rejected; for every element with presence constraints EVERY violating presence "
            "pattern of the attributes the constraints mention (all subsets, so also partially present bundles) is in the "
            "differential and must be rejected; every call returns a spec/model or NULL with a non-empty message; a process "
            "death is attributed to the one document it happened on (re-run alone in a fresh process) and reported.",
    "note": "TRUSTED BASE ADDITION: src/xml is compiled against harness/stubs/tinyxml2 (a minimal re-implementation of the "
            "tinyxml2 DOM API written for this framework, NOT tinyxml2). XML tokenisation, entity handling, line numbers and "
            "parse errors seen by the reader are the stand-in's. The clause 'never crashes / no undefined behaviour for any byte "
            "string' is a runtime-safety claim about the real tinyxml2 + reader and is NOT claimed; the byte-mutation run under "
            "ASan/UBSan (thorough tier) is supporting evidence only. The reader proper is not modelled in Lean: enum keywords, "
            "attribute types and arities are decided by the oracle only (expectations from mjcf.schema types). <include> "
            "expansion, URDF, plugins, composite/flexcomp/attach/model elements are outside the generated documents. "
            "src/xml/mjz (needs miniz) is not built.",
}

THEOREMS = [
    "MjProof.C37.check_iff_conforms",
    "MjProof.C37.check_current_iff_conforms_weak",
    "MjProof.C37.conforms_mono",
    "MjProof.C37.conforming_accepted_by_current_code",
    "MjProof.C37.check_current_iff_conforms_of_holeFree",
    "MjProof.C37.nameMatch_eq_of_not_alias",
    "MjProof.C37.current_code_accepts_nonconforming",
    "MjProof.C37.assignIdx_iff_licenses",
    "MjProof.C37.constraint_check_iff",
    "MjProof.C37.cardinality_check_iff",
]
THEOREMS_GEN = [
    "MjProof.C37.generated_table_wf",
    "MjProof.C37.generated_table_fresh",
]

GEN_DIR = os.path.join(common.LEAN, "MjProof", "Gen")
ALIAS = ("frame", "replicate")

# declarations left out of the generated documents: their reading is not a pure function of the element (files,
# plugins, procedural expansion at parse time)
SKIP_DECLS = {"extension", "extension_plugin", "instance", "config", "plugin", "actuator_plugin", "sensor_plugin",
              "composite", "composite_joint", "composite_skin", "composite_geom", "composite_site", "flexcomp",
              "flexcomp_edge", "flexcomp_contact", "pin", "attach", "model", "deformable", "flex", "flex_edge", "skin",
              "bone", "elasticity", "replicate", "hfield", "mesh", "texture", "layer", "equality_flex", "flexvert",
              "flexstrain", "tactile", "sensor_contact", "tuple", "element"}

# attributes never put into VALID documents: the reader attaches conditions to them that are not schema matters
# (deprecated value, mutually dependent actuator shortcuts, ordering rules)
SKIP_ATTRS = {"coordinate", "inheritrange", "dampratio", "input", "cranklength", "slidersite", "refsite", "cranksite", "springdamper", "fromto", "fitscale", "mesh", "hfield",
              "material", "texture", "class", "childclass", "usethread", "nuser_body", "nuser_jnt", "nuser_geom",
              "nuser_site", "nuser_cam", "nuser_tendon", "nuser_actuator", "nuser_sensor", "user", "njmax", "nconmax",
              "nstack", "memory", "timeconst", "fullinertia"}
SKIP_DECLS_VALID = {"dcmotor"}

# messages that mean "rejected for a schema reason" (structure, keyword, type, arity, required attribute)
SCHEMA_MSG = re.compile(r"Schema violation|unrecognized|invalid keyword|problem reading attribute|too much data|"
                        r"not have enough data|required attribute missing|bad format in attribute|must have exactly|"
                        r"may have at most|duplicate keyword|number is too large")


# ------------------------------------------------------------------------------------------ schema access
def load_schema():
    p = os.path.join(common.REPO, "doc", "generate", "mjcf_schema.py")
    spec = importlib.util.spec_from_file_location("c37_mjcf_schema", p)
    mod = importlib.util.module_from_spec(spec)
    sys.modules["c37_mjcf_schema"] = mod
    spec.loader.exec_module(mod)
    return mod, mod.parse_file(os.path.join(common.REPO, "src", "xml", "mjcf.schema"))


def c_defines():
    out = {}
    for l in open(os.path.join(common.REPO, "include", "mujoco", "mjmodel.h"), errors="replace"):
        m = re.match(r"#define\s+(mjN[A-Z_]+)\s+(\d+)", l)
        if m:
            out[m.group(1)] = int(m.group(2))
    return out


class Grammar:
    """Element contexts derived from mjcf.schema the way doc/generate/generate_mjcf_table.py walks it."""

    def __init__(self, mod, schema):
        self.mod, self.s = mod, schema
        self.defs = c_defines()

    def attrs(self, decl, project):
        at = list(self.s.expanded_attrs(decl))
        if project:
            at = [a for a in at if a.name not in ("name", "class") and not a.facets.get("nodefault")]
        return at

    def constraints(self, decl, project):
        cons = list(decl.constraints())
        seen, stack = set(), [m.group for m in decl.members if isinstance(m, self.mod.Use)]
        variants = []
        while stack:
            g = stack.pop()
            if g in seen:
                continue
            seen.add(g)
            grp = self.s.groups[g]
            if grp.variant:
                variants.append([m.name for m in grp.members if isinstance(m, self.mod.Attr)])
            for m in grp.members:
                if isinstance(m, self.mod.Constraint):
                    cons.append(m)
                elif isinstance(m, self.mod.Use):
                    stack.append(m.group)
        names = {a.name for a in self.attrs(decl, project)}
        cons = [c for c in cons if all(all(n in names for n in b) for b in c.bundles)]
        return cons, variants

    def children(self, decl, project):
        """[(child decl, card, child_project)] in declaration order; alias children keep their own declaration"""
        out = []
        for c in decl.children():
            d = self.s.elements[c.name]
            if project and c.name == "plugin":
                continue
            # self-recursion (card R) re-enters the same row; other children of <default> are projections
            cp = project if c.name == decl.name else (project or (decl.name == "default" and not c.name.startswith("default_")))
            out.append((d, c.card, cp))
        return out

    def arity(self, a):
        lo, hi = a.arity.lo, a.arity.hi
        if isinstance(hi, str):
            hi = self.defs.get(hi)
            if hi is None:
                raise common.Infra("unknown symbolic arity bound %s" % a.arity.hi)
        return lo, hi


# ------------------------------------------------------------------------------------------ documents
class El:
    __slots__ = ("tag", "decl", "project", "attrs", "kids", "line", "alias")

    def __init__(self, tag, decl, project):
        self.tag, self.decl, self.project = tag, decl, project
        self.attrs, self.kids, self.line, self.alias = [], [], 0, False


class DocGen:
    def __init__(self, rng, g, budget):
        self.rng, self.g, self.budget = rng, g, budget
        self.names = {}      # namespace -> list of declared names
        self.counter = 0

    def fresh(self, ns):
        self.counter += 1
        n = "%s%d" % (ns[:3], self.counter)
        self.names.setdefault(ns, []).append(n)
        return n

    def num(self, a, typ):
        rng = self.rng
        f = a.facets
        if typ == "int":
            lo = int(f.get("min", 0)) if "min" in f else 0
            hi = int(f.get("max", lo + 5)) if "max" in f else lo + 5
            return str(rng.randint(max(lo, -1), max(hi, lo)))
        lo = float(f.get("min", 0.0)) if "min" in f else None
        v = rng.choice([0.5, 1, 2, 0.25, 1.5, 3, 0.1, 0.02])
        if lo is not None and v < lo:
            v = lo + v
        if "max" in f and v > float(f["max"]):
            v = float(f["max"])
        return repr(v) if v != int(v) else str(int(v))

    def value(self, a, force=False):
        """a valid value for attribute a, or None when none can be made (e.g. ref into an empty namespace)"""
        rng, t = self.rng, a.type
        if t in ("double", "float", "int"):
            lo, hi = self.g.arity(a)
            if hi is None:
                n = rng.randint(max(lo, 1), max(lo, 1) + 2)
            else:
                n = rng.randint(max(lo, 1), hi)
            if a.name in ("quat", "iquat", "refquat"):
                return "1 0 0 0"
            if a.name in ("axis", "zaxis", "dir"):
                return "0 0 1"
            if a.name == "xyaxes":
                return "1 0 0 0 1 0"
            if a.name == "axisangle":
                return "0 0 1 0.5"
            if a.name in ("ctrlrange",) and n == 2:
                return "0 1"
            if a.name in ("range", "forcerange", "actrange", "actuatorfrcrange", "lengthrange") and n == 2:
                return "-1 1"
            return " ".join(self.num(a, t) for _ in range(n))
        if t == "bool":
            return rng.choice(["true", "false"])
        if t == "enum":
            return rng.choice(self.g.s.enums[a.target].keywords())
        if t == "flags":
            ks = self.g.s.enums[a.target].keywords()
            return " ".join(rng.sample(ks, rng.randint(1, min(2, len(ks)))))
        if t == "id":
            return self.fresh(a.target)
        if t == "ref":
            pool = self.names.get(a.target) or []
            if not pool and (force or a.facets.get("required")):
                return "zz" + a.target    # references are resolved by the compiler, not by the reader
            return rng.choice(pool) if pool else None
        if t == "string":
            if "pattern" in a.facets:
                return None if a.default is None else str(a.default)
            return "s%d" % rng.randint(0, 9)
        if t == "chars":
            return None
        return None    # file

    def element(self, decl, project, depth, tag=None, world=False, p_attr=0.3, path=None):
        """world: the element is the worldbody or a frame whose nearest body is the world (no joints / inertial there);
        path: when given, only the child path[0] is generated (one instance, recursively along path[1:])"""
        rng, g = self.rng, self.g
        e = El(tag or decl.xml_name(), decl, project)
        self.budget -= 1
        cons, variants = g.constraints(decl, project)
        chosen = {}
        for a in g.attrs(decl, project):
            if a.facets.get("reading") == "custom" and a.type in ("string",):
                continue
            req = bool(a.facets.get("required"))
            if a.name in SKIP_ATTRS and not req and not (decl.name == "default" and a.name == "class"):
                continue
            if decl.name == "default" and a.name == "class":
                if depth >= 2:      # nested default classes must be named; the top-level one must not be renamed
                    chosen["class"] = self.fresh("default")
                continue
            if req or rng.random() < p_attr:
                v = self.value(a)
                if v is None:
                    if req:
                        return None
                    continue
                chosen[a.name] = v
        # variant groups: keep at most one member
        for vg in variants:
            have = [n for n in vg if n in chosen]
            for n in have[1:]:
                del chosen[n]
        adecl = {a.name: a for a in g.attrs(decl, project)}
        for _ in range(4):
            ok = True
            for c in cons:
                if not con_holds(c, chosen):
                    ok = False
                    if c.kind == "exclusive":
                        touched = [b for b in c.bundles if any(n in chosen for n in b)]
                        for b in touched[1:]:
                            for n in b:
                                chosen.pop(n, None)
                    elif c.kind in ("together", "oneof", "requires"):
                        want = [n for b in c.bundles for n in b] if c.kind == "together" else \
                            (list(c.bundles[0]) if c.kind == "oneof" else [c.bundles[1][0]])
                        for n in want:
                            if n not in chosen:
                                v = self.value(adecl[n], force=True)
                                if v is None:
                                    return None
                                chosen[n] = v
            if ok:
                break
        if not all(con_holds(c, chosen) for c in cons):
            return None
        for vg in variants:
            if sum(1 for n in vg if n in chosen) > 1:
                return None
        e.attrs = [(a.name, chosen[a.name]) for a in g.attrs(decl, project) if a.name in chosen]
        rng.shuffle(e.attrs)
        # children
        if path is not None:
            if path:
                d, cp, ktag = path[0]
                k = self.element(d, cp, depth + 1, tag=ktag, p_attr=p_attr, path=path[1:])
                if k is None:
                    return None
                e.kids.append(k)
            return e
        for d, card, cp in g.children(decl, project):
            if d.name in SKIP_DECLS or d.name in SKIP_DECLS_VALID:
                continue
            if world and d.name in ("joint", "freejoint", "inertial"):
                continue
            if card == "!":
                n = 1
            elif card == "?":
                n = rng.choice([0, 0, 1])
            elif card == "*":
                n = rng.choice([0, 0, 1, 1, 2])
            else:
                n = rng.choice([0, 1, 1, 2]) if depth < 3 else 0
            for _ in range(n):
                if self.budget <= 0 and card != "!":
                    break
                k = self.element(d, cp, depth + 1, world=world and d.name == "frame")
                if k is not None:
                    k.alias = d.name in ALIAS
                    e.kids.append(k)
        return e

    def document(self):
        s = self.g.s
        root = El("mujoco", s.elements["mujoco"], False)
        root.attrs = [("model", "m")] if self.rng.random() < 0.5 else []
        # generation order: defaults and bodies first so that later sections can refer to their names
        order = ["default", "asset", "body", "compiler", "option", "size", "statistic", "visual", "contact",
                 "tendon", "equality", "actuator", "sensor", "custom", "keyframe"]
        made = {}
        kids_decl = {d.name: (d, card, cp) for d, card, cp in self.g.children(root.decl, False)}
        for name in order:
            if name not in kids_decl or name in SKIP_DECLS:
                continue
            d, card, cp = kids_decl[name]
            n = self.rng.choice([0, 1, 1, 1, 2]) if name not in ("body", "default") else 1
            for _ in range(n):
                if name == "body":
                    k = self.element(s.elements["worldbody"], False, 1, tag="worldbody", world=True)
                else:
                    k = self.element(d, cp, 1)
                if k is not None:
                    made.setdefault(name, []).append(k)
        for d, card, cp in self.g.children(root.decl, False):
            root.kids += made.get(d.name, [])
        return root


def element_paths(g):
    """every element context reachable from <mujoco> (declaration, projection flag), with one shortest path to it"""
    s = g.s
    start = (s.elements["mujoco"], False, "mujoco")
    paths = {("mujoco", False): []}
    queue = [start]
    while queue:
        decl, project, _ = queue.pop(0)
        here = paths[(decl.name, project)]
        for d, card, cp in g.children(decl, project):
            if d.name in SKIP_DECLS:
                continue
            tag = d.xml_name()
            if decl.name == "mujoco" and d.name == "body":
                d, tag = s.elements["worldbody"], "worldbody"
            key = (d.name, cp)
            if key not in paths:
                paths[key] = here + [(d, cp, tag)]
                queue.append((d, cp, tag))
    return paths


def con_holds(c, chosen):
    pres = lambda n: n in chosen
    any_b = [any(pres(n) for n in b) for b in c.bundles]
    all_b = [all(pres(n) for n in b) for b in c.bundles]
    if c.kind == "exclusive":
        return sum(any_b) <= 1
    if c.kind == "together":
        flat = [n for b in c.bundles for n in b]
        k = sum(pres(n) for n in flat)
        return k == 0 or k == len(flat)
    if c.kind == "requires":
        return (not pres(c.bundles[0][0])) or pres(c.bundles[1][0])
    if c.kind == "oneof":
        return any(all_b)
    return True


def esc(v):
    return v.replace("&", "&amp;").replace("<", "&lt;").replace(">", "&gt;").replace('"', "&quot;")


def render(root):
    """one element per line (so that line numbers are known); returns the text"""
    lines = []

    def rec(e, ind):
        e.line = len(lines) + 1
        at = "".join(' %s="%s"' % (n, esc(v)) for n, v in e.attrs)
        if e.kids:
            lines.append("%s<%s%s>" % ("  " * ind, e.tag, at))
            for k in e.kids:
                rec(k, ind + 1)
            lines.append("%s</%s>" % ("  " * ind, e.tag))
        else:
            lines.append("%s<%s%s/>" % ("  " * ind, e.tag, at))
    rec(root, 0)
    return "\n".join(lines) + "\n"


def lean_doc(e):
    out = ["(", e.tag, str(e.line), str(len(e.attrs))] + [n for n, _ in e.attrs]
    for k in e.kids:
        out += lean_doc(k)
    out.append(")")
    return out


def walk(e, anc=()):
    yield e, anc
    for k in e.kids:
        yield from walk(k, anc + (e,))


# ------------------------------------------------------------------------------------------ mutants
STRUCT_KINDS = ("unknown-attr", "unknown-child", "dup-unique-child", "break-constraint", "foreign-attr", "misplaced-child")
VALUE_KINDS = ("bad-enum", "bad-number", "too-many", "too-few", "bad-bool")


def violate(rng, g, e, c):
    """attributes of element e changed so that presence constraint c is violated (None if that cannot be arranged)"""
    adecl = {a.name: a for a in g.attrs(e.decl, e.project)}
    gen = DocGen(rng, g, 0)
    new = dict(e.attrs)
    val = lambda n: gen.value(adecl[n], force=True) or "x"
    if c.kind == "exclusive":
        for b in c.bundles[:2]:
            for n in b[:1]:
                if n not in new:
                    new[n] = val(n)
    elif c.kind == "together":
        flat = [n for b in c.bundles for n in b]
        for n in flat:
            new.pop(n, None)
        new[flat[0]] = val(flat[0])
    elif c.kind == "requires":
        new.pop(c.bundles[1][0], None)
        new[c.bundles[0][0]] = val(c.bundles[0][0])
    elif c.kind == "oneof":
        for b in c.bundles:
            new.pop(b[0], None)
    return None if con_holds(c, new) else list(new.items())


MISPLACED = ("body", "worldbody", "geom", "joint", "default", "frame", "option", "key", "site", "inertial", "mujoco")


def systematic_mutants(rng, g, paths):
    """one violation of every kind at every element context: (root, description)"""
    mujoco = g.s.elements["mujoco"]
    out = []
    for key, path in paths.items():
        def base():
            root = DocGen(rng, g, 0).element(mujoco, False, 0, p_attr=0.0, path=path)
            if root is None:
                return None, None, None
            leaf, anc = root, []
            while leaf.kids:
                anc.append(leaf)
                leaf = leaf.kids[0]
            return root, leaf, anc
        root, leaf, anc = base()
        if root is None:
            continue
        in_alias = any(a.tag in ALIAS for a in anc) or leaf.tag in ALIAS
        where = "/".join([a.tag for a in anc] + [leaf.tag])
        decl, project = leaf.decl, leaf.project
        leaf.attrs.append(("zzbogus", "1"))
        out.append((root, {"kind": "unknown-attr", "where": where, "in_alias": in_alias, "attr": "zzbogus", "sweep": True}))
        allowed = {d.xml_name() for d, _, _ in g.children(decl, project)} | ({"worldbody"} if leaf.tag == "mujoco" else set())
        for t in MISPLACED:
            if t in allowed:
                continue
            root, leaf, anc = base()
            leaf.kids.append(El(t, None, False))
            out.append((root, {"kind": "misplaced-child", "where": where, "in_alias": in_alias or t in ALIAS, "child": t, "sweep": True}))
        for d, card, cp in g.children(decl, project):
            if card not in "?!" or d.name in SKIP_DECLS:
                continue
            root, leaf, anc = base()
            gen = DocGen(rng, g, 0)
            k1 = gen.element(d, cp, len(anc) + 1, p_attr=0.0, path=[])
            k2 = gen.element(d, cp, len(anc) + 1, p_attr=0.0, path=[])
            if k1 is None or k2 is None:
                continue
            leaf.kids += [k1, k2]
            out.append((root, {"kind": "dup-unique-child", "where": where, "in_alias": in_alias, "child": k1.tag, "sweep": True}))
        cons, _ = g.constraints(decl, project)
        for c in cons:
            root, leaf, anc = base()
            new = violate(rng, g, leaf, c)
            if new is None:
                continue
            leaf.attrs = new
            out.append((root, {"kind": "break-constraint", "where": where, "in_alias": in_alias,
                               "constraint": "%s %s" % (c.kind, c.bundles), "sweep": True}))
    return out


def presence_pattern_mutants(rng, g, paths, max_attrs=8):
    """EVERY presence pattern of the attributes that an element's presence constraints mention (all 2^k subsets, k <= max_attrs;
    beyond that: singletons, pairs and complements of singletons), kept when it violates at least one constraint.  `violate`
    produces one shape per constraint; the patterns it cannot produce are the ones where a multi-attribute bundle is only
    PARTIALLY present while no other constraint of the element objects (e.g. oneof a+b c+d with c alone), and the
    combinations of several constraints over shared attributes."""
    import itertools
    mujoco = g.s.elements["mujoco"]
    out = []
    for key, path in paths.items():
        decl, project = (path[-1][0], path[-1][1]) if path else (mujoco, False)
        cons, _ = g.constraints(decl, project)
        names = []
        for c in cons:
            for b in c.bundles:
                for n in b:
                    if n not in names:
                        names.append(n)
        if not names:
            continue
        if len(names) <= max_attrs:
            subsets = [s for r in range(len(names) + 1) for s in itertools.combinations(names, r)]
        else:
            subsets = [()] + [(n,) for n in names] + list(itertools.combinations(names, 2)) + \
                      [tuple(m for m in names if m != n) for n in names]
        adecl = {a.name: a for a in g.attrs(decl, project)}
        for sub in subsets:
            broken = [c for c in cons if not con_holds(c, set(sub))]
            if not broken:
                continue
            gen = DocGen(rng, g, 0)
            root = gen.element(mujoco, False, 0, p_attr=0.0, path=path)
            if root is None:
                break
            leaf, anc = root, []
            while leaf.kids:
                anc.append(leaf)
                leaf = leaf.kids[0]
            leaf.attrs = [(n, v) for n, v in leaf.attrs if n not in names] + \
                         [(n, gen.value(adecl[n], force=True) or "x") for n in sub]
            out.append((root, {"kind": "break-constraint", "where": "/".join([a.tag for a in anc] + [leaf.tag]),
                               "in_alias": any(a.tag in ALIAS for a in anc) or leaf.tag in ALIAS,
                               "constraint": "; ".join("%s %s" % (c.kind, c.bundles) for c in broken),
                               "present": list(sub), "sweep": "presence-pattern"}))
    return out


def run_isolating(ctx, impl, lines, max_restarts=8):
    """The op lines through the implementation, one process; when the process dies, the line it died on is run again ALONE
    in a fresh process (the crash is an observation about one concrete input, not the end of the run) and the remaining
    lines continue in a new process.  Returns (outputs -- None for a line the process died on or never reached --,
    crashes = [{index, rc, stderr, alone}])."""
    outs, crashes, start = [], [], 0
    while start < len(lines):
        rc, out, err = ctx.run_lines([impl], lines[start:])
        out = out[:len(lines) - start]
        outs += out
        if len(out) == len(lines) - start:
            break
        i = start + len(out)
        rc1, out1, err1 = ctx.run_lines([impl], [lines[i]])
        alone = not out1
        crashes.append({"index": i, "rc": rc1 if alone else rc, "stderr": (err1 if alone else err)[-400:], "alone": alone})
        outs.append(None)
        start = i + 1
        if len(crashes) >= max_restarts:
            outs += [None] * (len(lines) - start)
            break
    return outs, crashes


def crash_class(stderr):
    m = re.search(r"throwing an instance of '([^']+)'", stderr)
    if m:
        return m.group(1)
    m = re.search(r"(AddressSanitizer: [a-z-]+|runtime error|Segmentation fault|Aborted|Assertion)", stderr)
    return m.group(1).replace(" ", "-") if m else "died"


def mutate(rng, g, root, kind):
    """returns (mutated root, description dict) or None"""
    root = copy.deepcopy(root)
    nodes = list(walk(root))
    rng.shuffle(nodes)
    for e, anc in nodes:
        in_alias = any(a.tag in ALIAS for a in anc) or e.tag in ALIAS
        where = "/".join([a.tag for a in anc] + [e.tag])
        desc = {"kind": kind, "where": where, "in_alias": in_alias}
        if e.decl is None:
            continue
        allowed = {a.name for a in g.attrs(e.decl, e.project)}
        if kind == "unknown-attr":
            e.attrs.insert(rng.randint(0, len(e.attrs)), ("zzbogus", "1"))
            return root, dict(desc, attr="zzbogus")
        if kind == "foreign-attr":
            # an attribute that exists elsewhere in the language but not on this element
            pool = [n for n in ("kp", "gear", "fovy", "condim", "joint1", "cutoff", "mocap", "texuniform") if n not in allowed]
            if not pool:
                continue
            n = rng.choice(pool)
            e.attrs.append((n, "1"))
            return root, dict(desc, attr=n)
        if kind == "unknown-child":
            if e.tag in ("mujoco",) and rng.random() < 0.7:
                continue
            k = El("zzbogus", None, False)
            e.kids.insert(rng.randint(0, len(e.kids)), k)
            return root, desc
        if kind == "misplaced-child":
            # an element of the language in a place where the grammar does not allow it
            if e.decl is None:
                continue
            # (the body row under <mujoco> admits the tag `body` itself through the plain name rule of NameMatch, and `worldbody`)
            allowed = {d.xml_name() for d, _, _ in g.children(e.decl, e.project)} | ({"worldbody"} if e.tag == "mujoco" else set())
            pool = [t for t in MISPLACED if t not in allowed]
            if not pool:
                continue
            t = rng.choice(pool)
            k = El(t, None, False)
            e.kids.insert(rng.randint(0, len(e.kids)), k)
            return root, dict(desc, child=t, in_alias=in_alias or t in ALIAS)
        if kind == "dup-unique-child":
            cands = [k for k in e.kids if any(d.name == k.decl.name and card in "?!" for d, card, _ in g.children(e.decl, e.project))]
            if not cands:
                continue
            k = copy.deepcopy(rng.choice(cands))
            k.attrs = [(n, v) for n, v in k.attrs if n != "name"]
            e.kids.append(k)
            return root, dict(desc, child=k.tag)
        if kind == "break-constraint":
            cons, variants = g.constraints(e.decl, e.project)
            rng.shuffle(cons)
            for c in cons:
                new = violate(rng, g, e, c)
                if new is not None:
                    e.attrs = new
                    return root, dict(desc, constraint="%s %s" % (c.kind, c.bundles))
            continue
        # value mutants
        attrs = {a.name: a for a in g.attrs(e.decl, e.project)}
        idx = list(range(len(e.attrs)))
        rng.shuffle(idx)
        for i in idx:
            n, v = e.attrs[i]
            a = attrs.get(n)
            if a is None or a.facets.get("reading") == "custom":
                continue
            nv = None
            if kind == "bad-enum" and a.type == "enum":
                nv = "zzkeyword"
            elif kind == "bad-bool" and a.type == "bool":
                nv = rng.choice(["yes", "1", "TRUE", "on"])
            elif kind == "bad-number" and a.type in ("double", "float", "int"):
                toks = v.split()
                toks[rng.randrange(len(toks))] = rng.choice(["abc", "1.2.3", "1x", "--1", "0x", "1e"])
                nv = " ".join(toks)
            elif kind == "too-many" and a.type in ("double", "float", "int"):
                lo, hi = g.arity(a)
                if hi is not None:
                    nv = " ".join(["1"] * (hi + 1))
            elif kind == "too-few" and a.type in ("double", "float", "int"):
                lo, hi = g.arity(a)
                if hi is not None and lo == hi and lo >= 2:
                    nv = " ".join(["1"] * (lo - 1))
            if nv is not None:
                e.attrs[i] = (n, nv)
                return root, dict(desc, attr=n, value=nv, type=a.type)
    return None


# ------------------------------------------------------------------------------------------ the check
def hx(s):
    return bytes.fromhex(s).decode("utf-8", "replace")


def _run(ctx):
    rng = ctx.rng
    thorough = ctx.tier == "thorough"
    ctx.rule = ("model check(aliasRec=false) == real mj_parseXMLString on every document (accept / 'Schema violation' message, "
                "element, line); valid schema-derived documents are not rejected with a schema-type message; every "
                "single-violation mutant is rejected; NULL always comes with a non-empty message")
    ctx.assumptions.append("harness/stubs/tinyxml2 (a stand-in written for this framework, NOT tinyxml2) parses the documents and "
                           "reports line numbers; harness/build_xml.py builds src/xml against it (src/xml/mjz left out)")

    # translator
    r = common.sh([sys.executable, os.path.join(common.VERIF, "translate", "c37_tables.py")])
    tj = {}
    try:
        tj = json.load(open(os.path.join(GEN_DIR, "MjcfTable.json")))
    except Exception:
        pass
    ctx.oblige("translate mjcf_table.inc -> Gen/MjcfTable.lean", "translator", r.returncode == 0 and "rows" in tj,
               (r.stdout + r.stderr)[-600:] + str(tj.get("refused", "")))
    ctx.oblige("mjcf_table.inc is what doc/generate/generate_mjcf_table.py produces from mjcf.schema", "translator",
               bool(tj.get("fresh")), tj.get("fresh_detail", ""))

    ctx.lean_props(THEOREMS)
    ctx.lean_props(THEOREMS_GEN, module="MjProof.Props.C37Gen")
    # one audit file listing everything (lean_props rewrites it per call)
    with open(os.path.join(common.LEAN, "Audit", "C37.lean"), "w") as f:
        f.write("import MjProof.Props.C37\nimport MjProof.Props.C37Gen\n" +
                "".join("#print axioms %s\n" % t for t in THEOREMS + THEOREMS_GEN))

    drv = ctx.driver("drv_c37")
    try:
        impl = build_xml.build_harness(os.path.join(common.VERIF, "harness/cc/c37_schema.cc"), "c37_schema")
    except RuntimeError as e:
        ctx.oblige("build src/xml + harness/cc/c37_schema.cc", "impl-build", False, str(e))
        impl = None
    if not drv or not impl:
        return

    # --- sanity of the trusted tinyxml2 stand-in (parse rules, error ids, line numbers, printer layout)
    try:
        shim = os.path.join(common.VERIF, "harness", "stubs", "tinyxml2")
        st = common.build.build_harness(os.path.join(shim, "selftest.cc"), "c37_shim_selftest",
                                        extra=("-I" + shim, os.path.join(shim, "tinyxml2.cc")), link_lib=False,
                                        deps=[os.path.join(shim, "tinyxml2.cc"), os.path.join(shim, "tinyxml2.h")])
        rr = common.sh([st])
        ctx.oblige("self-test of the tinyxml2 stand-in", "trusted-base-selftest", rr.returncode == 0, (rr.stdout + rr.stderr)[-600:])
    except RuntimeError as e:
        ctx.oblige("self-test of the tinyxml2 stand-in", "trusted-base-selftest", False, str(e))

    # --- constructor tie: Print of the model-built tree == mj_printSchema
    _, om, _ = ctx.run_lines([drv], ["table", "print"])
    _, oi, _ = ctx.run_lines([impl], ["schema"])
    model_txt = om[1].replace("\\n", "\n") if len(om) > 1 else ""
    real_txt = hx(oi[0].split(" ")[1]) if oi and oi[0].startswith("schema ") else ""
    ctx.oblige("Lean build+Print of the translated table == mj_printSchema (%d chars)" % len(real_txt), "correspondence",
               bool(real_txt) and model_txt == real_txt,
               "first difference at %d" % next((i for i, (a, b) in enumerate(zip(model_txt, real_txt)) if a != b), min(len(model_txt), len(real_txt))))
    ctx.extra["table"] = om[0] if om else ""

    # --- documents
    try:
        mod, schema = load_schema()
    except Exception as e:
        ctx.oblige("parse mjcf.schema with the tree's doc/generate/mjcf_schema.py", "translator", False, repr(e))
        return
    g = Grammar(mod, schema)
    ndoc = 1500 if thorough else 120
    docs = []      # dict(text, root, kind, desc)
    tries = 0
    while len([d for d in docs if d["kind"] == "valid"]) < ndoc and tries < ndoc * 4:
        tries += 1
        root = DocGen(rng, g, rng.choice([15, 40, 80])).document()
        docs.append({"root": root, "kind": "valid", "desc": {}})
    # systematic sweeps: every element context with only its required attributes, and with each optional attribute alone
    paths = element_paths(g)
    mujoco = schema.elements["mujoco"]
    nsweep = 0
    for key, path in paths.items():
        root = DocGen(rng, g, 0).element(mujoco, False, 0, p_attr=0.0, path=path)
        if root is None:
            continue
        docs.append({"root": root, "kind": "valid", "desc": {"sweep": "minimal", "context": key[0]}})
        nsweep += 1
        if not path:
            continue
        decl, project, _ = path[-1]
        for a in g.attrs(decl, project):
            if a.facets.get("required") or a.name in SKIP_ATTRS or (a.type == "string" and a.facets.get("reading") == "custom"):
                continue
            gen = DocGen(rng, g, 0)
            root = gen.element(mujoco, False, 0, p_attr=0.0, path=path)
            if root is None:
                continue
            leaf = root
            while leaf.kids:
                leaf = leaf.kids[0]
            if any(n == a.name for n, _ in leaf.attrs):
                continue
            v = gen.value(a, force=True)
            if v is None:
                continue
            trial = dict(leaf.attrs)
            trial[a.name] = v
            cons, variants = g.constraints(decl, project)
            if not all(con_holds(c, trial) for c in cons) or any(sum(1 for n in vg if n in trial) > 1 for vg in variants):
                continue
            leaf.attrs.append((a.name, v))
            docs.append({"root": root, "kind": "valid", "desc": {"sweep": "solo", "context": key[0], "attr": a.name}})
            nsweep += 1
    ctx.extra["sweep_documents"] = {"element_contexts": len(paths), "documents": nsweep}

    valid = [d for d in docs if d["kind"] == "valid"]
    for d in valid:
        d["text"] = render(d["root"])
    # which valid documents does the real reader accept? (mutants are derived from accepted ones only)
    out, crashes = run_isolating(ctx, impl, ["doc " + d["text"].encode().hex() for d in valid])
    for cr in crashes:
        d = valid[cr["index"]]
        ctx.oracle_failure("c37:crash-on-valid-document:" + crash_class(cr["stderr"]),
                           "the reader process died (rc=%d) on a schema-derived document instead of returning a spec/model or "
                           "NULL with a message: %s" % (cr["rc"], cr["stderr"].strip()[-300:]),
                           {"xml": d["text"], "how": d["desc"], "reproduces_alone_in_a_fresh_process": cr["alone"],
                            "previous_document": None if cr["alone"] or not cr["index"] else valid[cr["index"] - 1]["text"]})
    accepted = []
    sem = {}
    for d, o in zip(valid, out):
        if o is None:
            continue
        f = dict(x.split("=", 1) for x in o.split(" ")[1:])
        d["p"], d["l"], d["perr"], d["lerr"] = int(f["p"]), int(f["l"]), hx(f["perr"]), hx(f["lerr"])
        ctx.count(("valid", json.dumps(d["desc"], sort_keys=True) if d["desc"] else d["text"]))
        if d["p"]:
            if not d["desc"]:
                accepted.append(d)
        elif SCHEMA_MSG.search(d["perr"]):
            m1 = re.search(r"Element '([^']*)'", d["perr"])
            m2 = re.search(r"'([^']*)'", d["perr"].split("\n")[0])
            cls = re.sub(r"\s*:?\s*'[^']*'.*", "", d["perr"].split("\n")[0].replace("XML Error: ", "")).strip().replace(" ", "-")
            key = "c37:conforming-rejected:%s:%s.%s" % (cls, m1.group(1) if m1 else "?", m2.group(1) if m2 else "?")
            ctx.oracle_failure(key, "a document that conforms to mjcf.schema (built from the schema by the tree's own parser: "
                               "declared attributes with values of the declared type, presence constraints and cardinalities "
                               "respected) is rejected for a schema-type reason: " + d["perr"].replace("\n", " | "),
                               {"xml": d["text"], "how": d["desc"]})
        else:
            k = re.sub(r"'[^']*'|\d+", "_", d["perr"].split("\n")[0])[:60]
            sem[k] = sem.get(k, 0) + 1
    nrand = len([d for d in valid if not d["desc"]])
    ctx.extra["valid_documents"] = {"generated": len(valid), "random": nrand, "random_accepted_by_parse": len(accepted),
                                    "compiled_by_loadXML": sum(d.get("l", 0) for d in valid),
                                    "rejected_for_non_schema_reasons": sem}
    ctx.oblige("at least half of the random schema-derived valid documents are accepted by mj_parseXMLString (%d of %d)"
               % (len(accepted), nrand), "generator-coverage", len(accepted) * 2 >= nrand, json.dumps(sem))

    # mutants
    per = 6 if thorough else 4
    kinds_hist = {}
    for d in accepted:
        for _ in range(per):
            kind = rng.choice(STRUCT_KINDS + VALUE_KINDS)
            m = mutate(rng, g, d["root"], kind)
            if m is None:
                continue
            root, desc = m
            docs.append({"root": root, "kind": kind, "desc": desc, "text": render(root), "base": d["text"]})
            kinds_hist[kind] = kinds_hist.get(kind, 0) + 1
    for root, desc in systematic_mutants(rng, g, paths):
        docs.append({"root": root, "kind": desc["kind"], "desc": desc, "text": render(root)})
        kinds_hist["sweep:" + desc["kind"]] = kinds_hist.get("sweep:" + desc["kind"], 0) + 1
    # every violating presence pattern of the attributes named by an element's presence constraints (drawn after the older
    # generators so that their per-seed samples stay what they were)
    for root, desc in presence_pattern_mutants(rng, g, paths):
        docs.append({"root": root, "kind": desc["kind"], "desc": desc, "text": render(root)})
        kinds_hist["sweep:presence-pattern"] = kinds_hist.get("sweep:presence-pattern", 0) + 1
    # the canonical witness of the frame/replicate hole, always present
    for txt, desc in [('<mujoco>\n<worldbody>\n<frame>\n<geom size="1" zzbogus="2"/>\n</frame>\n</worldbody>\n</mujoco>\n',
                       {"kind": "unknown-attr", "where": "mujoco/worldbody/frame/geom", "in_alias": True, "attr": "zzbogus"}),
                      ('<mujoco>\n<worldbody>\n<body>\n<frame zzbogus="1"/>\n</body>\n</worldbody>\n</mujoco>\n',
                       {"kind": "unknown-attr", "where": "mujoco/worldbody/body/frame", "in_alias": True, "attr": "zzbogus"})]:
        docs.append({"root": None, "kind": desc["kind"], "desc": desc, "text": txt, "fixed": True})
    ctx.extra["mutants"] = kinds_hist

    # --- which variant of the validator does the tree implement?  (Model/XmlSchema.lean has both: aliasRec = false is the
    # code as it stands today -- frame/replicate subtrees are admitted unvalidated; aliasRec = true validates them.)  Decided by
    # the canonical witness; the differential below then ties THAT variant to the real code on every document.
    wit = '<mujoco>\n<worldbody>\n<frame>\n<geom size="1" zzbogus="2"/>\n</frame>\n</worldbody>\n</mujoco>\n'
    _, wo, _ = ctx.run_lines([impl], ["check 0 ( mujoco 1 0 ) # " + wit.encode().hex()])
    mode = 1 if (wo and wo[0].startswith("err ") and "unrecognized attribute" in wo[0]) else 0
    ctx.extra["validator_variant"] = ("aliasRec=true: frame/replicate subtrees are validated (theorem check_iff_conforms applies)" if mode else
                                      "aliasRec=false: frame/replicate subtrees are NOT validated (theorems check_current_iff_conforms_weak, "
                                      "check_current_iff_conforms_of_holeFree, current_code_accepts_nonconforming apply)")

    # --- differential: model (the variant found above) vs real, on every document
    lines = []
    for d in docs:
        if d["root"] is None:
            continue
        lines.append("check %d " % mode + " ".join(lean_doc(d["root"])) + " # " + d["text"].encode().hex())

    def cmp(a, b):
        if b.startswith("ok"):
            return a == "ok"
        return a == b

    def keyf(l):
        return " ".join(l.split(" # ")[0].split(" ")[2:40])
    bad = ctx.differential("mjXSchema::Check (model, aliasRec=%s) vs mj_parseXMLString" % ("true" if mode else "false"), [drv], [impl], lines, keyf=keyf, cmp=cmp)
    for b in bad[:3]:
        b["line"] = b["line"][:300]
    if lines:
        ctx.sample({"doc": lines[0].split(" # ")[0][:200], "result": "ok"})

    # --- oracle on the mutants
    muts = [d for d in docs if d["kind"] != "valid"]
    out, crashes = run_isolating(ctx, impl, ["doc " + d["text"].encode().hex() for d in muts])
    for cr in crashes:
        d = muts[cr["index"]]
        ctx.oracle_failure("c37:crash-on-mutant:%s:%s:%s" % (d["kind"], (d["desc"].get("where") or "?").split("/")[-1],
                                                             crash_class(cr["stderr"])),
                           "the reader process died (rc=%d) on a document with a schema violation (%s at %s%s) instead of "
                           "returning NULL with a message: %s"
                           % (cr["rc"], d["kind"], d["desc"].get("where"),
                              ", attributes present: %s, violated: %s" % (d["desc"]["present"], d["desc"].get("constraint"))
                              if "present" in d["desc"] else "", cr["stderr"].strip()[-300:]),
                           {"xml": d["text"], "mutation": d["desc"], "reproduces_alone_in_a_fresh_process": cr["alone"],
                            "previous_document": None if cr["alone"] or not cr["index"] else muts[cr["index"] - 1]["text"],
                            "how": "harness/cc/c37_schema.cc, one line 'doc <hex of xml>' on stdin (mj_parseXMLString, then "
                                   "mj_loadXML through a VFS)"})
    nrej = 0
    for d, o in zip(muts, out):
        if o is None:
            continue
        f = dict(x.split("=", 1) for x in o.split(" ")[1:])
        d["p"], d["l"], d["perr"], d["lerr"] = int(f["p"]), int(f["l"]), hx(f["perr"]), hx(f["lerr"])
        ctx.count(("oracle", d["kind"], d["desc"].get("where"), d["desc"].get("attr")))
        if d["p"] == 0:
            nrej += 1
            if len(ctx.samples) < 5:
                ctx.sample({"mutation": d["desc"], "rejected_with": d["perr"].replace("\n", " | ")[:160]})
            continue
        desc = d["desc"]
        if desc.get("in_alias"):
            key = "c37:frame-replicate-subtree-not-validated"
            what = ("mj_parseXMLString accepts a document with a schema violation inside a <frame>/<replicate> subtree "
                    "(%s at %s): mjXSchema::Check only recurses into children whose tag equals the node's name, so "
                    "elements admitted through NameMatch (frame, replicate) are never validated" % (desc["kind"], desc["where"]))
        elif d["kind"] in STRUCT_KINDS:
            key = "c37:structure-violation-accepted:%s" % d["kind"]
            what = "mj_parseXMLString accepts a document with a %s at %s" % (d["kind"], desc["where"])
        else:
            el = desc["where"].split("/")[-1]
            key = "c37:bad-value-accepted:%s:%s.%s" % (d["kind"], el, desc.get("attr"))
            what = ("mj_parseXMLString accepts %s=\"%s\" on <%s> although mjcf.schema types the attribute as %s (%s)"
                    % (desc.get("attr"), desc.get("value"), el, desc.get("type"), d["kind"]))
        ctx.oracle_failure(key, what, {"xml": d["text"], "mutation": desc, "accepted": True})
    ctx.extra["mutants_rejected"] = "%d of %d" % (nrej, len(muts))

    # --- API contract on every call made above
    for d in docs:
        if "p" not in d:
            continue
        for api, ok, msg in (("mj_parseXMLString", d["p"], d["perr"]), ("mj_loadXML", d["l"], d["lerr"])):
            if not ok and (msg.strip() == "" or msg == "<untouched>"):
                ctx.oracle_failure("c37:null-without-message:" + api, api + " returned NULL with an empty error message",
                                   {"xml": d["text"]})
        if d["p"] == 0 and d["l"] == 1:
            ctx.oracle_failure("c37:load-accepts-what-parse-rejects", "mj_loadXML returned a model for a document that "
                               "mj_parseXMLString rejects", {"xml": d["text"], "perr": d["perr"]})

    # --- byte-mutation fuzz under ASan/UBSan (supporting evidence only; not a claim)
    if thorough:
        fuzz(ctx, [d["text"] for d in accepted[:200]])

    def directed(c):
        # a broken tie with no oracle failure: look for a document on which the real reader and the declarative
        # expectation disagree among the disagreeing inputs themselves
        for dg in c.disagreements:
            if (dg.get("impl") or "").startswith("<crash"):
                # the real reader died inside the differential stream: the line alone, in a fresh process
                rc1, out1, err1 = c.run_lines([impl], [dg["line"]])
                if not out1:
                    txt = hx(dg["line"].split(" # ")[1]) if " # " in dg["line"] else dg["line"][:2000]
                    return {"key": "c37:crash-in-parse:" + crash_class(err1), "what": "mj_parseXMLString does not return on this "
                            "document (process died, rc=%d): %s; the model of mjXSchema::Check says: %s"
                            % (rc1, err1.strip()[-300:], dg.get("model")), "replay": {"xml": txt}}
        for dg in c.disagreements:
            if dg.get("impl", "").startswith("ok") and dg.get("model", "").startswith("err"):
                return {"key": "c37:model-rejects-real-accepts", "what": "the real reader accepts a document the model of "
                        "mjXSchema::Check rejects with: " + dg["model"], "replay": {"line": dg["line"][:2000]}}
        return None
    ctx.directed_search = directed


def fuzz(ctx, texts):
    rng = ctx.rng
    try:
        impl = build_xml.build_harness(os.path.join(common.VERIF, "harness/cc/c37_schema.cc"), "c37_schema_asan", variant="asan")
    except RuntimeError as e:
        ctx.extra["asan_fuzz"] = "asan build failed: " + str(e)[-300:]
        return
    lines = []
    for t in texts:
        b = bytearray(t.encode())
        for _ in range(20):
            m = bytearray(b)
            for _ in range(rng.randint(1, 4)):
                op = rng.random()
                i = rng.randrange(len(m)) if m else 0
                if op < 0.4 and m:
                    m[i] = rng.choice(b"<>/\"'&= \n\x00\xff;#x0-") if rng.random() < 0.7 else rng.randrange(256)
                elif op < 0.7 and m:
                    del m[i:i + rng.randint(1, 8)]
                else:
                    j = rng.randrange(len(b))
                    m[i:i] = b[j:j + rng.randint(1, 12)]
            # parse only (mj_parseXMLString): the compile step of mj_loadXML is engine/user code, outside this property's code
            lines.append("check 0 ( fuzz 1 0 ) # " + bytes(m).hex())
    env = {"ASAN_OPTIONS": "detect_leaks=0:abort_on_error=0:exitcode=77", "UBSAN_OPTIONS": "halt_on_error=1:exitcode=78"}
    rc, out, err = ctx.run_lines([impl], lines, env=env, timeout=3000)
    ctx.extra["asan_fuzz"] = {"documents": len(lines), "answered": len(out), "exit": rc,
                              "note": "supporting evidence only (tinyxml2 is replaced by a stand-in); not a claim",
                              "report": err[-1500:] if rc else ""}
    if rc != 0 or len(out) != len(lines):
        i = min(len(out), len(lines) - 1)
        ctx.oracle_failure("c37:sanitizer-report-in-reader-or-standin",
                           "ASan/UBSan build: the process stopped on a mutated document (could be the tinyxml2 stand-in or "
                           "src/xml): " + err[-400:], {"xml_hex": lines[i].split(" # ")[1], "stderr": err[-1500:]})


def _distinct_first(ctx):
    """the replay file keeps the first 20 failures: put one failure of every distinct key first"""
    seen, head, tail = set(), [], []
    for f in ctx.oracle_failures:
        (tail if f["key"] in seen else head).append(f)
        seen.add(f["key"])
    ctx.oracle_failures[:] = head + tail


def run(ctx):
    try:
        _run(ctx)
    finally:
        _distinct_first(ctx)


if __name__ == "__main__":
    common.main(run, "C37")
