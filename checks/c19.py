"""C19  Internal stack and arena allocation is memory-safe (DESIGN.md §5.C19)."""
import json

from . import common

META = {
    "technique": "Lean 4 proof (invariant over all operation sequences: downward chain of live stack objects / upward chain "
                 "of arena blocks; induction over fetch-add order for the thread-lock path) + exact differential "
                 "correspondence with the real allocator on a real mjData + property oracle on the implementation's outputs",
    "text": "Model of mj_arenaAllocByte, stackallocinternal, stackalloc (incl. the d->threadlock fetch-add path), "
            "mj_markStack, mj_freeStack, mj_stackAllocNum/Int and mju_dispatch's mark/lock/unlock/free bracket over "
            "64-bit wrap-around arithmetic (fastmod proved equal to % on all of size_t). Proved for every operation "
            "sequence from a fresh mjData, every size and every alignment > 0 that satisfy the explicit no-wrap side "
            "condition (size + alignment + 2*redzone < 2^64; pstack + that < 2^64 under the lock; parena + alignment + "
            "bytes < 2^64 for the arena): live blocks and frame records are pairwise disjoint, inside the buffer, stack "
            "objects above arena + parena, arena blocks below it; returned stack pointers are aligned (absolute), arena "
            "pointers aligned relative to the arena base (absolute when the base is); mj_freeStack never reads an "
            "unwritten record and after mark; well-nested ops; free the stack pointer, pbase, the frame list and the live "
            "set are exactly restored; stack overflow is raised iff no aligned block fits and leaves the state unchanged; "
            "arena NULL iff the block does not fit, state unchanged; under the thread lock the blocks granted to any "
            "interleaving of the threads' fetch-adds are pairwise disjoint, aligned, inside the gap that was free when "
            "the lock was taken (also when some reservations overflow), and mju_dispatch returns with the pstack/pbase it "
            "started with. The code has NO guard for the side condition: three wrap-around witnesses are proved on the "
            "model and reproduced on the real code (known findings c19:size-wrap:*).",
    "note": "frame records are abstracted to a list (the head is the record d->pbase addresses; proved: never read when "
            "absent, never overlapped by a client block; the harness scribbles over every granted block). The tie is "
            "differential: exact equality of result offset, pstack, parena, pbase, threadlock, maxuse_stack, maxuse_arena "
            "after every op, on an mjData from mj_makeData whose arena buffer is re-seated at a fixed address (the stack "
            "aligns absolute addresses). Concurrency is modelled at the granularity of the atomic fetch-add (the rest of a "
            "reservation reads only thread-local values and fields constant under the lock); real threads are sampled "
            "(pthreads and the real mju_threadpool/mju_dispatch). In the thread-lock path an overflow error does NOT roll "
            "pstack back (modelled as is; recovery is by mju_dispatch's free). mj_arenaAllocByte aligns the offset, not the "
            "address: for alignments > 64 on a 64-byte aligned arena the pointer can be misaligned (not counted as a "
            "violation). 'Every public engine call returns with the pstack it started with' is only sampled (oracle over "
            "22 entry points x 4 models, with and without a thread pool), not proved. The mjUSEASAN red-zone variant is "
            "covered by the theorems (parameter rz) but only the regular build is run. After a *caught* overflow under the "
            "lock that is not followed by the bracket's mj_freeStack the mjData is over-reserved (top < limit): nothing is "
            "claimed there and the harness does not execute unlocked calls in that state. The huge-size correspondence "
            "accepts, besides exact equality with the unguarded model, an implementation that rejects a wrapping request "
            "with error/NULL and an unchanged state (so the check survives an overflow-guard fix).",
}

P = "MjProof.C19."
THEOREMS = [P + n for n in (
    "init_inv", "all_sequences_safe", "live_stack_in_bounds", "live_arena_in_bounds",
    "live_stack_pairwise_disjoint", "live_arena_pairwise_disjoint", "stack_arena_disjoint", "free_never_undef",
    "stackAlloc_granted", "stack_exhaustion_reported", "arenaAlloc_granted", "arena_exhaustion_reported",
    "locked_reservation", "free_restores", "concurrent_reservations_disjoint", "locked_blocks_disjoint_from_live",
    "dispatch_restores", "stackAlloc_wrap_witness", "locked_wrap_witness", "arena_wrap_witness", "fastmod_correct",
    "elems_guard_suffices")]

W = 1 << 64
REGION = 0x200000000000
MAXNARENA = 4 << 20
FRAME = 24
ENGINE_FN = ["forward", "step", "step12", "inverse", "forwardSkip", "kinematics", "fwdPosition", "energy", "rnePost",
             "island", "fullM", "transitionFD", "resetData", "copyData", "rk4", "implicit", "implicitfast", "pgs", "cg",
             "elliptic", "noslip", "step20"]


# ------------------------------------------------------------------------------------------------ generators
def pick_align(rng, allow_odd=True):
    r = rng.random()
    if r < 0.78:
        return 1 << rng.randint(0, 6)
    if r < 0.90:
        return 1 << rng.randint(7, 12)
    if allow_odd:
        return rng.choice((3, 5, 6, 7, 12, 24, 48, 100, 1000))
    return 8


def pick_size(rng, narena):
    r = rng.random()
    if r < 0.05:
        return 0
    if r < 0.45:
        return rng.randint(1, 64)
    if r < 0.80:
        return rng.randint(1, max(1, narena // 8))
    if r < 0.92:
        return rng.randint(max(1, narena // 4), narena)
    if r < 0.97:
        return narena + rng.randint(-40, 40) if narena > 40 else narena + rng.randint(0, 40)
    return rng.randint(narena, 1 << 16) if narena < (1 << 16) else rng.randint(1, 1 << 16)


def pick_new(rng):
    r = rng.random()
    if r < 0.5:
        narena = rng.randint(64, 4096)
    elif r < 0.85:
        narena = rng.randint(4096, 1 << 16)
    elif r < 0.97:
        narena = rng.randint(1 << 16, 1 << 18)
    else:
        narena = rng.randint(1, 64)
    off = 64 * rng.randint(0, (MAXNARENA // 64))
    if rng.random() < 0.08:          # bases that are not 64-byte aligned: the model is exact for them too
        off = min(MAXNARENA, off + rng.choice((8, 16, 24, 1, 4, 36)))
    return "new %d %d" % (REGION + off, narena), narena


def gen_seq(rng, hist):
    head, narena = pick_new(rng)
    lines = [head]
    depth = 0
    for _ in range(rng.randint(10, 60)):
        r = rng.random()
        if r < 0.14:
            op = "mark"; depth += 1
        elif r < 0.27:
            op = "free"; depth = max(0, depth - 1)
        elif r < 0.60:
            op = "%s %d %d" % (rng.choice(("alloc", "alloc", "alloc", "alloci")), pick_size(rng, narena), pick_align(rng))
        elif r < 0.78:
            op = "arena %d %d" % (pick_size(rng, narena), pick_align(rng))
        elif r < 0.88:
            op = "num %d" % (pick_size(rng, narena) // 8)
        elif r < 0.96:
            op = "int %d" % (pick_size(rng, narena) // 4)
        else:
            op = "dispatch %d %d %d %d" % (rng.randint(1, 3), rng.choice((0, 1, 2, 3, 5, 9)), pick_size(rng, narena) // 4,
                                           pick_align(rng))
        hist[op.split()[0]] = hist.get(op.split()[0], 0) + 1
        lines.append(op)
    return lines


def gen_lock(rng, hist, bracketed=True):
    """mark; lock; concurrent reservations; unlock; free  (the bracket of mju_dispatch) with variations."""
    head, narena = pick_new(rng)
    lines = [head]
    for _ in range(rng.randint(0, 4)):
        lines.append(rng.choice(("alloc %d %d" % (pick_size(rng, narena) // 4, pick_align(rng)),
                                 "arena %d %d" % (pick_size(rng, narena) // 4, pick_align(rng)), "mark")))
    for _ in range(rng.randint(1, 3)):
        # mju_dispatch always brackets the locked phase with mark/free; without the bracket an overflow under the
        # lock leaves pstack over-reserved for good (see gen_odd for that case, correspondence only)
        bracket = bracketed or rng.random() < 0.5
        if bracket:
            lines.append("mark")
        lines.append("lock")
        for _ in range(rng.randint(1, 6)):
            r = rng.random()
            if r < 0.35:
                lines.append("par %d %d %d" % (rng.randint(1, 8), pick_size(rng, narena) // 8, pick_align(rng)))
            elif r < 0.65:
                k = rng.randint(2, 8)
                lines.append("parh " + " ".join("%d %d" % (pick_size(rng, narena) // 8, pick_align(rng)) for _ in range(k)))
            elif r < 0.85:
                lines.append("alloc %d %d" % (pick_size(rng, narena) // 4, pick_align(rng)))
            elif r < 0.90:
                lines.append("num %d" % (pick_size(rng, narena) // 32))
            elif bracketed:
                lines.append(rng.choice(("mark", "free")))       # no-ops under the lock
            else:
                lines.append(rng.choice(("mark", "free", "arena %d %d" % (pick_size(rng, narena) // 8, pick_align(rng)))))
        lines.append("unlock")
        if bracket:
            lines.append("free")
        if rng.random() < 0.5:
            lines.append("dispatch %d %d %d %d" % (rng.randint(1, 4), rng.randint(2, 12), pick_size(rng, narena) // 8,
                                                   pick_align(rng)))
        if rng.random() < 0.3:
            lines.append("alloc %d %d" % (pick_size(rng, narena) // 4, pick_align(rng)))
    for l in lines[1:]:
        hist[l.split()[0]] = hist.get(l.split()[0], 0) + 1
    return lines


def huge(rng, al):
    r = rng.random()
    if r < 0.35:
        return W - rng.randint(1, max(1, 2 * al))
    if r < 0.55:
        return W - rng.randint(1, 5000)
    if r < 0.70:
        return (1 << 63) + rng.randint(-5000, 5000)
    if r < 0.85:
        return rng.randint(1 << 62, W - 1)
    return W - al * rng.randint(1, 4) + rng.choice((-1, 0, 1))


def gen_wrap(rng, hist):
    head, narena = pick_new(rng)
    lines = [head]
    for _ in range(rng.randint(0, 4)):
        lines.append(rng.choice(("alloc %d %d" % (rng.randint(1, max(1, narena // 8)), pick_align(rng, False)),
                                 "arena %d %d" % (rng.randint(1, max(1, narena // 8)), pick_align(rng, False)), "mark")))
    locked = rng.random() < 0.4
    if locked:
        lines += ["mark", "lock", "par 2 %d 8" % rng.randint(1, max(1, narena // 16))]
    al = pick_align(rng, False)
    kind = rng.choice(("alloc", "alloc", "arena", "num", "int")) if not locked else rng.choice(("alloc", "alloc", "num", "int", "par"))
    if kind == "alloc":
        lines.append("alloc %d %d" % (min(W - 1, huge(rng, al)), al))
    elif kind == "arena":
        lines.append("arena %d %d" % (min(W - 1, huge(rng, al)), al))
    elif kind == "num":
        lines.append("num %d" % rng.choice(((W - 1) // 8 - rng.randint(0, 3), (W - 1) // 8 + rng.randint(0, 3), huge(rng, 8) // 8,
                                             min(W - 1, huge(rng, 8)))))
    elif kind == "int":
        lines.append("int %d" % rng.choice(((W - 1) // 4 - rng.randint(0, 3), (W - 1) // 4 + rng.randint(0, 3), huge(rng, 4) // 4,
                                             min(W - 1, huge(rng, 4)))))
    else:
        lines.append("par 2 %d %d" % (min(W - 1, huge(rng, al)), al))
    # aftermath: what later calls see after a wrapped request was granted
    for _ in range(rng.randint(0, 3)):
        lines.append(rng.choice(("alloc %d 8" % rng.randint(1, max(1, narena // 8)),
                                 "arena %d 8" % rng.randint(1, max(1, narena // 8)))))
    hist[kind + ("(locked)" if locked else "")] = hist.get(kind + ("(locked)" if locked else ""), 0) + 1
    return lines


def gen_odd(rng):
    """malformed / rejected ops, and (via gen_lock(bracketed=False)) thread-lock phases without the mark/free bracket:
    correspondence only.  Alignment 0 is outside the property's domain and is not exercised."""
    head, narena = pick_new(rng)
    lines = [head, "alloc 10 8", "arena 10 8"]
    for _ in range(6):
        lines.append(rng.choice(("alloc %d 3" % rng.randint(0, 100), "arena %d 3" % rng.randint(0, 100), "frob 1 2", "alloc 1",
                                 "alloc x 8", "arena 5", "par 2 8 8", "new 5 5", "new %d 0" % REGION, "mark 3",
                                 "alloc 18446744073709551616 8", "parh 8", "dispatch 0 2 8 8", "lock", "unlock",
                                 "dispatch 2 2 8 8", "alloc -1 8")))
    return lines


# ------------------------------------------------------------------------------------------------ oracle
class Seq:
    """API-contract bookkeeping for one mjData (what is live), fed only with the implementation's outputs."""

    def __init__(self, base, narena):
        self.base, self.narena = base, narena
        self.frames = [{"blocks": []}]     # frames[0]: blocks allocated outside any mark
        self.arena = []
        self.state = (0, 0, None, 0)       # pstack parena pbase lock
        self.locked = False
        self.tainted = False
        self.over = False                  # an overflow under the thread lock left pstack over-reserved

    def live(self):
        for f in self.frames:
            for b in f["blocks"]:
                yield b
            if "rec" in f:
                yield f["rec"]


def parse_state(s):
    w = s.split()
    return (int(w[0]), int(w[1]), None if w[2] == "-" else int(w[2]), int(w[3])), (int(w[4]), int(w[5]))


def fits_stack(q, st, size, al):
    """is there an aligned block of `size` bytes between arena+parena and the top of stack?"""
    pstack, parena = st[0], st[1]
    top = q.narena - pstack
    if size > top or al == 0:
        return False
    p = ((q.base + top - size) // al) * al - q.base
    return p >= parena


def check_block(q, st_before, off, size, al, what, others=()):
    """safety of one granted stack block against everything live; returns failure class or None."""
    if size == 0:
        return "non-NULL pointer for a zero-size request"
    if off >= W // 2 or off + size > q.narena:
        return "block [%d,+%d) is not inside the arena buffer of %d bytes" % (off, size, q.narena)
    if off < st_before[1]:
        return "stack block at %d lies inside the arena-allocated region [0,%d)" % (off, st_before[1])
    if al and (q.base + off) % al:
        return "pointer %d not aligned to %d" % (q.base + off, al)
    for (o, s, tag) in list(q.live()) + list(others):
        if off < o + s and o < off + size:
            return "block [%d,+%d) overlaps live %s [%d,+%d)" % (off, size, tag, o, s)
    for (o, s, tag) in q.arena:
        if off < o + s and o < off + size:
            return "stack block [%d,+%d) overlaps arena block [%d,+%d)" % (off, size, o, s)
    return None


def oracle_stream(lines, outs):
    """yields (index_of_sequence_start, index, key, what) for every property failure seen in the outputs."""
    q = None
    start = 0
    for i, (l, o) in enumerate(zip(lines, outs)):
        w = l.split()
        if not w:
            continue
        op = w[0]
        if o == "bad-op":
            continue
        if op == "new":
            ow = o.split()
            start = i
            q = Seq(int(w[1]), int(w[2]))
            if ow[:1] != ["new"] or [int(x) for x in ow[1:]] != [int(w[2]), 0, 0, 0, 0, 0, 0, 0]:
                yield start, i, "c19:makeData-init", "mj_makeData did not produce narena=%s, parena=pstack=pbase=0, threadlock=0, 64-byte aligned arena: %s" % (w[2], o)
                q.tainted = True
            continue
        if q is None or q.tainted:
            continue
        if o.startswith("over-reserved"):
            q.tainted = True               # not called by the harness (see c19_arena.c); nothing to judge
            continue
        try:
            res, sttxt = o.split(" | ")
            st, use = parse_state(sttxt)
        except ValueError:
            yield start, i, "c19:malformed-output", "unparsable harness output: " + o[:100]
            q.tainted = True
            continue
        prev = q.state
        fail = None
        args = [int(x) for x in w[1:]]
        big = any(a * {"num": 8, "int": 4}.get(op, 1) >= (1 << 62) for a in args)
        r = res.split()
        if q.locked and "error" in r:
            q.over = True
        if q.over:
            # stackalloc does not roll the fetch-add back: until the frame marked before the lock is freed (as
            # mju_dispatch does) the mjData is over-reserved and nothing is claimed about further calls
            if op in ("lock", "unlock"):
                q.locked = op == "lock"
            elif op == "arena":
                q.tainted = True           # the arena check reads the over-reserved pstack
            elif op == "free" and not q.locked and len(q.frames) > 1:
                f = q.frames[-1]
                if res != "ok" or st != (f["pstack"], prev[1], f["pbase"], prev[3]):
                    yield start, i, "c19:free:pstack-not-restored", "%s -> %s: mj_freeStack after an overflow under the lock did not restore pstack=%d pbase=%s" % (l, o, f["pstack"], f["pbase"])
                    q.tainted = True
                q.frames.pop()
                q.over = False
            elif not q.locked:
                q.tainted = True           # contract left: sequence no longer judged
            q.state = st
            continue
        if op in ("alloc", "alloci", "num", "int"):
            size, al = (args[0], args[1]) if op in ("alloc", "alloci") else (args[0] * (8 if op == "num" else 4), 8 if op == "num" else 4)
            too_large = op in ("num", "int") and args[0] >= (W - 1) // (8 if op == "num" else 4)
            if r[0] == "ptr":
                off = int(r[1])
                fail = "request beyond 2^64 bytes granted" if too_large else check_block(q, prev, off, size, al, op)
                if not fail and not q.locked:
                    if not (st[0] >= prev[0] + size and st[1:] == prev[1:] and q.narena - st[0] <= off):
                        fail = "after a grant: pstack %d -> %d does not cover the block at %d, or parena/pbase/lock changed" % (prev[0], st[0], off)
                if not fail and q.locked:
                    asz = size + al - 1
                    if st != (prev[0] + asz, prev[1], prev[2], prev[3]) or prev[0] + asz > q.narena - prev[1]:
                        fail = "thread-lock reservation: pstack %d -> %d for alloc_size %d with %d available" % (prev[0], st[0], asz, q.narena - prev[1])
                if not fail:
                    q.frames[-1]["blocks"].append((off, size, "block"))
            elif r[0] == "null":
                if size != 0:
                    fail = "NULL for a non-zero stack request (exhaustion must be an error)"
                elif st != prev:
                    fail = "state changed by a zero-size request"
            elif r[0] == "error":
                if size == 0 and not too_large:
                    fail = "error for a zero-size request"
                elif not q.locked:
                    if st != prev:
                        fail = "state changed although mju_error was raised: %s -> %s" % (prev, st)
                    elif not too_large and fits_stack(q, prev, size, al):
                        fail = "stack overflow reported although an aligned block of %d bytes fits (pstack=%d parena=%d narena=%d)" % (size, prev[0], prev[1], q.narena)
                elif not too_large:
                    asz = size + al - 1
                    if asz < W and prev[0] + asz < W and (st != (prev[0] + asz, prev[1], prev[2], prev[3]) or prev[0] + asz <= q.narena - prev[1]):
                        fail = "thread-lock overflow error with pstack %d -> %d, alloc_size %d, available %d" % (prev[0], st[0], asz, q.narena - prev[1])
            else:
                fail = "unexpected result " + res
        elif op == "arena":
            size, al = args
            if r[0] == "ptr":
                off = int(r[1])
                if off >= W // 2 or off < prev[1] or off + size > q.narena - prev[0]:
                    fail = "arena block [%d,+%d) not inside [parena=%d, narena-pstack=%d)" % (off, size, prev[1], q.narena - prev[0])
                elif al and (off % al or off - prev[1] >= al):
                    fail = "arena offset %d is not the next multiple of %d at or above %d" % (off, al, prev[1])
                elif al and q.base % al == 0 and (q.base + off) % al:
                    fail = "arena pointer misaligned"
                elif st != (prev[0], off + size, prev[2], prev[3]):
                    fail = "after an arena grant at %d (+%d): state %s -> %s" % (off, size, prev, st)
                else:
                    for (o2, s2, tag) in list(q.live()) + q.arena:
                        if off < o2 + s2 and o2 < off + size:
                            fail = "arena block [%d,+%d) overlaps live %s [%d,+%d)" % (off, size, tag, o2, s2)
                if not fail:
                    q.arena.append((off, size, "arena block"))
            elif r[0] == "null":
                if st != prev:
                    fail = "state changed although mj_arenaAllocByte returned NULL"
                elif al:
                    nxt = -(-prev[1] // al) * al
                    if nxt + size <= q.narena - prev[0]:
                        fail = "NULL although %d bytes fit at offset %d (narena-pstack=%d)" % (size, nxt, q.narena - prev[0])
            else:
                fail = "mj_arenaAllocByte must return a pointer or NULL, got " + res
        elif op == "mark":
            if q.locked:
                if res != "ok" or st != prev:
                    fail = "mj_markStack under the thread lock must be a no-op"
            elif res == "ok":
                pb = st[2]
                if pb is None or st[0] < prev[0] + FRAME or st[1] != prev[1] or st[3] != prev[3]:
                    fail = "mark: state %s -> %s" % (prev, st)
                else:
                    fail = check_block(q, prev, pb, FRAME, 8, "frame record")
                    if not fail and not (q.narena - st[0] <= pb and pb + FRAME <= q.narena - prev[0]):
                        fail = "frame record at %d not inside the newly reserved [%d,%d)" % (pb, q.narena - st[0], q.narena - prev[0])
                if not fail:
                    q.frames.append({"blocks": [], "rec": (pb, FRAME, "frame record"), "pstack": prev[0], "pbase": prev[2]})
            elif res == "error":
                if st != prev:
                    fail = "state changed although mj_markStack raised mju_error"
                elif fits_stack(q, prev, FRAME, 8):
                    fail = "mj_markStack overflow although a frame record fits"
            else:
                fail = "unexpected result " + res
        elif op == "free":
            if q.locked or len(q.frames) == 1:
                if res != "ok" or st != prev:
                    fail = "mj_freeStack %s must be a no-op: %s -> %s" % ("under the thread lock" if q.locked else "without an open mark", prev, st)
            else:
                f = q.frames[-1]
                if res != "ok" or st != (f["pstack"], prev[1], f["pbase"], prev[3]):
                    fail = "mj_freeStack did not restore the marked stack pointer: expected pstack=%d pbase=%s, got %s (%s)" % (f["pstack"], f["pbase"], st, res)
                else:
                    q.frames.pop()
        elif op in ("lock", "unlock"):
            want = 1 if op == "lock" else 0
            if st != (prev[0], prev[1], prev[2], want):
                fail = "lock flag op changed the allocator state"
            q.locked = bool(want)
        elif op in ("par", "parh"):
            reqs = [(args[1], args[2])] * args[0] if op == "par" else list(zip(args[0::2], args[1::2]))
            toks = r[1:]
            if len(toks) != len(reqs):
                fail = "wrong number of results"
            else:
                new = []
                nerr = 0
                for (size, al), t in zip(reqs, toks):
                    if t == "error":
                        nerr += 1
                        if size == 0:
                            fail = fail or "error for a zero-size request"
                    elif t == "null":
                        if size != 0:
                            fail = fail or "NULL for a non-zero stack request"
                    else:
                        fail = fail or check_block(q, prev, int(t), size, al, op, new)
                        new.append((int(t), size, "concurrently reserved block"))
                tot = sum(s + a - 1 for s, a in reqs if s)
                if not fail and tot < W and st != (prev[0] + tot, prev[1], prev[2], prev[3]):
                    fail = "concurrent reservations: pstack %d -> %d, expected +%d" % (prev[0], st[0], tot)
                if not fail and op == "par" and reqs[0][0] and tot < W:
                    asz = reqs[0][0] + reqs[0][1] - 1
                    want_ok = sum(1 for k in range(1, len(reqs) + 1) if prev[0] + k * asz <= q.narena - prev[1])
                    if want_ok != len(new):
                        fail = "%d of %d equal reservations granted, %d fit" % (len(new), len(reqs), want_ok)
                if not fail:
                    q.frames[-1]["blocks"] += new
        elif op == "dispatch":
            nt, k, size, al = args
            if r[1] == "error":
                if st != prev:
                    fail = "state changed although mju_dispatch's mj_markStack raised mju_error"
                elif k >= 2 and fits_stack(q, prev, FRAME, 8):
                    fail = "mju_dispatch raised an error although a frame record fits"
                elif k < 2:
                    fail = "error from mju_dispatch without thread-lock bracket"
            else:
                toks = r[2:]
                new = []
                if len(toks) != k:
                    fail = "wrong number of task results"
                elif k >= 2:
                    # the blocks live inside the bracket; the record of the bracket's mark sits between them and the rest
                    for t in toks:
                        if t == "null":
                            fail = fail or (None if size == 0 else "NULL for a non-zero stack request")
                        elif t != "error":
                            fail = fail or check_block(q, prev, int(t), size, al, op, new)
                            new.append((int(t), size, "task block"))
                    if not fail and st != prev:
                        fail = "mju_dispatch did not return with the stack pointer it started with: %s -> %s" % (prev, st)
                else:
                    cur = prev
                    for t in toks:       # ntask < 2: plain calls on the main thread, blocks stay
                        if t not in ("null", "error"):
                            fail = fail or check_block(q, cur, int(t), size, al, op, new)
                            new.append((int(t), size, "block"))
                    if not fail and (st[1:] != prev[1:] or st[0] < prev[0]):
                        fail = "mju_dispatch (single task): state %s -> %s" % (prev, st)
                    if not fail:
                        q.frames[-1]["blocks"] += new
        q.state = st
        if fail:
            key = ("c19:size-wrap:%s%s" % ("arena" if op == "arena" else "stack", "-threadlock" if q.locked and op != "arena" else "")
                   if big else "c19:%s:%s" % (op, classify(fail)))
            yield start, i, key, "%s -> %s: %s" % (l, o, fail)
            q.tainted = True


def classify(fail):
    for k, v in (("although", "exhaustion-misreported"), ("overlaps", "overlap"), ("not inside", "out-of-bounds"),
                 ("inside the arena-allocated", "out-of-bounds"),
                 ("aligned", "misaligned"), ("next multiple", "misaligned"), ("restore", "pstack-not-restored"),
                 ("return with the stack pointer", "pstack-not-restored"),
                 ("state changed", "state-changed-on-failure"), ("no-op", "noop-violated"), ("NULL for", "exhaustion-misreported"),
                 ("granted", "reservation"), ("reservation", "reservation")):
        if k in fail:
            return v
    return "other"


def run_oracle(ctx, label, lines, outs, limit=4):
    n = 0
    perkey = {}
    for start, i, key, what in oracle_stream(lines, outs):
        n += 1
        perkey[key] = perkey.get(key, 0) + 1
        if perkey[key] <= limit and len(perkey) <= 12:
            ctx.oracle_failure(key, what, {"stream": label, "ops": lines[start:i + 1 + 3], "impl_outputs": outs[start:i + 1 + 3],
                                           "failing_op_index": i - start,
                                           "replay": "printf '%s\\n' <ops...> | <c19_arena harness>   (offsets are relative to d->arena)"})
    return n


def parh_cmp(a, b):
    if a.startswith("parh") and b.startswith("parh"):
        return a.split("|")[-1] == b.split("|")[-1] and len(a.split()) == len(b.split())
    return a == b


def keyf(line):
    w = line.split()
    return line if len(w) >= 2 and w[0] != "new" else None


# ------------------------------------------------------------------------------------------------ run
def build_streams(rng, tier):
    thorough = tier == "thorough"
    h1, h2, h3 = {}, {}, {}
    seq, lock, wrap, odd = [], [], [], []
    for _ in range(30000 if thorough else 5000):
        seq += gen_seq(rng, h1)
    for _ in range(3000 if thorough else 400):
        lock += gen_lock(rng, h2)
    for _ in range(10000 if thorough else 1500):
        wrap += gen_wrap(rng, h3)
    for _ in range(300 if thorough else 60):
        odd += gen_odd(rng)
        odd += gen_lock(rng, {}, bracketed=False)
    eng = []
    for kind in range(4):
        for fn in ENGINE_FN:
            for rep in range(3 if thorough else 1):
                nth = rng.choice((0, 0, 2)) if kind >= 2 else rng.choice((0, 0, 0, 2))
                # mj_copyData refuses (mju_error) to copy while the stack is in use: no caller frame there
                pre = 0 if fn == "copyData" else rng.choice((0, 40, 1000))
                eng.append("engine %d %s %d %d %d" % (kind, fn, rng.randint(0, 10 ** 6), nth, pre))
    return seq, lock, wrap, odd, eng, (h1, h2, h3)


def wrap_compare(ctx, lines, om, oi):
    """exact correspondence, tolerating one thing: a request violating the no-wrap side condition that the
    implementation *rejects* (error/NULL with the state unchanged) where the unguarded model wraps — i.e. a
    guard added to the code.  The rest of such a sequence is not compared."""
    bad, skip, guarded = [], False, 0
    prev_state = None
    for l, a, b in zip(lines, om, oi):
        if l.startswith("new"):
            skip = False
        if skip:
            continue
        if a != b:
            w = l.split()
            args = [int(x) for x in w[1:] if x.isdigit()]
            res_state = b.split(" | ")
            toks = res_state[0].split()
            toks = toks[1:] if toks[:1] == ["par"] else toks
            if (any(x * {"num": 8, "int": 4}.get(w[0], 1) >= (1 << 62) for x in args) and len(res_state) == 2
                    and toks and all(t in ("error", "null") for t in toks) and res_state[1] == prev_state):
                guarded += 1
                skip = True
            else:
                bad.append({"line": l, "model": a, "impl": b})
                skip = True
        prev_state = b.split(" | ")[1] if " | " in b else ("0 0 - 0 0 0" if b.startswith("new ") else None)
    return bad, guarded


def run(ctx):
    ctx.rule = ("op lines on a real mjData (new/mark/free/lock/unlock/alloc/alloci/arena/num/int/par/parh/dispatch): seeded "
                "sequences of 10-60 ops on arenas of 1 B..256 KiB at varied base addresses, sizes 0..narena+40 concentrated "
                "near exhaustion, alignments 1..4096 and non-powers of two; a case is distinct by its full op line; "
                "non-trivial = an op with arguments")
    ctx.lean_props(THEOREMS)
    drv = ctx.driver("drv_c19")
    impl = ctx.harness("harness/c/c19_arena.c", "c19_arena")
    seq, lock, wrap, odd, eng, hists = build_streams(ctx.rng, ctx.tier)
    ctx.extra["op_histogram_sequential"] = hists[0]
    ctx.extra["op_histogram_threadlock"] = hists[1]
    ctx.extra["huge_request_histogram"] = hists[2]
    if not (drv and impl):
        return
    nfail = 0
    outcomes = {}
    for label, lines in (("sequential", seq), ("thread-lock / dispatch", lock), ("out-of-domain and malformed ops", odd)):
        rc, outs, err = ctx.run_lines([impl], lines)
        ctx.differential("engine_memory.c vs Lean model: " + label, [drv], [impl], lines, keyf=keyf, cmp=parh_cmp)
        if rc != 0 or len(outs) != len(lines):
            ctx.oracle_failure("c19:crash", "allocator harness crashed on the %s stream (rc=%s)" % (label, rc),
                               {"stderr": err[-500:], "last_ops": lines[max(0, len(outs) - 30):len(outs) + 1]})
            nfail += 1
            continue
        if label.startswith("out-of"):
            continue
        nfail += run_oracle(ctx, label, lines, outs)
        for l, o in zip(lines, outs):
            k = l.split()[0] + ":" + o.split()[0]
            outcomes[k] = outcomes.get(k, 0) + 1
        if label == "sequential":
            j = next(i for i, l in enumerate(lines) if l.startswith("alloc") and outs[i].startswith("ptr"))
            ctx.sample({"op": lines[j], "after": lines[max(0, j - 2):j], "model_and_impl_output": outs[j]})
            j = next((i for i, l in enumerate(lines) if l.startswith("alloc") and outs[i].startswith("error")), None)
            if j is not None:
                ctx.sample({"op": lines[j], "model_and_impl_output": outs[j], "state_before": outs[j - 1]})
        else:
            j = next((i for i, l in enumerate(lines) if l.startswith("parh")), None)
            if j is not None:
                ctx.sample({"op": lines[j], "impl_output": outs[j]})
    ctx.extra["outcome_histogram"] = outcomes

    # huge sizes: separate processes, so that a crash is an observation
    rc_m, om, em = ctx.run_lines([drv], wrap)
    rc_i, oi, ei = ctx.run_lines([impl], wrap)
    if rc_m != 0 or len(om) != len(wrap):
        raise common.Infra("model driver failed on the huge-size stream: " + em[-300:])
    if rc_i != 0 or len(oi) != len(wrap):
        ctx.oracle_failure("c19:crash", "allocator harness crashed on a huge request (rc=%s)" % rc_i,
                           {"stderr": ei[-500:], "last_ops": wrap[max(0, len(oi) - 12):len(oi) + 1]})
        ctx.oblige("correspondence huge sizes (%d ops)" % len(wrap), "correspondence", False, "implementation crashed")
        nfail += 1
    else:
        bad, guarded = wrap_compare(ctx, wrap, om, oi)
        for l in wrap:
            ctx.count(l, nontrivial=keyf(l) is not None)
        ctx.oblige("correspondence engine_memory.c vs Lean model: sizes near 2^63..2^64 (%d ops)" % len(wrap), "correspondence",
                   not bad, json.dumps(bad[:5]))
        ctx.disagreements += [dict(b, stream="huge sizes") for b in bad[:50]]
        ctx.extra["huge_requests_rejected_by_a_guard"] = guarded
        nw = run_oracle(ctx, "huge sizes", wrap, oi, limit=3)
        ctx.extra["huge_request_failures"] = nw
        nfail += nw
        j = next((i for i, l in enumerate(wrap) if any(len(x) >= 19 for x in l.split()[1:]) and oi[i].startswith("ptr")), None)
        if j is not None:
            ctx.sample({"op": wrap[j], "model_and_impl_output": oi[j], "note": "request near 2^64 granted (no overflow guard)"})

    # pstack across public engine calls (oracle only)
    rc, outs, err = ctx.run_lines([impl, "engine"], eng)
    if rc != 0 or len(outs) != len(eng):
        ctx.oracle_failure("c19:crash", "engine harness crashed (rc=%s)" % rc, {"stderr": err[-500:], "op": eng[min(len(outs), len(eng) - 1)]})
        nfail += 1
    else:
        ncon = 0
        for l, o in zip(eng, outs):
            ctx.count(l)
            w = o.split()
            if w[1] == "error":
                nfail += 1
                ctx.oracle_failure("c19:engine-error:" + l.split()[2], "mju_error inside a public engine call", {"op": l, "output": o})
            elif w[1] != w[2] or w[3] != "1":
                nfail += 1
                ctx.oracle_failure("c19:pstack-not-restored:" + l.split()[2],
                                   "public engine call returned with pstack %s (entered with %s), pbase %s" % (w[2], w[1], "same" if w[3] == "1" else "changed"),
                                   {"op": l, "output": o, "replay": "echo '%s' | <c19_arena harness> engine" % l})
            else:
                ncon += int(w[4].split("=")[1]) > 0
        ctx.extra["engine_calls_checked"] = len(eng)
        ctx.extra["engine_calls_with_contacts"] = ncon
        ctx.sample({"op": eng[1], "impl_output": outs[1]})
    ctx.extra["oracle_failures"] = nfail

    def directed(c):
        rng = __import__("random").Random(c.seed * 7919 + 19)
        for rnd in range(6):
            lines = []
            h = {}
            for _ in range(4000):
                lines += gen_seq(rng, h) if rnd % 2 == 0 else gen_lock(rng, h)
            rc2, outs2, _ = c.run_lines([impl], lines)
            if rc2 != 0 or len(outs2) != len(lines):
                return {"key": "c19:crash", "what": "allocator harness crashed", "replay": lines[max(0, len(outs2) - 30):len(outs2) + 1]}
            for start, i, key, what in oracle_stream(lines, outs2):
                return {"key": key, "what": what, "replay": {"ops": lines[start:i + 1], "impl_outputs": outs2[start:i + 1]}}
        return None
    ctx.directed_search = directed
    if ctx.tier == "thorough":
        ctx.leanchecker(["MjProof.Props.C19"])
