"""C32  Saved MJCF recompiles to the same model (DESIGN.md §5.C32)."""
import glob
import json
import math
import os
import re
import struct
import sys

from . import common
from . import c37 as schema_docs

sys.path.insert(0, os.path.join(common.VERIF, "harness"))
import build_xml  # noqa: E402

META = {
    "technique": "Lean 4 proof of the default-elision round trip read(write x) = x at the attribute-table level, generic in the "
                 "row table and the scalar arithmetic, instantiated on the tables regenerated from mjcf_read_table.inc / "
                 "mjcf_map.h (checked fresh against mjcf.schema through the tree's own generators) + exact differential "
                 "correspondence of the table writer (which attributes are written, with which values) with the real "
                 "mj_saveXMLString + Lean 4 proof of the inertia-source round trip (which bodies get <inertial>, compiler stage "
                 "discardvisual / inertiafromgeom / inertiagrouprange / saveinertial) with the model compared bitwise (body_mass "
                 "before and after the reload) with the real compiler, writer and reader + save -> parse -> compile -> "
                 "compare-every-array oracle on the real code",
    "text": "PARTIAL (attribute-table level + the inertia-source decision). Model/XmlInertial.lean models the compiler stage that "
            "decides where a body's inertia comes from (mjCBody::Compile / InertiaFromGeom with inertiafromgeom, inertiagrouprange "
            "and the mjEPS selection; mjCModel::IndexAssets(discardvisual): promotion of bodies that lose visual geoms and the "
            "demotion inertiafromgeom true -> auto), the hand-written writer branches that depend on it (mjXWriter::Body writes "
            "<inertial> iff saveinertial or explicit and the setting is not `true`; OneGeom saves the compiled mass_ of a geom with a "
            "mass attribute; mjXWriter::Compiler saves none of the four settings) and the reader side (defaults of the reloaded "
            "<compiler>, <inertial> makes the body explicit). inertial_roundtrip proves, for every mass algebra (IEEE doubles "
            "included), every compiler setting and every list of bodies, that body_mass compiled from the saved text equals the "
            "original for every body satisfying `safe`; unsafe_* show that each of the four excluded classes really loses the mass "
            "(they are recorded findings of the tree, attributed by unsafeClass, proved to be the negation of `safe`); "
            "promotion_needs_demotion shows what the demotion in IndexAssets is for. Tie: on generated documents with explicit "
            "dyadic geom masses the model and the real mj_compile / mj_saveXMLString / reload agree on which bodies get <inertial>, "
            "which geoms are kept, that the four compiler attributes are absent, and BITWISE on body_mass before and after the "
            "reload. Oracle additionally runs compiler-stage documents (all of the above plus settotalmass, fusestatic, "
            "balanceinertia, boundmass/boundinertia, autolimits, alignfree, angle/eulerseq, default classes, referenced visual "
            "geoms) and mjSpec programs with discardvisual / inertiafromgeom through the full array comparison. "
            "Model/XmlArity.lean models the variable-arity branch of mjXWriter::OneTendon (springlength printed with one or two "
            "values depending on the tendon's AND the default class's pair, WriteAttr without trim) and the reader's copy of a "
            "single value; spring_roundtrip proves for every tendon pair and class pair (exact scalars) that the reader returns "
            "the tendon's pair, i.e. the attribute is skipped only if the reloaded value equals the original; "
            "own_pair_only_loses_value shows the class-pair clause is necessary; tied to the real writer on generated "
            "(tendon pair, class pair) combinations. Oracle additionally runs default-coincidence documents: a class tree "
            "main > c1 > c2 with non-degenerate multi-component defaults and elements / nested classes that coincide with the "
            "class value in some components only (all, none, first, last, random mask, shorter vector, single value) for every "
            "multi-component attribute (generated-table rows with len > 1 incl. hand-written ones, springlength, user arrays) of "
            "geom, joint, site, camera, light, pair, material, tendon, general actuator and equality, and single-precision "
            "documents: random float32 values (printed with 9 significant digits; binades where 8 digits do not identify a "
            "float) in every float-typed attribute of visual/*, material, light, geom/site/tendon rgba and the camera, in "
            "default classes and instances, which must reload bitwise at xml precision 17. "
            "Model/XmlDefaults.lean models mjXWriter::WriteAttrTable with WriteAttr/WriteAttrKey "
            "(NaN skip, SameVector elision against the default, trailing-default trim of non-exact rows, keyword lookup) and "
            "mjXReader::ReadAttrTableCore with ReadAttr/MapValue (absent -> keep the default, arity checks, prefix overwrite, "
            "keyword lookup), including the handwrite / nodefault skips. Proved for every row table with distinct attribute "
            "names, every default, every typed object and every scalar structure: the reader never fails on what the writer "
            "produced, and each handled row holds the re-read printed value or a value the writer's closeness test identifies "
            "with the original (read_write_row, read_write_elem); when the closeness test is equality and printing is exact the "
            "element read back is the object (read_write_elem_exact, read_write_eq_self). elision_loses_near_default shows the "
            "exactness hypothesis is necessary. generated_maps_ok / generated_tables_ok / generated_roundtrip instantiate this on "
            "the tables regenerated from the tree on every run. Tie: the model driver and the real writer agree on the attributes "
            "written for elements of the table-driven kinds (default class and instance). Oracle: models from gen/models.py built "
            "through mjSpec, schema-derived MJCF documents (default classes, frames, keyframes, every element kind of the "
            "generator of C37) and the shipped models under model/ go through mj_saveXMLString -> mj_parseXMLString -> mj_compile; "
            "all sizes, all mjOption/mjVisual/mjStatistic fields and EVERY array of MJMODEL_POINTERS are compared: numerically "
            "equal at xml precision 17, within a calibrated tolerance at the default precision 6; the declared defaults of "
            "mjcf_default_table.inc are compared with the constructors.",
    "note": "TRUSTED BASE ADDITION: src/xml is compiled against harness/stubs/tinyxml2 (a minimal re-implementation of the "
            "tinyxml2 DOM API written for this framework, NOT tinyxml2); the XML text layer seen by the reader/writer is the "
            "stand-in's. Apart from the inertia-source decision (Model/XmlInertial.lean: body_mass only; ipos/iquat/inertia follow "
            "the same decision but their arithmetic is not modelled) no theorem covers the hand-written OneX() parts of the "
            "writer, writing=custom rows, the rest of the compiler (fusestatic, settotalmass, boundmass, orientation resolution), "
            "assets, or the text layer: those are sampled by the oracle only. A difference of a compiler-stage document is "
            "attributed to a recorded finding only when the Lean classifier (unsafeClass) says a body of the document is outside "
            "inertial_roundtrip and, for documents with exact masses, the number of changed masses is the predicted one. Meshes/textures/height fields from files, plugins "
            "and src/xml/mjz are outside the generated models (shipped models that need them are skipped and counted). At "
            "precision 6 the comparison is a tolerance test, not equality.",
}

THEOREMS = [
    "MjProof.C32.read_write_row",
    "MjProof.C32.read_write_elem",
    "MjProof.C32.read_write_elem_exact",
    "MjProof.C32.read_write_eq_self",
    "MjProof.C32.keyOK_of_mapOK'",
    "MjProof.C32.elision_loses_near_default",
]
THEOREMS_INERTIAL = [
    "MjProof.C32.inertial_roundtrip",
    "MjProof.C32.written_roundtrip",
    "MjProof.C32.unsafeClass_zero_iff_safe",
    "MjProof.C32.unsafe_ifg_false",
    "MjProof.C32.unsafe_grouprange",
    "MjProof.C32.unsafe_explicit_visual",
    "MjProof.C32.unsafe_explicit_nogeom",
    "MjProof.C32.promotion_needs_demotion",
]
THEOREMS_ARITY = [
    "MjProof.C32.spring_roundtrip",
    "MjProof.C32.own_pair_only_loses_value",
]
THEOREMS_GEN = [
    "MjProof.C32.generated_maps_ok",
    "MjProof.C32.generated_tables_ok",
    "MjProof.C32.generated_tables_fresh",
    "MjProof.C32.generated_roundtrip",
]

GEN_DIR = os.path.join(common.LEAN, "MjProof", "Gen")
NUM = {"kInt", "kDouble", "kNum", "kFloat"}
KEY = {"kEnum", "kEnumByte", "kBool"}
KIND_CODE = {0: "kDouble", 1: "kFloat", 2: "kInt", 3: "byte", 4: "kNum"}

# table-level tie: element kinds whose attributes are written through WriteAttrTable; {A}/{B} = attributes of the
# default-class element / of the instance
PRE = '<mujoco>\n<compiler angle="radian"/>\n'
CONFIGS = {
    "kGeomAttrs": ("geom", "./worldbody/body/geom", '<default><geom {A}/></default>\n<worldbody><body><geom size="0.1" {B}/></body></worldbody>'),
    "kJointAttrs": ("joint", "./worldbody/body/joint", '<default><joint {A}/></default>\n<worldbody><body><joint {B}/><geom size="0.1"/></body></worldbody>'),
    "kSiteAttrs": ("site", "./worldbody/body/site", '<default><site {A}/></default>\n<worldbody><body><site {B}/><geom size="0.1"/></body></worldbody>'),
    "kCameraAttrs": ("camera", "./worldbody/body/camera", '<default><camera {A}/></default>\n<worldbody><body><camera {B}/><geom size="0.1"/></body></worldbody>'),
    "kLightAttrs": ("light", "./worldbody/body/light", '<default><light {A}/></default>\n<worldbody><body><light {B}/><geom size="0.1"/></body></worldbody>'),
    "kPairAttrs": ("pair", "./contact/pair", '<default><pair {A}/></default>\n<worldbody><body><geom name="g1" size="0.1"/></body><body><geom name="g2" size="0.1"/></body></worldbody>\n<contact><pair geom1="g1" geom2="g2" {B}/></contact>'),
    "kMaterialAttrs": ("material", "./asset/material", '<default><material {A}/></default>\n<asset><material name="m" {B}/></asset>'),
    "kGeneralAttrs": ("general", "./actuator/general", '<default><general {A}/></default>\n<worldbody><body><joint name="j"/><geom size="0.1"/></body></worldbody>\n<actuator><general joint="j" {B}/></actuator>'),
    "kOptionAttrs": ("option", "./option", '<option {B}/>'),
}
# attributes whose value the compiler or a hand-written branch rewrites between reading and saving (found by running the tie;
# each is a documented exclusion, not a silent one): the table writer does see them, but not with the value that was read
UNSTABLE = {
    "kLightAttrs": {"dir"},          # normalised by the compiler
}

TINY = 1e-9      # deviations below this (normalised) at precision 17 are number-formatting effects


def bits(x):
    return "x%016x" % struct.unpack("<Q", struct.pack("<d", x))[0]


def f32(x):
    return struct.unpack("<f", struct.pack("<f", x))[0]


def fmt(x):
    return repr(float(x)) if x != int(x) or abs(x) > 1e15 else str(int(x))


# ------------------------------------------------------------------------------------------ table-level tie
def load_tables():
    return json.load(open(os.path.join(GEN_DIR, "McjfDefaults.json")))


def parse_defaults(line):
    """'defaults a.b:off:kind:len:ndecl:unset:declared:actual;...' -> {(struct, offset): dict}"""
    out, entries = {}, []
    for e in line.split(" ", 1)[1].split(";"):
        if not e:
            continue
        f = e.split(":")
        st, attr = f[0].split(".", 1)
        d = {"struct": st, "attr": attr, "offset": int(f[1]), "kind": int(f[2]), "len": int(f[3]), "ndecl": int(f[4]),
             "unset": int(f[5]), "declared": [float(x) for x in f[6].split(",")] if f[6] else [],
             "actual": None if f[7] == "nofactory" else [float(x) for x in f[7].split(",")]}
        out[(st, d["offset"])] = d
        entries.append(d)
    return out, entries


def table_lines(rng, tj, defs, n_per_table):
    maps = tj["maps"]
    tables = {t["name"]: t["rows"] for t in tj["tables"]}
    lines, skipped_tables = [], {}
    for tname, (tag, path, tmpl) in CONFIGS.items():
        rows = tables.get(tname)
        if rows is None:
            skipped_tables[tname] = "table not in mjcf_read_table.inc"
            continue
        dparts, usable, ok = [], [], True
        for r in rows:
            if r["kind"] not in NUM | KEY:
                continue
            d = defs.get((r["struct"], r["offset"]))
            if d is None or d["actual"] is None:
                ok = False
                skipped_tables[tname] = "no constructor default for %s.%s" % (r["struct"], r["field"])
                break
            if r["kind"] in NUM:
                vals = d["actual"][:r["len"]]
                if len(vals) != r["len"]:
                    ok = False
                    skipped_tables[tname] = "default of %s has %d components, row has %d" % (r["attr"], len(vals), r["len"])
                    break
                dparts += [r["attr"], str(len(vals))] + [bits(v) for v in vals]
            else:
                dparts += [r["attr"], "1", "c%d" % int(d["actual"][0])]
            if not r["handwrite"] and r["attr"] not in UNSTABLE.get(tname, ()) and not any(math.isnan(v) for v in d["actual"][:r["len"]]):
                usable.append((r, d))
        if not ok:
            continue
        for _ in range(n_per_table):
            A, B = [], []
            for sect, into, pin in ((0, A, 0.25), (1, B, 0.35)):
                if sect == 0 and "{A}" not in tmpl:
                    continue
                for r, d in usable:
                    if sect == 0 and r["nodefault"]:
                        continue
                    if rng.random() > pin:
                        continue
                    if r["kind"] in KEY:
                        km = maps["bool_map"] if r["kind"] == "kBool" else maps[r["map"]]
                        k = rng.choice(km)[0]
                        into.append((r["attr"], k, ["w" + k]))
                    else:
                        dv = d["actual"][:r["len"]]
                        n = r["len"] if r["exact"] else rng.randint(1, r["len"])
                        vals = []
                        for i in range(n):
                            c = rng.random()
                            if r["kind"] == "kInt":
                                v = dv[i] if c < 0.4 else dv[i] + rng.choice([1, 2])
                            elif c < 0.35:
                                v = dv[i]
                            elif c < 0.45:
                                v = dv[i] + rng.choice([1e-17, 2.5e-16, -1e-16, 1e-13, 1e-9])
                            else:
                                v = abs(dv[i]) + rng.choice([0.125, 0.25, 0.5, 1.0, 2.0, 0.75])
                            if r["kind"] == "kFloat":
                                v = f32(v)
                            vals.append(v)
                        text = " ".join(fmt(v) for v in vals)
                        toks = [bits(f32(float(t)) if r["kind"] == "kFloat" else float(t)) for t in text.split()]
                        into.append((r["attr"], text, toks))
            doc = PRE + tmpl.replace("{A}", " ".join('%s="%s"' % (a, t) for a, t, _ in A)).replace(
                "{B}", " ".join('%s="%s"' % (a, t) for a, t, _ in B)) + "\n</mujoco>\n"
            sa = " ".join("%s %d %s" % (a, len(tk), " ".join(tk)) for a, _, tk in A)
            sb = " ".join("%s %d %s" % (a, len(tk), " ".join(tk)) for a, _, tk in B)
            lines.append(("w %s D %s A %s B %s # %s %s %s" % (tname, " ".join(dparts), sa, sb, tag, path, doc.encode().hex())).replace("  ", " "))
    return lines, skipped_tables


# ------------------------------------------------------------------------------------------ compiler-stage documents
# Documents that exercise what the COMPILER does to the spec before the writer sees it (discardvisual, inertiafromgeom,
# inertiagrouprange, saveinertial, fusestatic, settotalmass, balanceinertia, boundmass/boundinertia, autolimits, alignfree,
# angle/eulerseq) together with the hand-written writer branches that depend on it (<compiler>, <inertial>).  Every
# document carries its description in the vocabulary of Model/XmlInertial.lean (compiler settings, per body: explicit
# inertial, geoms with visual / group / mass); `exact` documents give every geom an explicit dyadic mass, so that the
# model predicts body_mass before and after the reload BITWISE (tie); the others are oracle-only.
DYADIC = (0.25, 0.375, 0.5, 0.75, 1.25, 1.5, 2.0, 3.5)
IFG_WORD = {"false": "no", "true": "yes", "auto": "auto"}


def _dy(rng, lo=-3, hi=3):
    return rng.randint(lo * 4, hi * 4) / 4.0


NEUTRAL = (("balanceinertia", 0.2, "true"), ("boundmass", 0.15, lambda r: fmt(r.choice((0.5, 4.0)))),
           ("boundinertia", 0.15, lambda r: fmt(r.choice((0.01, 0.5)))), ("autolimits", 0.2, "false"),
           ("alignfree", 0.2, "true"), ("angle", 0.5, lambda r: r.choice(("degree", "radian"))),
           ("eulerseq", 0.2, lambda r: r.choice(("zyx", "XYZ", "xyZ", "ZXZ"))), ("usethread", 0.1, "false"),
           ("fitaabb", 0.1, "true"))


def compiler_stage_doc(rng, exact, mode=None):
    """-> dict(xml, op (arguments of the i / c lines of the model driver), features, mode, ...).
    modes: mass      inertiafromgeom / discardvisual / inertiagrouprange / saveinertial (the modelled settings)
           totalmass settotalmass           fuse  fusestatic (+ discardvisual)          plain  none of these
    non-exact documents add the settings of NEUTRAL to every mode"""
    R = rng.random
    comp = {}
    if mode is None:
        mode = "mass" if exact else rng.choice(("mass",) * 13 + ("totalmass",) * 2 + ("fuse",) * 1 + ("plain",) * 4)
    ifg, discard, saveinertial, glo, ghi = None, False, False, 0, 5
    if mode == "mass":
        ifg = rng.choice(("auto", "true", "true", "true", "false")) if R() < 0.75 else None
        discard = R() < 0.55
        saveinertial = R() < 0.08
        if R() < 0.15:
            glo = rng.randint(0, 3)
            ghi = rng.randint(glo, 5)
            comp["inertiagrouprange"] = "%d %d" % (glo, ghi)
    elif mode == "totalmass":
        comp["settotalmass"] = fmt(rng.choice((2.0, 7.5, 12.0)))
    elif mode == "fuse":
        comp["fusestatic"] = "true"
        discard = R() < 0.3
    if ifg is not None:
        comp["inertiafromgeom"] = ifg
    if discard:
        comp["discardvisual"] = "true"
    elif R() < 0.1:
        comp["discardvisual"] = "false"
    if saveinertial:
        comp["saveinertial"] = "true"
    extra = {}
    if not exact:
        for name, p, val in NEUTRAL:
            if R() < p:
                extra[name] = val(rng) if callable(val) else val
        comp.update(extra)
    angle_deg = comp.get("angle", "degree") == "degree"
    nb = rng.randint(1, 4)
    bodies, lines, refs = [], [], []
    gid = [0]
    ifgv = ifg or "auto"

    def geom(b, visual, static):
        gid[0] += 1
        g = {"id": gid[0], "visual": visual, "group": 0, "massattr": False}
        a = ['name="g%d"' % g["id"]]
        if exact:
            a.append('size="0.125"')
        else:
            t = rng.choice(("sphere", "box", "capsule", "cylinder", "ellipsoid"))
            n = {"sphere": 1, "capsule": 2, "cylinder": 2, "box": 3, "ellipsoid": 3}[t]
            a += ['type="%s"' % t, 'size="%s"' % " ".join(fmt(rng.choice((0.0625, 0.125, 0.25))) for _ in range(n))]
        if R() < 0.7:
            a.append('pos="%s"' % " ".join(fmt(_dy(rng, -1, 1)) for _ in range(3)))
        if not exact and R() < 0.4:
            e = [rng.choice((0, 30, 45, 90, -60)) for _ in range(3)]
            a.append('euler="%s"' % " ".join(fmt(x if angle_deg else x / 64.0) for x in e))
        if visual or R() < 0.12:
            # contype = conaffinity = 0; a referenced one (contact pair with the floor) is NOT visual for the compiler
            a.append('contype="0" conaffinity="0"')
            if not visual:
                refs.append(g["id"])
        elif R() < 0.3:
            a.append('contype="%d" conaffinity="%d"' % (rng.choice((1, 2)), rng.choice((1, 3))))
        if R() < 0.25:
            g["group"] = rng.randint(0, 5)
            a.append('group="%d"' % g["group"])
        if exact or R() < 0.4:
            g["m"] = 0.0 if R() < 0.1 else rng.choice(DYADIC)
            g["massattr"] = True
            a.append('mass="%s"' % fmt(g["m"]))
        else:
            d = rng.choice((None, None, 500.0, 2000.0, 0.0))
            g["m"] = 1.0 if d is None or d > 0 else 0.0      # only "heavier than mjEPS" matters for the classification
            if d is not None:
                a.append('density="%s"' % fmt(d))
        if not exact and R() < 0.15:
            a.append('rgba="%s"' % " ".join(fmt(rng.choice((0.25, 0.5, 1.0))) for _ in range(4)))
        b["geoms"].append(g)
        return "<geom %s/>" % " ".join(a)

    def body(i, depth):
        b = {"explicit": R() < 0.35, "emass": 0.0, "geoms": [], "depth": depth}
        bodies.append(b)
        ind = "  " * (depth + 1)
        out = ['%s<body name="b%d" pos="%s">' % (ind, i, " ".join(fmt(_dy(rng, -1, 1)) for _ in range(3)))]
        if b["explicit"]:
            b["emass"] = rng.choice(DYADIC)
            ia = ['pos="%s"' % " ".join(fmt(_dy(rng, -1, 1) / 4) for _ in range(3)), 'mass="%s"' % fmt(b["emass"])]
            if exact or R() < 0.6:
                ia.append('diaginertia="%s"' % " ".join(fmt(x) for x in sorted(rng.choice(((0.5, 0.5, 0.5), (0.25, 0.375, 0.5), (1.0, 1.5, 2.0))), key=lambda _: R())))
            elif extra.get("balanceinertia") and R() < 0.5:
                ia.append('diaginertia="0.125 0.25 2"')       # violates A + B >= C: balanced by the compiler
            else:
                ia.append('fullinertia="0.5 0.75 1 0.125 0 0.0625"')
            out.append("%s  <inertial %s/>" % (ind, " ".join(ia)))
        ng = rng.choice((0, 1, 1, 2, 2, 3))
        kinds = [R() < 0.45 for _ in range(ng)]
        glines = [geom(b, v, False) for v in kinds]
        heavy = [g for g in b["geoms"] if g["m"] > 0 and glo <= g["group"] <= ghi]
        # a moving body needs mass: only give it a joint when the settings leave it one
        if ifgv == "true":
            massive = bool(heavy) or (b["explicit"] and b["emass"] > 0)
        elif ifgv == "auto":
            massive = b["explicit"] or bool(heavy)
        else:
            massive = b["explicit"]
        b["static"] = not (massive and R() < 0.7)
        if not b["static"]:
            jt = "hinge" if exact else rng.choice(("hinge", "slide", "ball", "free" if depth == 0 else "hinge"))
            if jt == "free":
                out.append('%s  <freejoint name="j%d"/>' % (ind, i))
            else:
                ja = ['name="j%d"' % i, 'type="%s"' % jt]
                if not exact and jt in ("hinge", "slide") and R() < 0.4:
                    rg = (-30.0, 45.0) if (jt == "hinge" and angle_deg) else (-0.5, 0.75)
                    ja.append('range="%s %s"' % (fmt(rg[0]), fmt(rg[1])))
                    if extra.get("autolimits") == "false" and R() < 0.7:
                        ja.append('limited="true"')
                out.append("%s  <joint %s/>" % (ind, " ".join(ja)))
        for gl in glines:
            out.append("%s  %s" % (ind, gl))
        if not exact and R() < 0.3:
            out.append('%s  <site name="s%d" pos="%s"/>' % (ind, i, " ".join(fmt(_dy(rng, -1, 1) / 2) for _ in range(3))))
        if not exact and R() < 0.15:
            out.append('%s  <camera name="c%d" pos="0 0 0.5"/>' % (ind, i))
        return b, out, ind

    # body tree in document (depth-first) order, which is also the naming order b1..bn and the order of the op line
    counter = [0]
    fanout = [rng.choice((0, 1, 1, 2)) for _ in range(nb)]

    def emit(depth):
        counter[0] += 1
        b, out, ind = body(counter[0], depth)
        for _ in range(fanout.pop(0) if fanout else 0):
            if counter[0] < nb:
                out += emit(depth + 1)
        out.append("%s</body>" % ind)
        return out
    wb = []
    while counter[0] < nb:
        wb += emit(0)
    head = ["<mujoco>", "  <compiler %s/>" % " ".join('%s="%s"' % kv for kv in comp.items())]
    if not exact and R() < 0.3:
        head.append('  <default><geom density="%s"/><default class="vis"><geom contype="0" conaffinity="0"/></default></default>'
                    % fmt(rng.choice((750.0, 1000.0, 1250.0))))
    doc = head + ["  <worldbody>", '    <geom name="floor" type="plane" size="2 2 0.125"/>'] + wb + ["  </worldbody>"]
    if refs:
        doc.append("  <contact>%s</contact>" % "".join('<pair geom1="floor" geom2="g%d"/>' % g for g in refs))
    moving = [i + 1 for i, b in enumerate(bodies) if not b["static"]]
    if not exact and moving and R() < 0.3:
        doc.append('  <keyframe><key name="k" time="0.5"/></keyframe>')
    doc.append("</mujoco>")
    op = "%s %d %d %d %d" % (IFG_WORD[ifgv], discard, saveinertial, glo, ghi)
    for b in bodies:
        op += " B %d %s" % (b["explicit"], bits(b["emass"]))
        for g in b["geoms"]:
            op += " G %d %d %d %s %d" % (g["id"], g["visual"], g["group"], bits(g["m"]), g["massattr"])
    feats = sorted(k for k in comp if not (k == "angle")) or ["none"]
    return {"xml": "\n".join(doc) + "\n", "op": op, "features": feats, "exact": exact, "compiler": comp, "mode": mode,
            "nbody": len(bodies), "fusable_explicit": any(b["static"] and b["explicit"] and b["depth"] > 0 for b in bodies),
            "fusable": any(b["static"] for b in bodies)}


# ------------------------------------------------------------------------------------------ default-coincidence documents
# Documents for the writer branches that compare an element's value with its DEFAULT CLASS's value and skip (or trim)
# on equality: a tree of default classes (main > c1 > c2) with non-degenerate multi-component defaults, and elements /
# nested classes whose vectors coincide with the class value in SOME components only (all / none / first only / last
# only / random mask / a shorter vector / a single value for the 1|2-valued springlength), for every element kind that
# has such attributes (rows with len > 1 of the generated tables, hand-written ones included, plus springlength and the
# user arrays).  Oracle: the round trip of every compiled array.
def _vpool(attr, n):
    """three vectors of length n for attribute `attr`; every component-wise mix of them is a valid value"""
    if attr in ("range", "ctrlrange", "forcerange", "actrange", "actuatorfrcrange", "lengthrange", "velrange", "ffrange"):
        return [(-0.5, 0.75), (-0.25, 1.5), (-0.125, 0.5)]
    if attr == "springlength":
        return [(0.25, 0.75), (0.375, 1.25), (0.125, 0.5)]
    if attr.startswith("solimp"):
        return [(0.5, 0.875, 0.25, 0.5, 2.0), (0.625, 0.9375, 0.5, 0.25, 3.0), (0.75, 0.96875, 0.125, 0.75, 1.0)]
    if attr.startswith("solref"):
        return [(0.25, 0.5), (0.125, 1.5), (0.0625, 1.0)]
    if attr in ("axis", "dir"):
        return [(0.0, 0.6, 0.8), (0.6, 0.0, 0.5), (0.3, 0.3, 1.0)]
    if attr in ("rgba", "ambient", "diffuse", "specular", "attenuation"):
        return [(0.25, 0.5, 0.75, 1.0)[:n], (0.5, 0.25, 0.125, 0.5)[:n], (0.75, 1.0, 0.25, 0.25)[:n]]
    if attr == "resolution":
        return [(4, 6), (8, 10), (12, 2)]
    if attr == "pos":
        return [(0.25, -0.5, 0.125), (0.5, 0.25, -0.25), (-0.125, 0.125, 0.375)]
    if attr == "user":
        return [(1.0, 2.0, 3.0), (4.0, 5.0, 6.0), (7.0, 8.0, 9.0)]
    base = [0.25, 0.125, 0.375, 0.0625, 0.5, 0.1875, 0.3125, 0.4375, 0.75, 0.625]
    return [tuple(base[i % 10] for i in range(n)), tuple(base[i % 10] + 0.5 for i in range(n)),
            tuple(base[(i + 3) % 10] + 1.0 for i in range(n))]


DC_KINDS = {   # element kind -> (table, attributes left out: semantics beyond "a vector with a default")
    "geom": ("kGeomAttrs", {"fromto", "pos", "surfacevel"}), "joint": ("kJointAttrs", {"springdamper", "pos"}),
    "site": ("kSiteAttrs", {"fromto", "pos"}), "camera": ("kCameraAttrs", {"focalpixel", "principalpixel", "pos"}),
    "light": ("kLightAttrs", {"pos"}), "pair": ("kPairAttrs", set()), "material": ("kMaterialAttrs", set()),
    "tendon": ("kSpatialAttrs", {"actuatorfrcrange", "rgba"}), "general": ("kGeneralAttrs", {"lengthrange"}),
    "equality": ("kEqualityBaseAttrs", set()),
}
DC_USER = {"geom": "nuser_geom", "joint": "nuser_jnt", "site": "nuser_site", "camera": "nuser_cam", "tendon": "nuser_tendon",
           "general": "nuser_actuator"}


def default_coincidence_doc(rng, tj):
    R = rng.random
    tables = {t["name"]: t["rows"] for t in tj["tables"]}
    attrs = {}
    for kind, (tname, skip) in DC_KINDS.items():
        rows = [(r["attr"], r["len"], r["exact"], r["kind"] == "kInt") for r in tables.get(tname, [])
                if r["kind"] in NUM and r["len"] > 1 and r["attr"] not in skip and not r["nodefault"]]
        if kind == "tendon":
            rows.append(("springlength", 2, False, False))
        if kind in DC_USER:
            rows.append(("user", 3, False, False))
        attrs[kind] = rows
    hist = {}

    def pick(kind, attr, n, exact, isint, parent):
        """-> (text, effective vector or None).  parent: effective vector of the class the value is compared with"""
        pool = _vpool(attr, n)
        pats = ["all", "none", "first", "last", "rand"] + ([] if exact else ["short"]) + (["single"] * 2 if attr == "springlength" else [])
        pat = rng.choice(pats)
        if parent is None and pat != "short":
            pat = "fresh"
        hist[pat] = hist.get(pat, 0) + 1
        if attr == "springlength" and pat == "single":
            v = rng.choice([parent[0], parent[1], rng.choice(pool)[0]]) if parent else rng.choice(pool)[0]
            return fmt(v), (v, v)

        def other(i, cur):
            return rng.choice([p[i] for p in pool if p[i] != cur] or [cur])
        if pat == "fresh":
            v = list(rng.choice(pool))
        else:
            base = parent if parent is not None else rng.choice(pool)
            k = rng.randint(1, n - 1) if pat == "short" else n
            mask = {"all": [True] * n, "none": [False] * n, "first": [True] + [False] * (n - 1), "last": [False] * (n - 1) + [True],
                    "rand": [R() < 0.5 for _ in range(n)], "short": [R() < 0.5 for _ in range(n)]}[pat]
            v = [base[i] if mask[i] else other(i, base[i]) for i in range(k)]
            if k < n:
                eff = tuple(v) + tuple(parent[k:]) if parent is not None else None
                return " ".join(fmt(x) for x in v), eff
        return " ".join(str(int(x)) if isint else fmt(x) for x in v), tuple(v)

    def attrtext(kind, cls_eff, p_attr, force=()):
        """attributes of one element (or class entry) of `kind` compared with the effective values cls_eff; -> text, new eff"""
        out, eff = [], dict(cls_eff)
        for attr, n, exact, isint in attrs[kind]:
            if R() > p_attr and attr not in force:
                continue
            t, e = pick(kind, attr, n, exact, isint, cls_eff.get(attr))
            out.append('%s="%s"' % (attr, t))
            eff[attr] = e
        return " ".join(out), eff
    tags = {"tendon": "tendon", "general": "general"}
    eff = {"main": {}, "c1": {}, "c2": {}}
    dlines = {"main": [], "c1": [], "c2": []}
    for cls, par, p in (("main", None, 0.8), ("c1", "main", 0.6), ("c2", "c1", 0.6)):
        for kind in DC_KINDS:
            pe = eff[par][kind] if par else {}
            if par is None or R() < 0.8:
                # the top class makes every element valid by itself: box geoms/sites (all three size components are used),
                # positive sizes, a sensor size for the cameras, a dyntype for the actuators
                t, e = attrtext(kind, pe, p, force=("size", "sensorsize") if par is None else ())
                extra = ' type="box"' if kind in ("geom", "site") and par is None else \
                    ' dyntype="filter"' if kind == "general" and par is None else ""
                dlines[cls].append("<%s%s %s/>" % (tags.get(kind, kind), extra, t))
                eff[cls][kind] = e
            else:
                eff[cls][kind] = dict(pe)

    def el(kind, head, tail="/>"):
        cls = rng.choice(("main", "c1", "c2", "c2", "c1"))
        t, _ = attrtext(kind, eff[cls][kind], 0.5)
        return "<%s class=\"%s\" %s" % (head, cls, t) + tail
    L = ["<mujoco>", '  <compiler angle="radian"/>',
         "  <size %s/>" % " ".join('%s="3"' % v for v in DC_USER.values()),
         "  <default>"] + ["    " + x for x in dlines["main"]] + ['    <default class="c1">'] + ["      " + x for x in dlines["c1"]] + \
        ['      <default class="c2">'] + ["        " + x for x in dlines["c2"]] + ["      </default>", "    </default>", "  </default>",
                                                                                   "  <asset>", "    " + el("material", 'material name="m1"'),
                                                                                   "    " + el("material", 'material name="m2"'), "  </asset>", "  <worldbody>"]
    for b, pos in (("1", "0 0 1"), ("2", "1 0 1"), ("3", "0 1 1")):
        L.append('    <body name="b%s" pos="%s">' % (b, pos))
        L.append("      " + el("joint", 'joint name="j%s" type="%s"' % (b, rng.choice(("hinge", "slide")))))
        L.append("      " + el("geom", 'geom name="g%s"' % b))
        L.append("      " + el("site", 'site name="s%s"' % b))
        if R() < 0.6:
            L.append("      " + el("camera", 'camera name="c%s"' % b))
        if R() < 0.6:
            L.append("      " + el("light", 'light name="l%s"' % b))
        L.append("    </body>")
    L += ["  </worldbody>", "  <contact>", "    " + el("pair", 'pair geom1="g1" geom2="g2"'), "    " + el("pair", 'pair geom1="g1" geom2="g3"'), "  </contact>",
          "  <tendon>", "    " + el("tendon", 'spatial name="t1"', '><site site="s1"/><site site="s2"/></spatial>'),
          "    " + el("tendon", 'spatial name="t2"', '><site site="s2"/><site site="s3"/></spatial>'),
          "    " + el("tendon", 'fixed name="t3"', '><joint joint="j1" coef="1"/><joint joint="j2" coef="-0.5"/></fixed>'), "  </tendon>",
          "  <equality>", "    " + el("equality", 'joint joint1="j1" joint2="j3"'), "    " + el("equality", 'weld body1="b1" body2="b2"'), "  </equality>",
          "  <actuator>", "    " + el("general", 'general name="a1" joint="j1"'), "    " + el("general", 'general name="a2" tendon="t1"'),
          "    " + el("general", 'general name="a3" joint="j3"'), "  </actuator>", "</mujoco>"]
    return {"xml": "\n".join(L) + "\n", "patterns": hist}


# ------------------------------------------------------------------------------------------ single-precision documents
# Documents whose FLOAT-typed (single-precision) attributes -- every kFloat row of the generated tables that can be put in
# a mesh-free document (visual/global|headlight|map|scale|rgba, material, geom/site/tendon rgba, light; default class and
# instance) plus the hand-written float attributes of the camera -- hold random float32 values printed with the 9
# significant digits a float needs.  A full-precision save has to print enough digits for THEM to reload bitwise; the
# other generators only use short decimals / dyadic values, which survive any precision.  Value ranges: binades where 8
# significant digits do not identify a float ([0.1,0.125), [10,16), [100,128)), uniform ones, and a raw random mantissa.
FP_TABLES = (("kGlobalAttrs", "visual", "global"), ("kHeadlightAttrs", "visual", "headlight"), ("kMapAttrs", "visual", "map"),
             ("kScaleAttrs", "visual", "scale"), ("kRgbaAttrs", "visual", "rgba"), ("kMaterialAttrs", "elem", "material"),
             ("kGeomAttrs", "elem", "geom"), ("kSiteAttrs", "elem", "site"), ("kLightAttrs", "elem", "light"),
             ("kSpatialAttrs", "elem", "tendon"))
FP_UNIT = {"rgba", "ambient", "diffuse", "specular", "emission", "shininess", "reflectance", "metallic", "roughness", "glow",
           "haze", "alpha", "softness"}      # colour-like: keep in [0, 1)


def _rand_f32(rng, unit, hist):
    c = rng.random()
    if c < 0.4:
        k, v = "[0.1,0.125)", rng.uniform(0.1, 0.125)
    elif c < 0.55 and not unit:
        k, v = "[10,16)", rng.uniform(10.0, 16.0)
    elif c < 0.65 and not unit:
        k, v = "[100,128)", rng.uniform(100.0, 128.0)
    elif c < 0.85:
        k, v = "uniform[0.03125,1)", rng.uniform(0.03125, 1.0)
    else:
        # random 23-bit mantissa in a random binade of [2^-5, 1) (unit) or [2^-5, 2^7)
        k = "random mantissa"
        e = rng.randint(122, 126 if unit else 133)
        v = struct.unpack("<f", struct.pack("<I", (e << 23) | rng.getrandbits(23)))[0]
    v = f32(v)
    if unit and v >= 1.0:
        v = f32(0.99999994)
    hist[k] = hist.get(k, 0) + 1
    t = "%.9g" % v
    assert f32(float(t)) == v
    if f32(float("%.8g" % v)) != v:
        hist["values that need all 9 digits"] = hist.get("values that need all 9 digits", 0) + 1
    hist["values"] = hist.get("values", 0) + 1
    return t


def float_precision_doc(rng, tj, hist):
    R = rng.random
    tables = {t["name"]: t["rows"] for t in tj["tables"]}

    def attrs(tname, p, default=False):
        out = []
        for r in tables.get(tname, []):
            if r["kind"] != "kFloat" or r["handwrite"] or (default and r["nodefault"]) or R() > p:
                continue
            out.append('%s="%s"' % (r["attr"], " ".join(_rand_f32(rng, r["attr"] in FP_UNIT or tname == "kRgbaAttrs", hist)
                                                       for _ in range(r["len"]))))
        return " ".join(out)
    L = ["<mujoco>"]
    vis = []
    for tname, where, tag in FP_TABLES:
        if where == "visual" and R() < 0.7:
            a = attrs(tname, 0.5)
            if a:
                vis.append("    <%s %s/>" % (tag, a))
    if vis:
        L += ["  <visual>"] + vis + ["  </visual>"]
    if R() < 0.6:
        L.append("  <default>")
        for tname, where, tag in FP_TABLES:
            if where == "elem" and R() < 0.6:
                a = attrs(tname, 0.5, default=True)
                if a:
                    L.append("    <%s %s/>" % (tag, a))
        L.append("  </default>")
    L += ["  <asset>", '    <material name="m1" %s/>' % attrs("kMaterialAttrs", 0.6),
          '    <material name="m2" %s/>' % attrs("kMaterialAttrs", 0.3), "  </asset>", "  <worldbody>",
          "    <light %s/>" % attrs("kLightAttrs", 0.5)]
    for b, pos in (("1", "0 0 1"), ("2", "1 0 1")):
        L.append('    <body name="b%s" pos="%s">' % (b, pos))
        L.append('      <joint name="j%s"/>' % b)
        L.append('      <geom name="g%s" size="0.125"%s %s/>' % (b, rng.choice(("", ' material="m1"', ' material="m2"')), attrs("kGeomAttrs", 0.7)))
        L.append('      <site name="s%s" %s/>' % (b, attrs("kSiteAttrs", 0.7)))
        if R() < 0.5:
            L.append("      <light %s/>" % attrs("kLightAttrs", 0.4))
        if R() < 0.4:
            # hand-written float attributes of the camera
            L.append('      <camera name="c%s" resolution="64 48" sensorsize="%s %s" focal="%s %s"/>'
                     % ((b,) + tuple(_rand_f32(rng, True, hist) for _ in range(4))))
        L.append("    </body>")
    L += ["  </worldbody>", "  <tendon>", '    <spatial name="t1" %s><site site="s1"/><site site="s2"/></spatial>' % attrs("kSpatialAttrs", 0.8),
          "  </tendon>", "</mujoco>"]
    return "\n".join(L) + "\n"


# ------------------------------------------------------------------------------------------ round-trip oracle
def classify(fields):
    """fields: list of (name, count, first, a, b) of a diff line"""
    names = sorted(f[0] for f in fields)
    if names == ["eq_objtype"]:
        return "c32:eq_objtype-of-joint-or-tendon-equality-not-saved"
    return None


KEY_SIZE = ("c32:unused-size-components-not-saved", "the writer prints only the size components the geom/site type uses "
            "(mjGEOMINFO[type]); the remaining components given in the original (e.g. <site size=\"0.5 2\"/> of a sphere) are in "
            "site_size / geom_size of the original model and are the default in the model compiled from the saved text")
KEY_FRAME_IPOS = ("c32:massless-body-in-frame-ipos-not-composed", "a body without mass inside a <frame>: mjCBody::Compile copies "
                  "the body's pos/quat into ipos/iquat BEFORE composing the frame, so body_ipos holds the pos written in the "
                  "document; the saved text has the composed pos and the reloaded body_ipos differs (stat.center/extent follow)")


KEY_FOCALPIXEL = ("c32:default-class-camera-focalpixel-not-saved", "<default><camera focalpixel=\"0.1 1.5\"/></default> is not "
                  "written by the default-class writer; a camera that gives focal + sensorsize takes focalpixel (which has "
                  "priority in mjCCamera::Compile) from the class in the original and its own focal after the reload "
                  "(cam_intrinsic, cam_fovy differ)")
SIZE_FIELDS = ("site_size", "geom_size")


def classify_small(m, fl):
    names = {f[0] for f in fl}
    if names and names <= set(SIZE_FIELDS):
        return KEY_SIZE
    txt = m.get("xml") or ""
    if names and names <= {"cam_fovy", "cam_intrinsic", "cam_sensorsize", "cam_resolution"} and "focalpixel" in txt and "<default" in txt:
        return KEY_FOCALPIXEL
    if names and "body_ipos" in names | {"body_iquat"} and "<frame" in txt and \
            names <= {"body_ipos", "body_iquat", "body_sameframe", "body_simple", "stat.extent", "stat.center", "stat.meansize"}:
        return KEY_FRAME_IPOS
    return None


MASS_KEYS = {
    1: ("c32:inertiafromgeom-false-not-saved", "<compiler inertiafromgeom=\"false\"> is not written by mjXWriter::Compiler: a body "
        "without <inertial> has mass 0 in the original and the mass of its geoms in the model compiled from the saved text"),
    2: ("c32:inertiagrouprange-not-saved", "<compiler inertiagrouprange> is not written: geoms outside the range (specified by "
        "density) do not count in the original body inertia and count after the reload"),
    3: ("c32:inertiafromgeom-true-discardvisual-explicit-body-loses-visual-geoms", "inertiafromgeom=\"true\" + discardvisual: a body "
        "WITH <inertial> whose visual geoms are discarded is not promoted by IndexAssets (it skips explicit bodies) and the "
        "setting stays `true`, so its <inertial> is not written; the reloaded body lacks the discarded geoms' mass"),
    4: ("c32:inertiafromgeom-true-explicit-body-without-massive-geoms-loses-inertial", "inertiafromgeom=\"true\": a body with "
        "<inertial> and no geom heavier than mjEPS keeps its explicit inertia (InertiaFromGeom selects nothing), the writer "
        "drops <inertial> because the setting is `true`; the reloaded body has mass 0 (a moving one no longer compiles)"),
}
KEY_TOTALMASS = ("c32:settotalmass-not-saved", "<compiler settotalmass> rescales every body mass/inertia after compilation "
                 "(mj_setTotalmass) but the writer saves neither the setting nor the scaled inertias of bodies whose inertia "
                 "comes from geoms: the reloaded model has the unscaled masses")
KEY_FUSE = ("c32:fusestatic-model-not-reproduced-by-saved-text", "with fusestatic a static child body is merged into its parent "
            "after compilation; the compiled model then differs from the model compiled from the saved (already fused) text: "
            "nbvh/nbvhstatic/bvh_nodeid keep the count of the fused body's BVH, the parent inertia accumulated by "
            "AccumulateInertia differs from InertiaFromGeom over the merged geoms (1e-8 relative), and the explicit <inertial> "
            "of a fused child is lost (the parent is not marked explicit)")


def origin_compiler(m):
    """compiler settings of an origin, from its MJCF text (schema-derived / shipped / directed documents) or its generator record"""
    if "compiler" in m:
        return m["compiler"]
    txt = m.get("xml")
    if txt is None and m.get("file"):
        try:
            txt = open(os.path.join(common.REPO, m["file"]), errors="replace").read()
        except OSError:
            txt = ""
    out = {}
    for t in re.findall(r"<compiler\b([^>]*)>", txt or ""):
        out.update(dict(re.findall(r'([A-Za-z_]+)\s*=\s*"([^"]*)"', t)))
    return out


def classify_compiler_stage(m, fl, stage_msg):
    """attribute a difference to one of the recorded compiler-stage findings, or None.  m: meta of the origin;
    fl: differing fields (empty for a reload failure); stage_msg: message of a failed reload"""
    names = {f[0] for f in fl}
    # the inertia SOURCE of a body changed: mass, inertia and the inertial frame all follow it (boundmass / boundinertia can
    # hide the first two)
    mass_diff = bool(names & {"body_mass", "body_inertia", "body_ipos", "body_iquat"}) or \
        "moving bodies must be larger" in (stage_msg or "")
    comp = origin_compiler(m)
    if comp.get("fusestatic") == "true" and m.get("fusable", True):
        return KEY_FUSE
    if not mass_diff:
        return None
    try:
        if float(comp.get("settotalmass", "-1")) > 0:
            return KEY_TOTALMASS
    except ValueError:
        pass
    classes = m.get("classes")
    if classes is not None:
        # generated compiler-stage document: the Lean model (unsafeClass, proved to be the negation of `safe`) says which
        # bodies are outside inertial_roundtrip; the number of bodies whose mass differs must be explained by them
        bad = [k for k in classes if k]
        if not bad:
            return None
        nm = sum(int(f[1]) for f in fl if f[0] == "body_mass")
        pred = m.get("predicted_mass_changes")
        if pred is not None:
            # exact document: the model predicts bitwise which masses change (a failed reload hides the count)
            if pred == 0 or (fl and nm != pred):
                return None
        elif nm > len(bad):
            return None
        return MASS_KEYS[min(bad)]
    # other origins (schema-derived, shipped): by setting only
    if comp.get("inertiafromgeom") == "false":
        return MASS_KEYS[1]
    if "inertiagrouprange" in comp and comp["inertiagrouprange"].split() != ["0", "5"]:
        return MASS_KEYS[2]
    if comp.get("inertiafromgeom") == "true" and re.search(r"<inertial\b", m.get("xml", "") or ""):
        return MASS_KEYS[3] if comp.get("discardvisual") == "true" else MASS_KEYS[4]
    return None


def parse_result(o):
    w = o.split(" ")
    r = {"id": w[0], "status": w[1] if len(w) > 1 else "?"}
    for x in w[2:]:
        if "=" in x:
            k, v = x.split("=", 1)
            r[k] = v
    mm = re.search(r" msg=(.*?)(?: xml=[0-9a-f]*)?$", o)
    r["fullmsg"] = mm.group(1) if mm else ""
    if r["status"] == "diff":
        r["fieldlist"] = [tuple(f.split(":")) for f in r.get("fields", "").split(",") if f]
    return r


def _run(ctx):
    rng = ctx.rng
    thorough = ctx.tier == "thorough"
    ctx.rule = ("table writer (model) == real writer on the attributes written; inertia-source model == real compiler + writer + "
                "reader (<inertial> written, geoms kept, compiler attributes absent, body_mass before/after the reload bitwise); "
                "save -> parse -> compile reproduces every size, "
                "option/visual/statistic field and every mjModel array: numerically equal at xml precision 17 (deviations below "
                "%g are attributed to number formatting and reported under one key), within tolerance at precision 6" % TINY)
    ctx.assumptions.append("harness/stubs/tinyxml2 (a stand-in written for this framework, NOT tinyxml2) is the XML text layer under "
                           "the real reader/writer; harness/build_xml.py builds src/xml against it (src/xml/mjz left out)")

    # ---- translator
    r = common.sh([sys.executable, os.path.join(common.VERIF, "translate", "c32_tables.py")])
    tj = {}
    try:
        tj = load_tables()
    except Exception:
        pass
    ctx.oblige("translate mjcf_read_table.inc / mjcf_map.h / mjcf_default_table.inc -> Gen/McjfDefaults.lean", "translator",
               r.returncode == 0 and "tables" in tj, (r.stdout + r.stderr)[-600:] + str(tj.get("refused", "")))
    for f, ok in sorted(tj.get("fresh", {}).items()):
        ctx.oblige("%s is what the tree's generator produces from mjcf.schema" % f, "translator", ok, "")
    ctx.extra["tables"] = {"tables": len(tj.get("tables", [])), "rows": sum(len(t["rows"]) for t in tj.get("tables", [])),
                           "writer_tables": tj.get("writer_tables"), "maps": len(tj.get("maps", {}))}

    ctx.lean_props(THEOREMS + THEOREMS_INERTIAL + THEOREMS_ARITY,
                   extra_modules=["MjProof.Props.C32Inertial", "MjProof.Props.C32Arity"])
    ctx.lean_props(THEOREMS_GEN, module="MjProof.Props.C32Gen")
    with open(os.path.join(common.LEAN, "Audit", "C32.lean"), "w") as f:
        f.write("import MjProof.Props.C32\nimport MjProof.Props.C32Gen\nimport MjProof.Props.C32Inertial\nimport MjProof.Props.C32Arity\n" +
                "".join("#print axioms %s\n" % t for t in THEOREMS + THEOREMS_GEN + THEOREMS_INERTIAL + THEOREMS_ARITY))

    drv = ctx.driver("drv_c32")
    try:
        impl = build_xml.build_harness(os.path.join(common.VERIF, "harness/cc/c32_roundtrip.cc"), "c32_roundtrip",
                                       deps=[os.path.join(common.VERIF, "harness/mjbuild.h")])
    except RuntimeError as e:
        ctx.oblige("build src/xml + harness/cc/c32_roundtrip.cc", "impl-build", False, str(e))
        impl = None
    if not drv or not impl or "tables" not in tj:
        return

    # ---- declared defaults vs constructors (what test/xml/schema_defaults_test.cc checks; not run by the pinned suite)
    _, out, _ = ctx.run_lines([impl], ["defaults"])
    defs, entries = parse_defaults(out[0]) if out and out[0].startswith("defaults ") else ({}, [])
    nbad = 0
    for d in entries:
        if d["actual"] is None:
            ctx.oracle_failure("c32:default-table-struct-without-constructor:" + d["struct"], "no constructor for " + d["struct"], d)
            continue
        for j in range(d["len"]):
            exp = d["declared"][j] if j < d["ndecl"] and j < len(d["declared"]) else 0.0
            act = d["actual"][j]
            if d["unset"] and j == 0:
                good = math.isnan(act)
            else:
                good = act == (f32(exp) if d["kind"] == 1 else exp)
            ctx.count(("default", d["struct"], d["attr"], j))
            if not good:
                nbad += 1
                ctx.oracle_failure("c32:declared-default-differs-from-constructor:%s.%s" % (d["struct"], d["attr"]),
                                   "mjcf.schema declares default %r for %s.%s[%d] but a freshly constructed object holds %r"
                                   % (exp, d["struct"], d["attr"], j, act), d)
    ctx.extra["declared_defaults"] = {"entries": len(entries), "mismatches": nbad}

    # ---- table-level tie
    wrapper = ["/venv/bin/python", os.path.join(common.VERIF, "harness/py/c32_saved_attrs.py"), impl,
               os.path.join(GEN_DIR, "McjfDefaults.json")]
    lines, skipped = table_lines(rng, tj, defs, 120 if thorough else 14)
    ctx.extra["tie_tables"] = {"covered": sorted(set(CONFIGS) - set(skipped)), "not_covered": skipped,
                               "excluded_attributes": {k: sorted(v) for k, v in UNSTABLE.items()}}
    nskip = [0]

    def cmp(a, b):
        if b.startswith("err skip"):
            nskip[0] += 1
            return True
        return a == b
    if lines:
        ctx.differential("WriteAttrTable (model) vs attributes in the text saved by mj_saveXMLString", [drv], wrapper, lines,
                         keyf=lambda l: l.split(" # ")[0].split(" D ")[0] + l.split(" A ")[1].split(" # ")[0], cmp=cmp)
        ctx.oblige("at least 70%% of the table-tie documents compile (%d of %d do not)" % (nskip[0], len(lines)),
                   "generator-coverage", nskip[0] * 10 <= len(lines) * 3, "")
        ctx.sample({"tie_op": lines[0].split(" # ")[0][:300]})

    # ---- round-trip oracle
    from gen.models import ModelGen
    from gen.enums import E
    ops17, ops6, meta = [], [], {}
    nmodel = 400 if thorough else 30
    for i in range(nmodel):
        mdl = ModelGen(rng, {}).make()
        oid = "g%d" % i
        meta[oid] = {"origin": "gen/models.py via mjSpec", "description": mdl.lines}
        blk = ["model " + oid] + mdl.lines + ["end"]
        ops17 += blk
        if i % 2 == 0:
            ops6 += blk
    # schema-derived MJCF documents (the generator of C37): those that compile are round-trip origins
    try:
        mod, schema = schema_docs.load_schema()
        g = schema_docs.Grammar(mod, schema)
        ndoc = 600 if thorough else 60
        for i in range(ndoc):
            root = schema_docs.DocGen(rng, g, rng.choice([15, 40, 80])).document()
            txt = schema_docs.render(root)
            oid = "x%d" % i
            meta[oid] = {"origin": "schema-derived MJCF", "xml": txt}
            ops17.append("xml %s %s" % (oid, txt.encode().hex()))
            if i % 2 == 0:
                ops6.append("xml %s %s" % (oid, txt.encode().hex()))
    except Exception as e:
        ctx.oblige("schema-derived documents", "generator-coverage", False, repr(e))
    # ---- everything below draws from ctx.rng AFTER the generators above, so that their sample for a given seed is unchanged
    # compiler-stage documents: tie of the inertia-source model + origins of the oracle
    n_exact, n_rich = (700, 900) if thorough else (60, 70)
    cdocs = [compiler_stage_doc(rng, True) for _ in range(n_exact)] + [compiler_stage_doc(rng, False) for _ in range(n_rich)]
    _, cls_out, _ = ctx.run_lines([drv], ["c " + d["op"] for d in cdocs])
    _, pred_out, _ = ctx.run_lines([drv], ["i " + d["op"] for d in cdocs])
    if len(cls_out) != len(cdocs) or len(pred_out) != len(cdocs):
        raise common.Infra("model driver answered %d / %d lines for %d inertia ops" % (len(cls_out), len(pred_out), len(cdocs)))
    for d, co, po in zip(cdocs, cls_out, pred_out):
        w = co.split(" ")
        if w[0] != "ok" or len(w) != d["nbody"] + 1 or not po.startswith("ok C - "):
            raise common.Infra("model driver rejected a generated inertia op: %s / %s" % (co, po[:80]))
        d["classes"] = [int(x) for x in w[1:]]
        if d["exact"]:
            d["predicted_mass_changes"] = sum(1 for b in po.split(" B ")[1:] if b.split(":")[2] != b.split(":")[3])
    ilines = ["i %s # %s" % (d["op"], d["xml"].encode().hex()) for d in cdocs if d["exact"]]
    iskip = [0]

    def cmp_i(a, b):
        if b.startswith("err skip"):
            iskip[0] += 1
            return True
        if ":fail" not in b:
            return a == b
        # the saved text does not compile (reported by the oracle): everything but the reloaded masses must agree, and the
        # model must predict a body that lost its mass
        pa, pb = a.split(" B "), b.split(" B ")
        return len(pa) == len(pb) and pa[0] == pb[0] and all(x.rsplit(":", 1)[0] == y.rsplit(":", 1)[0] for x, y in zip(pa[1:], pb[1:])) \
            and any(x.endswith(":x0000000000000000") and ":x0000000000000000:" not in x for x in pa[1:])
    ctx.differential("inertia-source model (which bodies get <inertial>, which geoms are kept, compiler attributes not saved, "
                     "body_mass before and after the reload, bitwise) vs mj_compile / mj_saveXMLString / reload",
                     [drv], wrapper, ilines, keyf=lambda l: l.split(" # ")[0], cmp=cmp_i)
    ctx.oblige("at least 70%% of the inertia-source documents compile (%d of %d do not)" % (iskip[0], len(ilines)),
               "generator-coverage", iskip[0] * 10 <= len(ilines) * 3, "")
    hist = {}
    for d in cdocs:
        for f in d["features"]:
            hist[f] = hist.get(f, 0) + 1
    cc = {}
    for d in cdocs:
        for k in d["classes"]:
            cc[k] = cc.get(k, 0) + 1
    ctx.extra["compiler_stage_documents"] = {
        "exact (tie + oracle)": n_exact, "rich (oracle only)": n_rich, "compiler_attribute_histogram": hist,
        "modes": {m_: sum(1 for d in cdocs if d["mode"] == m_) for m_ in ("mass", "totalmass", "fuse", "plain")},
        "bodies_by_unsafeClass (0 = covered by inertial_roundtrip)": {str(k): v for k, v in sorted(cc.items())},
        "documents_with_discardvisual_and_inertiafromgeom_true": sum(1 for d in cdocs if d["compiler"].get("discardvisual") == "true"
                                                                      and d["compiler"].get("inertiafromgeom") == "true")}
    ctx.sample({"inertia_op": ilines[0].split(" # ")[0][:300]})

    for i, d in enumerate(cdocs):
        oid = "c%d" % i
        meta[oid] = dict(d, origin="compiler-stage MJCF (%s, %s)" % (d["mode"], "exact masses" if d["exact"] else "rich"))
        ops17.append("xml %s %s" % (oid, d["xml"].encode().hex()))
        if i % 3 == 0:
            ops6.append("xml %s %s" % (oid, d["xml"].encode().hex()))
    # default-coincidence documents (writer branches that compare with the default class and skip on equality) + the tie of
    # the variable-arity springlength writer
    ndc, nspring = (600, 400) if thorough else (50, 60)
    dpat = {}
    for i in range(ndc):
        d = default_coincidence_doc(rng, tj)
        for k, v in d["patterns"].items():
            dpat[k] = dpat.get(k, 0) + v
        oid = "dc%d" % i
        meta[oid] = {"origin": "default-coincidence MJCF (class tree main > c1 > c2, partial coincidence with the class default)",
                     "xml": d["xml"]}
        ops17.append("xml %s %s" % (oid, d["xml"].encode().hex()))
        if i % 2 == 0:
            ops6.append("xml %s %s" % (oid, d["xml"].encode().hex()))
    sp = [0.125, 0.25, 0.375, 0.75, 1.25]
    slines = []
    for _ in range(nspring):
        t = sorted(rng.choice(sp) for _ in range(2)) if rng.random() < 0.6 else [rng.choice(sp)] * 2
        dd = sorted(rng.choice(sp) for _ in range(2)) if rng.random() < 0.6 else [rng.choice(sp)] * 2 if rng.random() < 0.7 else None
        if dd is not None and rng.random() < 0.6:
            t[0] = dd[0] if rng.random() < 0.5 else t[0]
            t[1] = max(t[0], dd[1]) if rng.random() < 0.5 else max(t)
        if rng.random() < 0.1:
            t[0] = t[0] + rng.choice((1e-17, 1e-16))
            t[1] = max(t)
        doc = "<mujoco>%s<worldbody><body><joint/><geom size=\"0.1\"/><site name=\"a\"/></body><body pos=\"1 0 0\"><joint/>" \
              "<geom size=\"0.1\"/><site name=\"b\"/></body></worldbody><tendon><spatial springlength=\"%s\"><site site=\"a\"/>" \
              "<site site=\"b\"/></spatial></tendon></mujoco>" % (
                  "" if dd is None else "<default><tendon springlength=\"%s %s\"/></default>" % (repr(dd[0]), repr(dd[1])),
                  "%s %s" % (repr(t[0]), repr(t[1])))
        de = dd if dd is not None else [-1.0, -1.0]
        slines.append("s %s %s %s %s # %s" % (bits(t[0]), bits(t[1]), bits(de[0]), bits(de[1]), doc.encode().hex()))
    ctx.differential("variable-arity springlength writer (model) vs the attribute in the text saved by mj_saveXMLString",
                     [drv], wrapper, slines, keyf=lambda l: l.split(" # ")[0])
    ctx.extra["default_coincidence_documents"] = {"documents": ndc, "pattern_histogram (per attribute instance)": dpat,
                                                  "element kinds": sorted(DC_KINDS), "springlength tie ops": nspring}
    for i, l in enumerate(slines[: (200 if thorough else 30)]):
        oid = "sp%d" % i
        meta[oid] = {"origin": "springlength tie document", "xml": bytes.fromhex(l.split(" ")[-1]).decode()}
        ops17.append("xml %s %s" % (oid, l.split(" ")[-1]))
    # mjSpec programs with compiler settings, restricted to those the tree round-trips (no explicit inertials here, so every
    # body is covered by inertial_roundtrip): visual geoms discarded, inertia from geoms
    nspec = 120 if thorough else 12
    for i in range(nspec):
        # (no numeric / equality elements: they trigger two recorded findings that would combine with everything else)
        mdl = ModelGen(rng, {"contacts": 0.55, "mocap": 0.0, "numeric": 0.0, "equalities": 0.0}).make()
        oid = "gc%d" % i
        pre = ["compiler discardvisual %d" % (rng.random() < 0.7),
               "compiler inertiafromgeom %d" % E(rng.choice(("mjINERTIAFROMGEOM_TRUE", "mjINERTIAFROMGEOM_TRUE", "mjINERTIAFROMGEOM_AUTO")))]
        if rng.random() < 0.3:
            pre.append("compiler boundmass %r" % rng.choice((0.5, 2.0)))
        if rng.random() < 0.3:
            pre.append("compiler alignfree 1")
        meta[oid] = {"origin": "gen/models.py via mjSpec + compiler settings", "description": pre + mdl.lines}
        ops17 += ["model " + oid] + pre + mdl.lines + ["end"]
        if i % 2 == 0:
            ops6 += ["model " + oid] + pre + mdl.lines + ["end"]
    ctx.extra["compiler_stage_documents"]["mjSpec programs with discardvisual / inertiafromgeom"] = nspec
    # single-precision documents: random float32 values (9 significant digits) in every float-typed attribute
    nfp = 300 if thorough else 40
    fphist = {}
    for i in range(nfp):
        txt = float_precision_doc(rng, tj, fphist)
        oid = "fp%d" % i
        meta[oid] = {"origin": "single-precision MJCF (random float32 values in the float-typed attributes)", "xml": txt}
        ops17.append("xml %s %s" % (oid, txt.encode().hex()))
        if i % 4 == 0:
            ops6.append("xml %s %s" % (oid, txt.encode().hex()))
    ctx.extra["single_precision_documents"] = {
        "documents": nfp, "value_distribution": fphist,
        "tables": [t for t, _, _ in FP_TABLES] + ["camera sensorsize / focal (hand-written)"],
        "text": "float32 values printed with %.9g; 40% in [0.1,0.125), 15% [10,16) and 10% [100,128) (attributes that are not "
                "colour-like), 20% uniform [0.03125,1), 15% random mantissa in a random binade"}
    # shipped models
    files = sorted(glob.glob(os.path.join(common.REPO, "model", "**", "*.xml"), recursive=True))
    if not thorough:
        files = [f for f in files if os.path.getsize(f) < 20000][:40]
    for i, f in enumerate(files):
        oid = "f%d" % i
        meta[oid] = {"origin": "shipped model", "file": os.path.relpath(f, common.REPO)}
        ops17.append("file %s %s" % (oid, f))
    # directed: values next to a default / next to an integer
    directed = {
        "d0": '<mujoco><worldbody><body><joint/><geom size="0.1" friction="1.0000000000000002 0.005 0.0001"/></body></worldbody></mujoco>',
        "d1": '<mujoco><worldbody><body pos="0 0 1.0000000000001"><joint/><geom size="0.1"/></body></worldbody></mujoco>',
        "d2": '<mujoco><compiler angle="radian"/><worldbody><body euler="3.141592653589793 0 0"><joint/><geom size="0.1"/></body></worldbody></mujoco>',
        "d3": '<mujoco><worldbody><body><joint damping="1e-17"/><geom size="0.1"/></body></worldbody></mujoco>',
    }
    for oid, txt in directed.items():
        meta[oid] = {"origin": "directed (value next to a default / an integer)", "xml": txt}
        ops17.append("xml %s %s" % (oid, txt.encode().hex()))
    # directed mjSpec programs: a joint equality with objtype set; a numeric whose size exceeds its data
    two = ["body 1 0", "joint 2 1", "name 2 ja", "geom 3 1", "set 3 size 0.1", "body 4 0", "joint 5 4", "name 5 jb", "geom 6 4", "set 6 size 0.1"]
    dspec = {
        "s0": two + ["equality 7", "set 7 type %d" % E("mjEQ_JOINT"), "set 7 objtype %d" % E("mjOBJ_JOINT"), "set 7 name1 ja", "set 7 name2 jb"],
        "s1": two + ["numeric 7", "name 7 num1", "set 7 size 40", "set 7 data 1.5 -2"],
    }
    for oid, lines_ in dspec.items():
        meta[oid] = {"origin": "directed mjSpec program", "description": lines_}
        ops17 += ["model " + oid] + lines_ + ["end"]

    stats = {"ok": 0, "tiny": 0, "skip": 0, "diff": 0, "fail": 0}
    maxdev6 = 0.0
    for prec, tol, ops in ((17, 0, ops17), (6, 2e-4, ops6)):
        rc, out, err = ctx.run_lines([impl], ["prec %d" % prec, "tol %g" % tol] + ops, timeout=3000)
        res = [parse_result(o) for o in out[2:]]
        nexp = sum(1 for o in ops if o.split(" ")[0] in ("model", "xml", "file"))
        if rc != 0 or len(res) != nexp:
            last = res[-1]["id"] if res else "?"
            ctx.oracle_failure("c32:crash-in-save-or-reload", "the round-trip process died (rc=%d) after %s: %s" % (rc, last, err[-300:]),
                               {"after": meta.get(last), "stderr": err[-1000:]})
            return
        for r in res:
            m = meta.get(r["id"], {})
            ctx.count((prec, r["id"], m.get("file") or len(str(m))))
            if r["status"] == "skip":
                stats["skip"] += prec == 17
                continue
            if r["status"] == "ok":
                stats["ok"] += prec == 17
                if prec == 6:
                    maxdev6 = max(maxdev6, float(r.get("maxdev", 0)))
                    if int(r.get("bvh_equiv", 0) or 0) > 0:
                        stats["bvh_node_order_differs_at_precision_6"] = stats.get("bvh_node_order_differs_at_precision_6", 0) + 1
                    if int(r.get("iquat_equiv", 0) or 0) > 0:
                        # tolerance mode only: another representative of the same principal-axes frame (full inertia
                        # tensors agree), see filter_equivalent_iquat in the harness
                        stats["principal_frame_representation_differs_at_precision_6"] = \
                            stats.get("principal_frame_representation_differs_at_precision_6", 0) + 1
                elif len(ctx.samples) < 6:
                    ctx.sample({"origin": m.get("origin"), "file": m.get("file"), "result": "identical: %s arrays, %s elements, saved text %s bytes"
                                % (r.get("arrays"), r.get("elems"), r.get("bytes"))})
                continue
            xml = bytes.fromhex(r.get("xml", "")).decode("utf-8", "replace") if r.get("xml") else ""
            replay = dict(m, precision=prec, saved_xml=xml[:20000], harness="harness/cc/c32_roundtrip.cc")
            if r["status"] == "diff" and any(f[0] in SIZE_FIELDS for f in r["fieldlist"]) and \
                    any(f[0] not in SIZE_FIELDS for f in r["fieldlist"]):
                # unused size components (recorded finding) next to something else: report them, go on with the rest
                ctx.oracle_failure(KEY_SIZE[0], KEY_SIZE[1], dict(replay, differing_fields=[
                    {"field": f[0], "count": f[1], "first_index": f[2], "original": f[3], "reloaded": f[4]}
                    for f in r["fieldlist"] if f[0] in SIZE_FIELDS]))
                r["fieldlist"] = [f for f in r["fieldlist"] if f[0] not in SIZE_FIELDS]
            known_cs = classify_compiler_stage(m, r.get("fieldlist", []), r["fullmsg"] if r["status"] == "fail" else "") or \
                classify_small(m, r.get("fieldlist", []))
            replay.pop("classes", None)
            if known_cs:
                stats["known_compiler_stage"] = stats.get("known_compiler_stage", 0) + 1
                replay["differing_fields"] = [{"field": f[0], "count": f[1], "first_index": f[2], "original": f[3], "reloaded": f[4]}
                                              for f in r.get("fieldlist", [])[:12]]
                if r["status"] == "fail":
                    replay["reload_error"] = "%s: %s" % (r.get("stage"), r["fullmsg"])
                ctx.oracle_failure(known_cs[0], known_cs[1], replay)
                continue
            if r["status"] == "fail":
                stats["fail"] += 1
                ctx.oracle_failure("c32:saved-text-does-not-load:%s:%s" % (r.get("stage"), re.sub(r"'[^']*'|\d+", "_", o_msg(r))[:60]),
                                   "the text written by mj_saveXMLString is rejected at stage %s" % r.get("stage"), replay)
                continue
            fl = r.get("fieldlist", [])
            replay["differing_fields"] = [{"field": f[0], "count": f[1], "first_index": f[2], "original": f[3], "reloaded": f[4]} for f in fl[:12]]
            dev = float(r.get("maxdev", 0))
            ints_differ = any("." not in f[3] and "e" not in f[3] and "." not in f[4] and "e" not in f[4] and f[3] not in ("nan", "inf", "-inf")
                              and f[0] not in ("nbuffer",) for f in fl)
            special = classify(fl)
            numeric_oob = False
            if prec == 17 or special or any(f[0] == "numeric_data" for f in fl):
                numeric_oob = any(f[0] == "numeric_data" for f in fl) and "set" in " ".join(m.get("description", [])) and \
                    any(re.match(r"set \d+ size \d+", l) for l in m.get("description", []))
                if special:
                    key, what = special, "eq_objtype of an equality built through mjSpec with objtype set is not reproduced by the saved MJCF (the reader leaves objtype at its default for joint/tendon equalities)"
                elif numeric_oob and all(f[0] in ("numeric_data", "eq_objtype") for f in fl):
                    key, what = "c32:numeric-size-exceeds-data-writes-out-of-bounds", ("a <numeric> whose size exceeds the length of its data: the writer prints `size` values from a "
                                                                                       "shorter vector (reads past its end), the reloaded numeric_data holds garbage")
                elif dev <= TINY and not ints_differ:
                    stats["tiny"] += 1
                    key, what = "c32:full-precision-save-not-exact:number-formatting", (
                        "at xml precision 17 the reloaded model differs from the original by %.3g (normalised) in %s: the writer prints values within 1e-12 of an "
                        "integer as that integer (isint/Round) and omits values within machine epsilon of the default (SameVector)" % (dev, fl[0][0] if fl else "?"))
                elif dev <= 1e-4 and all(f[0].startswith(("flex", "bvh", "mesh", "stat.", "efm", "skin")) or f[0] in ("nbvh",) for f in fl):
                    key, what = "c32:vector-attributes-printed-with-6-digits", (
                        "flex/mesh vertex data are written through VectorToString (stream default precision 6) even at xml precision 17: "
                        "reloaded %s differs by %.3g" % (fl[0][0], dev))
                else:
                    stats["diff"] += 1
                    key = "c32:reloaded-model-differs:" + ",".join(sorted(f[0] for f in fl)[:4])
                    what = "save -> parse -> compile changes %d field(s): %s" % (len(fl), ", ".join("%s[%s] %s -> %s" % (f[0], f[2], f[3], f[4]) for f in fl[:4]))
                ctx.oracle_failure(key, what, replay)
            else:
                stats["diff"] += 1
                key = "c32:precision6-deviation-above-tolerance:" + ",".join(sorted(f[0] for f in fl)[:4])
                ctx.oracle_failure(key, "at the default xml precision the reloaded model deviates by %.3g (> 2e-4 normalised) or in an "
                                   "integer array: %s" % (dev, ", ".join("%s[%s] %s -> %s" % (f[0], f[2], f[3], f[4]) for f in fl[:4])), replay)
    ctx.extra["roundtrip"] = dict(stats, origins=len(meta), max_normalised_deviation_at_precision_6=maxdev6,
                                  tolerance_at_precision_6=2e-4)
    ctx.oblige("at least 40%% of the round-trip origins compile (%d skipped of %d)" % (stats["skip"], len(meta)),
               "generator-coverage", stats["skip"] * 10 <= len(meta) * 6, "")

    def directed(c):
        # the table-level tie broke but the oracle saw nothing: push the disagreeing documents themselves through the
        # round trip and report the first one whose reloaded model differs (beyond number formatting) or does not load
        docs = [d["line"].split(" ")[-1] for d in c.disagreements if d.get("line", "").startswith(("w ", "i "))]
        if not docs:
            return None
        _, out, _ = c.run_lines([impl], ["prec 17", "tol 0"] + ["xml t%d %s" % (i, h) for i, h in enumerate(docs)])
        for h, o in zip(docs, out[2:]):
            r = parse_result(o)
            if r["status"] == "fail" or (r["status"] == "diff" and float(r.get("maxdev", 0)) > TINY):
                return {"key": "c32:reloaded-model-differs:table-tie-document", "what": "save -> parse -> compile changes the model of a "
                        "document on which the real writer / compiler disagrees with its Lean model: " + o.split(" xml=")[0][:300],
                        "replay": {"xml": bytes.fromhex(h).decode("utf-8", "replace")}}
        return None
    ctx.directed_search = directed


def o_msg(r):
    return r.get("msg", "")


def _distinct_first(ctx):
    """the replay file keeps the first 20 failures: put one failure of every distinct key first"""
    seen, head, tail = set(), [], []
    for f in ctx.oracle_failures:
        (tail if f["key"] in seen else head).append(f)
        seen.add(f["key"])
    ctx.oracle_failures[:] = head + tail


def run(ctx):
    try:
        _run(ctx)
    finally:
        _distinct_first(ctx)


if __name__ == "__main__":
    common.main(run, "C32")
