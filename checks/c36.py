"""C36  Equivalent model descriptions compile to equivalent physics (DESIGN.md §5.C36).

P  Lean theorems over ℝ (lean/MjProof/Props/C36.lean) about the executable model lean/MjProof/Model/Orient.lean of
   ResolveOrientation (user_objects.cc) and of the frame accumulators (user_util.cc), whose straight-line kernels are the
   definitions generated from user_util.cc by translate/c35_userutil.py on every run: every orientation spelling yields the
   quaternion of the rotation it denotes; nesting frames is associative.  lean/MjProof/Model/Attach.lean models the pose
   semantics of mjs_attach (user_api.cc: dispatch on attachment point frame / body / site x attached body / frame / whole
   spec; the frame attachToSite / attachFrameToSite create from the site's pos / quat / alt; the identity frame wrapped
   around the world of an attached spec; every element keeping the degree / eulerseq of the spec it was written in) on top
   of mjCFrame::Compile / mjCBody::Compile: the attached body compiles to exactly the pose of the written-out description
   (all number classes, hence bit for bit), the world frame of an attached model is neutral (reals), a body attached to a
   site is mounted with the site's rotation.
T  bitwise differential of the model (Lean on Float) against mjs_resolveOrientation of the tree (all five spellings, every
   Euler sequence, degree / radian, error cases), against bodies compiled inside (nested) frames, and (`att` lines) against
   the real mjs_attach + mj_compile for every attachment point (frame, body, site, site of a previously attached spec) x
   attached element (body, frame, model) x spelling of every pose on the way x degree / eulerseq of host, child and site
   spec chosen independently x nesting; translation validation of the generated kernels the model uses.
S  oracle on the implementation alone: (a) the resolved quaternion denotes the rotation computed independently in Python;
   (a') the pose of an attached body is the composition, computed in Python, of the rotations the spellings denote in the
   spec each was WRITTEN in; (b) model pairs compiled through the mjSpec C API: orientation spellings vs explicit
   quaternions, degrees vs radians, bodies / geoms / sites wrapped in frames vs inline, fusestatic and discardvisual on vs
   off, values through (nested) default classes vs explicit, runtime edit + mj_setConst vs recompiling the edited spec,
   and mjs_attach vs inline: every entry point x every spelling of the attachment point (each pair at least once per run) x
   child spec with the same / another compiler (degrees vs radians, eulerseq) x deep copy on / off x prefix / suffix x the
   same child attached twice x a grandchild attached to a site of the child first, the payload carrying spelled bodies,
   inertial frames (ialt), geoms, sites, cameras, inner frames, hinge / ball joints with ref / springref / range in the
   child's angle unit, actuators and sensors referring to payload elements by name — compared with the written-out model
   with the same spellings (all mjModel arrays bitwise) and with the written-out model in radians with quaternions computed
   in Python (poses 1e-12, compiled values 1e-6, trajectories 1e-9) — trajectories of the kept bodies / sites over 200
   steps (1e-9 relative), static arrays bitwise where exact.
"""
import json
import math
import os
import re
import sys

from checks import common
from checks.c35 import fb, unb
from gen.enums import E
from gen.models import ModelGen, unit_quat

META = {
    "technique": "hand model of ResolveOrientation / mjuu_normvec / mjuu_mulquat / mjuu_frame2quat / mjuu_z2quat / frame accumulation / mjCFrame::Compile / the pose steps of mjCBody::Compile / the pose semantics of mjs_attach over a law-free number class on top of c2lean-generated user_util.cc kernels + Lean 4 proofs over the reals and (attach = inline) over every number class + bitwise differential against mjs_resolveOrientation, compiled frames and mjs_attach + mj_compile + equivalence oracle on compiled model pairs (trajectories, static arrays)",
    "text": "Proved over the reals for the model instantiated with pi = Real.pi: an explicit quaternion is passed through; with `degree` an angle x is used as x/180*pi and a degree spelling equals the radian spelling with scaled angles (axis-angle and Euler); an axis-angle spelling with a normalisable axis yields (cos phi/2, sin phi/2 * axis/|axis|), which for a unit axis is a unit quaternion whose rotation matrix fixes the axis and has trace 1 + 2 cos phi; for EVERY one of the 6^3 Euler sequences over x y z X Y Z the result is a unit quaternion whose rotation matrix is the product of the three elementary rotations, post-multiplied for lower-case (moving axes) and pre-multiplied for upper-case (fixed axes) letters, any other letter being rejected (xyz = Rx Ry Rz, XYZ = Rz Ry Rx as corollaries); the xyaxes spelling yields mjuu_frame2quat of the Gram-Schmidt frame (x^, y^, x^ x y^), which is right-handed orthonormal, and mjuu_frame2quat applied to the frame of any unit quaternion p returns +p or -p in each of its four branches; the zaxis spelling on a unit direction yields a unit quaternion with zero z-component (minimal rotation) whose matrix maps (0,0,1) to that direction, with the poles (0,0,+-1) giving the identity / the half turn about x; accumulating frames is associative and has the null frame as identity for unit orientations, and a child placed in a frame gets orientation q_frame*q_child and position p_frame + R(q_frame) p_child. mjs_attach (model of its pose semantics, tied bitwise to the real function on every run): for EVERY number class (so bit for bit on doubles) attaching a body or a frame of a child spec to a frame, a body or a site compiles the observed body to exactly the pose of the written-out description (attachment point spelled as a frame with the same pos / quat / alt, attached frames and body inside it, every element resolved with the degree / eulerseq of the spec it was written in), provided a site is resolved with the settings of the spec it was written in and is resolvable (otherwise both descriptions fail to compile); over the reals the identity frame wrapped around the world of an attached spec is neutral when every spelling on the way denotes a unit quaternion, so an attached model equals its world's children written at the attachment point; a body attached to a site whose spelling denotes q_s is compiled at p_site + R(q_s) p_body with orientation q_s*q_body.",
    "note": "Partial: xyaxes_denotes_frame_partial assumes the Gram-Schmidt frame is the frame of some unit quaternion (surjectivity of the double cover is not proved); normalisation is exact only outside the band | |v| - 1 | <= 1e-14 in which the C code deliberately leaves vectors unchanged (hypothesis `Normalisable`). FINDING on the tree (known_findings c36:attach:site-of-attached-spec:units): attachToSite / attachFrameToSite resolve the site's spelling with the compiler of mjs_getSpec(site), which after an earlier attachment is the HOST, not the spec the site was written in — the hypothesis `ownSettings` of attach_eq_inline fails and the subtree is mounted with the wrong rotation (modelled as coded: Point.site carries the owner's settings; the differential agrees, the Python oracle reports it). Of mjs_attach only the pose of attached bodies is modelled; the copying of the other element kinds, of defaults, keyframes and by-name references, name prefixes and deep / shallow copies are oracle only. NOT modelled, oracle only: default classes, frames attached to every element kind, fusestatic, discardvisual, mj_setConst (pairs of compiled models compared by trajectories of kept bodies and sites over 200 steps at 1e-9 relative on contact-free generated models, and bitwise on all mjModel arrays where the rewriting is exact: defaults, attach, identity-child frames, setconst). src/xml is stubbed, so XML-only spellings are out of reach: nested default classes written in XML (childclass inheritance through the parser), <replicate>, <include>; defaults are exercised through mjs_addDefault (parent + nested child class), frames through mjs_addFrame / mjs_setFrame, attach through mjs_attach. pi is a parameter of the model (driver: the mjPI literal; theorems: Real.pi). Reals vs IEEE doubles: rounding is outside the proofs.",
}

P = "MjProof.C36."
THEOREMS = [P + t for t in (
    "degree_scaling", "degree_vs_radian", "quat_spelling", "axisangle_quat", "axisangle_denotes_rotation",
    "euler_denotes_rotation_product", "euler_letters", "euler_xyz_XYZ",
    "xyaxes_gram_schmidt", "xyaxes_denotes_frame_partial", "zaxis_minimal_rotation", "zaxis_poles",
    "frame_composition_assoc", "frame_composition_identity", "frameaccumChild_pose",
    "attach_eq_inline", "attach_site_unresolvable", "attach_model_eq_inline", "attach_site_pose",
)] + ["MjProof.Orient.frame2quat_matF", "MjProof.Orient.matF_hamilton", "MjProof.Orient.matF_orthogonal",
      "MjProof.Orient.mulquat_unit", "MjProof.Orient.quat2mat_eq",
      "MjProof.Attach.compileChain_append", "MjProof.Attach.compileFrame_siteFrame", "MjProof.Attach.worldFrame_neutral"]

KERNELS = ["mjuu_dot3", "mjuu_quat2mat", "mjuu_mulvecmat", "mjuu_crossvec", "mjuu_frameinvert"]
LETTERS = (120, 121, 122, 88, 89, 90)
TOL_TRAJ = 1e-9
TOL_POSE0 = 1e-12     # kinematics only (no inertia involved): observed <= ~1e-15
# fusing a static body merges inertias through mjuu_fullInertia / mjuu_eig3, whose Jacobi loop stops at a rotation of
# 1.4e-6 rad (cos > 1 - 1e-12): the fused body's tensor is only accurate to ~1e-6 relative.  Along two SEPARATELY integrated
# trajectories such a difference drifts quadratically in time (a free body with 2e-8 relative difference in qacc at step 0 is
# 5e-4 apart after 200 steps although the scene does not amplify perturbations), so an absolute 1e-4 bound on the 200-step
# deviation raised false alarms in the thorough tier (4 of 1199 pairs, seeds 0-3: 2.1e-4 ... 5.1e-4; everything else <= 1.8e-5).
# The fusestatic rewriting is therefore judged (a) by the accelerations of the two models AT THE SAME STATE (B evaluated at
# A's state every 50 steps; observed <= 4.1e-5 relative over those 1199 pairs, bound 1e-3) and (b) by a 200-step bound of
# 1e-2 (20x the largest observed drift); a rewriting that changes the physics (dropped mass, wrong frame, lost joint
# parameter) is far outside both
TOL_KIND = {"fusestatic": 1e-2}
TOL_QACC_MATCHED = {"fusestatic": 1e-3}
TOL_ROT = 1e-12
# attach vs inline with Python-computed quaternions and radians: body / geom / camera poses, qpos0, qpos_spring, jnt_range,
# inertias of the two compiled models (observed <= 1e-14; the inertia eigen-decomposition is only accurate to ~1e-6 for
# near-degenerate tensors, see above)
TOL_ATTACH_STATIC = 1e-6


# ------------------------------------------------------------------------------------------ independent rotation maths
def qmul(a, b):
    return [a[0]*b[0]-a[1]*b[1]-a[2]*b[2]-a[3]*b[3], a[0]*b[1]+a[1]*b[0]+a[2]*b[3]-a[3]*b[2],
            a[0]*b[2]-a[1]*b[3]+a[2]*b[0]+a[3]*b[1], a[0]*b[3]+a[1]*b[2]-a[2]*b[1]+a[3]*b[0]]


def qmat(q):
    w, x, y, z = q
    return [[1-2*(y*y+z*z), 2*(x*y-w*z), 2*(x*z+w*y)], [2*(x*y+w*z), 1-2*(x*x+z*z), 2*(y*z-w*x)],
            [2*(x*z-w*y), 2*(y*z+w*x), 1-2*(x*x+y*y)]]


def mmul(a, b):
    return [[sum(a[i][k]*b[k][j] for k in range(3)) for j in range(3)] for i in range(3)]


def elem(ax, t):
    c, s = math.cos(t), math.sin(t)
    if ax == "x":
        return [[1, 0, 0], [0, c, -s], [0, s, c]]
    if ax == "y":
        return [[c, 0, s], [0, 1, 0], [-s, 0, c]]
    return [[c, -s, 0], [s, c, 0], [0, 0, 1]]


def rodrigues(axis, t):
    n = math.sqrt(sum(x*x for x in axis))
    x, y, z = (a / n for a in axis)
    c, s = math.cos(t), math.sin(t)
    C = 1 - c
    return [[c+x*x*C, x*y*C-z*s, x*z*C+y*s], [y*x*C+z*s, c+y*y*C, y*z*C-x*s], [z*x*C-y*s, z*y*C+x*s, c+z*z*C]]


def euler_matrix(seq, ang):
    R = [[1, 0, 0], [0, 1, 0], [0, 0, 1]]
    for ch, a in zip(seq, ang):
        Ei = elem(chr(ch).lower(), a)
        R = mmul(R, Ei) if chr(ch).islower() else mmul(Ei, R)
    return R


def gram_schmidt(x, y):
    n = math.sqrt(sum(a*a for a in x))
    x = [a/n for a in x]
    d = sum(a*b for a, b in zip(x, y))
    y = [b - a*d for a, b in zip(x, y)]
    n = math.sqrt(sum(a*a for a in y))
    y = [a/n for a in y]
    z = [x[1]*y[2]-x[2]*y[1], x[2]*y[0]-x[0]*y[2], x[0]*y[1]-x[1]*y[0]]
    return [[x[0], y[0], z[0]], [x[1], y[1], z[1]], [x[2], y[2], z[2]]]


def mat2quat(R):
    """Shepperd's method (independent of mjuu_frame2quat's branch order)"""
    t = [R[0][0]+R[1][1]+R[2][2], R[0][0], R[1][1], R[2][2]]
    i = max(range(4), key=lambda k: t[k])
    if i == 0:
        w = math.sqrt(max(0, 1+t[0]))/2
        q = [w, (R[2][1]-R[1][2])/(4*w), (R[0][2]-R[2][0])/(4*w), (R[1][0]-R[0][1])/(4*w)]
    elif i == 1:
        x = math.sqrt(max(0, 1+R[0][0]-R[1][1]-R[2][2]))/2
        q = [(R[2][1]-R[1][2])/(4*x), x, (R[0][1]+R[1][0])/(4*x), (R[0][2]+R[2][0])/(4*x)]
    elif i == 2:
        y = math.sqrt(max(0, 1-R[0][0]+R[1][1]-R[2][2]))/2
        q = [(R[0][2]-R[2][0])/(4*y), (R[0][1]+R[1][0])/(4*y), y, (R[1][2]+R[2][1])/(4*y)]
    else:
        z = math.sqrt(max(0, 1-R[0][0]-R[1][1]+R[2][2]))/2
        q = [(R[1][0]-R[0][1])/(4*z), (R[0][2]+R[2][0])/(4*z), (R[1][2]+R[2][1])/(4*z), z]
    n = math.sqrt(sum(a*a for a in q))
    return [a/n for a in q]


def mdev(A, B):
    return max(abs(A[i][j]-B[i][j]) for i in range(3) for j in range(3))


# ------------------------------------------------------------------------------------------ orient lines + oracle
def gen_orient(ctx):
    rng = ctx.rng
    n = 30000 if ctx.tier == "thorough" else 2500
    lines, meta = [], []
    hist = {}
    seqs = [(a, b, c) for a in LETTERS for b in LETTERS for c in LETTERS]
    for i in range(n):
        ty = rng.choice((1, 2, 3, 4, 4, 0))
        dg = rng.randint(0, 1)
        seq = list(seqs[i % len(seqs)]) if ty == 4 else [rng.choice(LETTERS) for _ in range(3)]
        badseq = False
        if rng.random() < 0.03:
            seq[rng.randint(0, 2)] = rng.choice((97, 48, 87, 32 + rng.randint(1, 90)))
            badseq = any(c not in LETTERS for c in seq)
        q = unit_quat(rng)
        aa = [rng.gauss(0, 1) for _ in range(3)] + [rng.uniform(-400, 400) if dg else rng.uniform(-7, 7)]
        r = rng.random()
        if r < 0.06:
            aa[:3] = [0.0, 0.0, rng.choice((1.0, 1e-8, 1e-7, 0.0, 3.0))]
        elif r < 0.12:
            k = math.sqrt(sum(x*x for x in aa[:3]))
            aa[:3] = [x / k for x in aa[:3]]
        xy = [rng.gauss(0, 1) for _ in range(6)]
        r = rng.random()
        if r < 0.08:
            xy[3:] = [x * rng.choice((1, 2, 1e-9)) for x in xy[:3]]       # parallel axes: error
        elif r < 0.3:
            w, x, y, z = unit_quat(rng)                                    # exact frames hitting every frame2quat branch
            xy = [w*w+x*x-y*y-z*z, 2*(x*y+w*z), 2*(x*z-w*y), 2*(x*y-w*z), w*w-x*x+y*y-z*z, 2*(y*z+w*x)]
        z = [rng.gauss(0, 1) for _ in range(3)]
        if rng.random() < 0.15:
            z = [rng.choice((0.0, 1e-12, 1e-9)), 0.0, rng.choice((1.0, -1.0, 2.0, -3.0))]
        e = [rng.uniform(-400, 400) if dg else rng.uniform(-7, 7) for _ in range(3)]
        if rng.random() < 0.1:
            e[rng.randint(0, 2)] = 0.0
        lines.append("orient %d %d %d %d %d %s" % (ty, dg, seq[0], seq[1], seq[2], " ".join(map(fb, q + aa + xy + z + e))))
        meta.append((ty, dg, seq, q, aa, xy, z, e, badseq))
        hist["type%d" % ty] = hist.get("type%d" % ty, 0) + 1
    for _ in range(2000 if ctx.tier == "thorough" else 300):
        f = [rng.uniform(-1, 1) for _ in range(3)] + [x * rng.choice((1, 1, 2)) for x in unit_quat(rng)]
        b = [rng.uniform(-1, 1) for _ in range(3)] + [x * rng.choice((1, 1, 0.5)) for x in unit_quat(rng)]
        if rng.random() < 0.2:
            f[3:] = [1.0, 0.0, 0.0, 0.0]
        if rng.random() < 0.2:
            b[3:] = [1.0, 0.0, 0.0, 0.0]
        g = [rng.uniform(-1, 1) for _ in range(3)] + unit_quat(rng)
        lines.append("frame " + " ".join(map(fb, f + b)))
        meta.append(("frame", f, b))
        lines.append("frame2 " + " ".join(map(fb, g + f + b)))
        meta.append(("frame2", g, f, b))
    lines += ["frob", "orient 9 0 120 121 122 " + " ".join([fb(0)] * 20), "orient 1 0 120 121 " + " ".join([fb(0)] * 20),
              "frame " + " ".join([fb(1)] * 13)]
    meta += [("bad",)] * 4
    ctx.extra["orient_distribution"] = hist
    return lines, meta


def nq(q):
    n = math.sqrt(sum(x*x for x in q))
    return [x/n for x in q]


def compose(f, b):
    """pose (pos, unit quat) of b inside f"""
    R = qmat(f[1])
    p = [f[0][i] + sum(R[i][k]*b[0][k] for k in range(3)) for i in range(3)]
    return p, nq(qmul(f[1], b[1]))


def orient_oracle(ctx, lines, outs, meta):
    nfail, maxdev = 0, 0.0

    def fail(key, what, line, out):
        nonlocal nfail
        nfail += 1
        if nfail <= 6:
            ctx.oracle_failure("c36:" + key, what, {"line": line[:1200], "impl_output": out, "replay": "echo '<line>' | <c36_equiv harness>"})

    for line, out, m in zip(lines, outs, meta):
        if m[0] == "bad":
            if out != "bad-op":
                fail("malformed-accepted", "malformed op accepted", line, out)
            continue
        if m[0] in ("frame", "frame2"):
            v = [unb(t) for t in out.split()] if len(out.split()) == 7 else None
            if v is None:
                fail("frame:no-result", "frame body did not compile: " + out[:60], line, out)
                continue
            def pose(x):
                return (x[:3], nq(x[3:]))
            exp = compose(pose(m[1]), pose(m[2])) if m[0] == "frame" else compose(compose(pose(m[1]), pose(m[2])), pose(m[3]))
            d = max(max(abs(a-b) for a, b in zip(v[:3], exp[0])), mdev(qmat(v[3:]), qmat(exp[1])))
            maxdev = max(maxdev, d)
            if d > 1e-11:
                fail("frame:pose", "body in frame: compiled pose deviates by %g from frame o body" % d, line, out)
            continue
        ty, dg, seq, q, aa, xy, z, e, badseq = m
        k = math.pi / 180 if dg else 1.0
        if out.startswith("error"):
            legit = ((ty == 1 and math.sqrt(sum(x*x for x in aa[:3])) < 1e-6) or
                     (ty == 2 and (math.sqrt(sum(x*x for x in xy[:3])) < 1e-6 or
                                   math.sqrt(sum(x*x for x in gs_rem(xy))) < 1e-6)) or
                     (ty == 3 and math.sqrt(sum(x*x for x in z)) < 1e-6) or (ty == 4 and badseq))
            if not legit:
                fail("orient:spurious-error", "valid orientation rejected: " + out[:80], line, out)
            continue
        toks = out.split()
        if len(toks) != 4:
            fail("orient:format", "bad output " + out[:60], line, out)
            continue
        if ty == 4 and badseq:
            fail("orient:bad-letter-accepted", "Euler sequence with an invalid letter accepted", line, out)
            continue
        r = [unb(t) for t in toks]
        n2 = sum(x*x for x in r)
        if ty != 0 and abs(n2 - 1) > 1e-12:
            fail("orient:unit", "resolved quaternion is not unit: |q|^2 = %r" % n2, line, out)
            continue
        R = qmat(r)
        if ty == 0:
            exp, ok = None, r == q
            if not ok:
                fail("orient:quat-changed", "explicit quaternion modified", line, out)
            continue
        if ty == 1:
            exp = rodrigues(aa[:3], aa[3] * k)
        elif ty == 2:
            if math.sqrt(sum(x*x for x in gs_rem(xy))) < 1e-4:
                continue    # nearly parallel axes: ill-conditioned, the exact cases are covered by the differential
            exp = gram_schmidt(xy[:3], xy[3:])
        elif ty == 3:
            zn = nq(z)
            d = max(abs(R[i][2] - zn[i]) for i in range(3))
            # mjuu_normvec treats vectors of squared norm < 1e-14 as zero: a direction within 1e-7 rad of +-z is
            # snapped to the pole (designed tolerance of the compiler)
            near_pole = math.hypot(zn[0], zn[1]) < 2e-7
            if not near_pole:
                maxdev = max(maxdev, d)
            if d > (2e-7 if near_pole else TOL_ROT * 10):
                fail("orient:zaxis", "R e_z differs from the z axis by %g" % d, line, out)
            elif abs(r[3]) > 1e-12 and not near_pole:
                fail("orient:zaxis-minimal", "rotation axis has a z component %g: not the minimal rotation" % r[3], line, out)
            continue
        else:
            exp = euler_matrix(seq, [a * k for a in e])
        d = mdev(R, exp)
        # angles up to 400 degrees / 7 rad: the argument reduction costs a few ulp of the angle
        maxdev = max(maxdev, d)
        if d > TOL_ROT * 20:
            key = {1: "axisangle", 2: "xyaxes", 4: "euler:" + "".join(map(chr, seq))}[ty] + (":degree" if dg else ":radian")
            fail("orient:" + key, "resolved quaternion denotes a rotation that differs by %g from the spelling's rotation" % d, line, out)
    ctx.extra["orient_oracle_failures"] = nfail
    ctx.extra["orient_max_rotation_deviation"] = float("%.3g" % maxdev)


def gs_rem(xy):
    x = xy[:3]
    n = math.sqrt(sum(a*a for a in x)) or 1.0
    x = [a/n for a in x]
    d = sum(a*b for a, b in zip(x, xy[3:]))
    return [b - a*d for a, b in zip(x, xy[3:])]


# ------------------------------------------------------------------------------------------ att lines (mjs_attach) + oracle
SPELL = ("quat", "axisangle", "xyaxes", "zaxis", "euler")      # index = mjtOrientation code
PK = ("frame", "body", "site", "site-of-attached-spec")
CK = ("body", "frame", "model")


def zaxis_quat(v):
    """minimal rotation taking e_z to v (independent of mjuu_z2quat): axis e_z x v, angle atan2(|e_z x v|, v_z)"""
    n = math.sqrt(sum(x*x for x in v))
    v = [x/n for x in v]
    ax = [-v[1], v[0], 0.0]
    s = math.hypot(ax[0], ax[1])
    if s < 1e-10:
        return [1.0, 0.0, 0.0, 0.0] if v[2] > 0 else [0.0, 1.0, 0.0, 0.0]
    a = math.atan2(s, v[2])
    return [math.cos(a/2), math.sin(a/2)*ax[0]/s, math.sin(a/2)*ax[1]/s, 0.0]


def spelled_quat(ty, quat, aa, xy, z, e, degree, seq):
    """unit quaternion denoted by a spelling (Python-only mathematics), or None when the spelling is degenerate"""
    k = math.pi / 180 if degree else 1.0
    if ty == 0:
        n = math.sqrt(sum(x*x for x in quat))
        return [x/n for x in quat] if n > 1e-6 else None
    if ty == 1:
        if math.sqrt(sum(x*x for x in aa[:3])) < 1e-6:
            return None
        return mat2quat(rodrigues(aa[:3], aa[3] * k))
    if ty == 2:
        if math.sqrt(sum(x*x for x in xy[:3])) < 1e-6 or math.sqrt(sum(x*x for x in gs_rem(xy))) < 1e-4:
            return None
        return mat2quat(gram_schmidt(xy[:3], xy[3:]))
    if ty == 3:
        if math.sqrt(sum(x*x for x in z)) < 1e-6:
            return None
        return zaxis_quat(z)
    if any(c not in LETTERS for c in seq):
        return None
    return mat2quat(euler_matrix(seq, [a * k for a in e]))


def rand_rec(rng, degree, ty=None, degenerate=0.0):
    """random pose record: type, pos, quat, axisangle, xyaxes, zaxis, euler (all fields filled, `type` selects)"""
    ty = rng.randint(0, 4) if ty is None else ty
    pos = [rng.uniform(-0.5, 0.5) for _ in range(3)]
    if rng.random() < 0.1:
        pos = [0.0, 0.0, 0.0]
    q = unit_quat(rng)
    r = rng.random()
    if r < 0.15:
        q = [x * rng.choice((2.0, 0.5, 3.0)) for x in q]          # user quaternions need not be normalised
    elif r < 0.25:
        q = [1.0, 0.0, 0.0, 0.0]
    aa = [rng.gauss(0, 1) * rng.choice((1, 3)) for _ in range(3)] + [rng.uniform(-350, 350) if degree else rng.uniform(-6, 6)]
    xy = [rng.gauss(0, 1) for _ in range(6)]
    z = [rng.gauss(0, 1) for _ in range(3)]
    if rng.random() < 0.1:
        z = [0.0, 0.0, rng.choice((1.0, -2.0))]
    e = [rng.uniform(-350, 350) if degree else rng.uniform(-6, 6) for _ in range(3)]
    if rng.random() < degenerate:
        aa[:3] = [0.0, 0.0, 0.0]
        xy[3:] = [2 * x for x in xy[:3]]
        z = [0.0, 0.0, 0.0]
    return {"type": ty, "pos": pos, "quat": q, "axisangle": aa, "xyaxes": xy, "zaxis": z, "euler": e}


def rec_tokens(r):
    return "%d %s" % (r["type"], " ".join(map(fb, r["pos"] + r["quat"] + r["axisangle"] + r["xyaxes"] + r["zaxis"] + r["euler"])))


def rec_pose(r, comp):
    q = spelled_quat(r["type"], r["quat"], r["axisangle"], r["xyaxes"], r["zaxis"], r["euler"], comp[0], comp[1])
    return None if q is None else (r["pos"], q)


def gen_att(ctx):
    """every (attachment point, attached element) combination of mjs_attach x spelling of every pose on the way x
    degree / eulerseq of host and child spec (independently) x nesting of the attachment point and of the observed body"""
    rng = ctx.rng
    n = 6000 if ctx.tier == "thorough" else 700
    lines, meta, hist = [], [], {}
    combos = [(pk, ck) for pk in range(4) for ck in range(3)]
    for i in range(n):
        pk, ck = combos[i % 12]
        outer, inner = rng.randint(0, 1), rng.randint(0, 1)
        host = (rng.randint(0, 1), [rng.choice(LETTERS) for _ in range(3)])
        child = (rng.randint(0, 1), [rng.choice(LETTERS) for _ in range(3)]) if rng.random() < 0.7 else host
        if rng.random() < 0.02:
            bad = list(child[1])
            bad[rng.randint(0, 2)] = 97
            child = (child[0], bad)
        # pk = 3: the spec the site was written in (its body is attached to the host before the site is used)
        mid = (rng.randint(0, 1), [rng.choice(LETTERS) for _ in range(3)]) if rng.random() < 0.7 else host
        pc = mid if pk == 3 else host
        dg = 0.03
        # the attachment point cycles through the five spellings so that each (pk, ck, spelling) is certainly hit
        recs = [rand_rec(rng, pc[0], degenerate=dg), rand_rec(rng, pc[0], ty=(i // 12) % 5, degenerate=dg),
                rand_rec(rng, child[0], degenerate=dg), rand_rec(rng, child[0], degenerate=dg), rand_rec(rng, child[0], degenerate=dg)]
        lines.append("att %d %d %d %d %d %d %d %d %d %d %d %d %d %d %d %d %s" % (
            pk, ck, outer, inner, host[0], host[1][0], host[1][1], host[1][2], child[0], child[1][0], child[1][1], child[1][2],
            mid[0], mid[1][0], mid[1][1], mid[1][2], " ".join(rec_tokens(r) for r in recs)))
        meta.append(("att", pk, ck, outer, inner, host, child, recs, mid))
        key = "%s<-%s:%s" % (PK[pk], CK[ck], SPELL[recs[1]["type"]] if pk != 1 else "-")
        hist[key] = hist.get(key, 0) + 1
    lines += ["att 4 0 0 0 0 120 121 122 0 120 121 122 0 120 121 122 " + " ".join(rec_tokens(rand_rec(rng, 0)) for _ in range(5)),
              "att 0 0 0 0 0 120 121 122 0 120 121 122 0 120 121 122 " + " ".join(rec_tokens(rand_rec(rng, 0)) for _ in range(4)),
              "att 0 0 0 0 0 120 121 0 0 120 121 122 0 120 121 122 " + " ".join(rec_tokens(rand_rec(rng, 0)) for _ in range(5))]
    meta += [("bad",)] * 3
    ctx.extra["att_distribution"] = hist
    return lines, meta


def att_oracle(ctx, lines, outs, meta):
    """the compiled pose of the attached body is the composition host point o attached frames o body, every orientation
    being the rotation its spelling denotes under the compiler settings of the spec it was WRITTEN in"""
    nfail, maxdev, nok, nerr, nknown = 0, 0.0, 0, 0, 0

    reported = {}

    def fail(key, what, line, out, m):
        nonlocal nfail
        nfail += 1
        reported[key] = reported.get(key, 0) + 1
        if reported[key] <= 2 and len(reported) <= 40:      # at most two replays per failure key
            ctx.oracle_failure("c36:" + key, what, {"line": line, "impl_output": out, "attachment_point": PK[m[1]], "attached": CK[m[2]],
                                                   "outer_frame": m[3], "inner_frame": m[4], "host_degree_eulerseq": [m[5][0], "".join(map(chr, m[5][1]))],
                                                   "child_degree_eulerseq": [m[6][0], "".join(map(chr, m[6][1]))],
                                                   "site_spec_degree_eulerseq": [m[8][0], "".join(map(chr, m[8][1]))] if m[1] == 3 else None,
                                                   "records(outer,point,attached-frame,inner,body)": m[7],
                                                   "replay": "echo '<line>' | <c36_equiv harness>"})

    for line, out, m in zip(lines, outs, meta):
        if m[0] == "bad":
            if out != "bad-op":
                nfail += 1
                ctx.oracle_failure("c36:malformed-accepted", "malformed op accepted", {"line": line, "impl_output": out})
            continue
        _, pk, ck, outer, inner, host, child, recs, mid = m
        name = "attach:%s<-%s" % (PK[pk], CK[ck])
        pc = mid if pk == 3 else host
        if pk == 1 and ck == 0:
            if out != "error attach":
                fail(name + ":accepted", "a body was attached to a body (documented: frames only): " + out[:60], line, out, m)
            continue
        chain = []
        if pk != 1:
            if outer:
                chain.append(rec_pose(recs[0], pc))
            chain.append(rec_pose(recs[1], pc))
        if ck == 1:
            chain.append(rec_pose(recs[2], child))
        if ck != 0 and inner:
            chain.append(rec_pose(recs[3], child))
        chain.append(rec_pose(recs[4], child))
        if any(c is None for c in chain):
            nerr += 1
            if not out.startswith("error"):
                # near-degenerate spellings (excluded from the pose comparison) may legitimately compile
                if any(r["axisangle"][:3] == [0.0, 0.0, 0.0] and r["type"] in (1, 2, 3) for r in recs) or any(c not in LETTERS for c in child[1]):
                    fail(name + ":degenerate-accepted", "a degenerate spelling on the way was accepted: " + out[:60], line, out, m)
            continue
        toks = out.split()
        if len(toks) != 7:
            # unused records may be degenerate without consequence; a used one was excluded above
            fail(name + ":rejected", "valid attachment rejected: " + out[:80], line, out, m)
            continue
        v = [unb(t) for t in toks]
        exp = chain[0]
        for c in chain[1:]:
            exp = compose(exp, c)
        d = max(max(abs(a-b) for a, b in zip(v[:3], exp[0])), mdev(qmat(v[3:]), qmat(exp[1])))
        nok += 1
        if d <= 1e-10:
            maxdev = max(maxdev, d)
        else:
            sp = SPELL[recs[1]["type"]] if pk != 1 else "-"
            if pk == 3 and ((recs[1]["type"] in (1, 4) and mid[0] != host[0]) or (recs[1]["type"] == 4 and mid[1] != host[1])):
                # attachToSite / attachFrameToSite resolve the site's spelling with the compiler of the spec that owns
                # the site NOW (mjs_getSpec), not of the spec it was written in (site->compiler)
                fail("attach:site-of-attached-spec:units", "a site written in a spec with degree=%d eulerseq=%s and attached to a host "
                     "with degree=%d eulerseq=%s is used as attachment point: its %s spelling is resolved with the HOST's settings, "
                     "the attached body is %g away from the site" % (mid[0], "".join(map(chr, mid[1])), host[0],
                                                                     "".join(map(chr, host[1])), sp, d), line, out, m)
                nknown += 1
                continue
            fail(name + ":pose:" + sp, "pose of the attached body deviates by %g from the written-out composition "
                 "(attachment point spelled as %s, host degree=%d, child degree=%d)" % (d, sp, host[0], child[0]), line, out, m)
    ctx.extra["att_oracle"] = {"failures": nfail, "of_which_site_of_attached_spec_units": nknown, "poses_compared": nok,
                               "degenerate_cases": nerr, "max_pose_deviation_of_passing_cases": float("%.3g" % maxdev), "tolerance": 1e-10}


# ------------------------------------------------------------------------------------------ model pairs
PROFILE = {"nbody": (2, 5), "plane": 0.0, "contacts": 0.0, "equalities": 0.0, "frictionloss": 0.0, "limits": 0.0,
           "static_body": 0.3, "mocap": 0.0, "sites": 0.9, "cameras": 0.3, "keys": 0.0, "pairs": 0.0, "excludes": 0.0,
           "free": 0.2, "sleep": 0.0, "sensors": (0, 2), "tendons": 0.2, "islands": 1.0,
           "actuator_kinds": ("motor", "position", "velocity", "general"), "integrators": ("Euler", "implicitfast", "RK4")}


def parse_elems(lines):
    """handles of orientable elements: kind, handle, parent body handle, index of its `set h quat` / `set h pos` line"""
    elems = {}
    for i, l in enumerate(lines):
        w = l.split()
        if w[0] in ("body", "geom", "site", "camera") and len(w) >= 3:
            elems[int(w[1])] = {"kind": w[0], "h": int(w[1]), "parent": int(w[2]), "quat": None, "pos": None, "line": i}
        elif w[0] == "set" and len(w) >= 4 and int(w[1]) in elems:
            if w[2] == "quat":
                elems[int(w[1])]["quat"] = i
            elif w[2] == "pos":
                elems[int(w[1])]["pos"] = i
    return elems


def fmtv(v):
    return " ".join(repr(float(x)) for x in v)


def state_lines(mdl, rng):
    st = mdl.random_state(rng, scale=0.6, perturb=False)
    out = []
    if mdl.nq:
        out.append("qpos " + fmtv(st["qpos"]))
    if mdl.nv:
        out.append("qvel " + fmtv(st["qvel"]))
    if mdl.nu:
        out.append("ctrl " + fmtv([0.5 * x for x in st["ctrl"]]))
    return out


def rewrite_spellings(rng, lines):
    """A: explicit quaternions computed here; B: the same orientations spelled as axisangle / euler / xyaxes (one global
    degree flag and Euler sequence)"""
    elems = parse_elems(lines)
    degree = rng.randint(0, 1)
    seq = [rng.choice(LETTERS) for _ in range(3)]
    k = math.pi / 180 if degree else 1.0
    A, B = list(lines), list(lines)
    head = ["compiler degree %d" % degree, "compiler eulerseq %d %d %d" % tuple(seq)]
    addA, addB = [], []
    for h, e in elems.items():
        if e["kind"] == "geom" and rng.random() < 0.3:
            continue
        kind = rng.choice(("axisangle", "euler", "xyaxes", "keep"))
        if kind == "keep":
            continue
        if kind == "axisangle":
            ax = [rng.gauss(0, 1) * rng.choice((1, 3)) for _ in range(3)]
            ang = rng.uniform(-350, 350) if degree else rng.uniform(-6, 6)
            q = mat2quat(rodrigues(ax, ang * k))
            spell = ["set %d alt.type %d" % (h, E("mjORIENTATION_AXISANGLE")), "set %d alt.axisangle %s" % (h, fmtv(ax + [ang]))]
        elif kind == "euler":
            ang = [rng.uniform(-350, 350) if degree else rng.uniform(-6, 6) for _ in range(3)]
            q = mat2quat(euler_matrix(seq, [a * k for a in ang]))
            spell = ["set %d alt.type %d" % (h, E("mjORIENTATION_EULER")), "set %d alt.euler %s" % (h, fmtv(ang))]
        else:
            xy = [rng.gauss(0, 1) for _ in range(6)]
            q = mat2quat(gram_schmidt(xy[:3], xy[3:]))
            spell = ["set %d alt.type %d" % (h, E("mjORIENTATION_XYAXES")), "set %d alt.xyaxes %s" % (h, fmtv(xy))]
        if e["quat"] is not None:
            A[e["quat"]] = "set %d quat %s" % (h, fmtv(q))
            B[e["quat"]] = "# spelled"
            addB += spell
        else:
            addA.append("set %d quat %s" % (h, fmtv(q)))
            addB += spell
    return head + A + addA, head + B + addB, "spelling:deg%d:%s" % (degree, "".join(map(chr, seq)))


def rewrite_degree(rng, lines, mdl):
    """the same axis-angle / Euler spellings once in degrees and once in radians; `compiler degree` also governs the
    range of hinge / ball joints and ref / springref of hinge joints, which B states in radians"""
    elems = parse_elems(lines)
    jtype = {j["handle"]: j["type"] for j in mdl.joints}
    seq = [rng.choice(LETTERS) for _ in range(3)]
    A, B = list(lines), list(lines)
    addA, addB = [], []
    for h, e in elems.items():
        if rng.random() < 0.4:
            continue
        if rng.random() < 0.5:
            ax = [rng.gauss(0, 1) for _ in range(3)]
            deg = rng.uniform(-350, 350)
            sa = ["set %d alt.type %d" % (h, E("mjORIENTATION_AXISANGLE")), "set %d alt.axisangle %s" % (h, fmtv(ax + [deg]))]
            sb = ["set %d alt.type %d" % (h, E("mjORIENTATION_AXISANGLE")), "set %d alt.axisangle %s" % (h, fmtv(ax + [deg / 180 * math.pi]))]
        else:
            deg = [rng.uniform(-350, 350) for _ in range(3)]
            sa = ["set %d alt.type %d" % (h, E("mjORIENTATION_EULER")), "set %d alt.euler %s" % (h, fmtv(deg))]
            sb = ["set %d alt.type %d" % (h, E("mjORIENTATION_EULER")), "set %d alt.euler %s" % (h, fmtv([d / 180 * math.pi for d in deg]))]
        if e["quat"] is not None:
            A[e["quat"]] = "# spelled"
            B[e["quat"]] = "# spelled"
        addA += sa
        addB += sb
    for i, l in enumerate(lines):
        w = l.split()
        if w[0] == "set" and int(w[1]) in jtype and len(w) >= 4:
            t = jtype[int(w[1])]
            if (w[2] == "range" and t in ("hinge", "ball")) or (w[2] in ("ref", "springref") and t == "hinge"):
                B[i] = "set %s %s %s" % (w[1], w[2], fmtv([float(x) * (math.pi / 180) for x in w[3:]]))
    es = "compiler eulerseq %d %d %d" % tuple(seq)
    return ["compiler degree 1", es] + A + addA, ["compiler degree 0", es] + B + addB, "degree-vs-radian:" + "".join(map(chr, seq))


def rewrite_frames(rng, lines, exact):
    """B wraps elements in frames.  exact: frame = the element's pose, element at the identity inside it (bit-identical
    compiled arrays expected); otherwise a random frame F and the element's pose chosen so that F o pose' is A's pose"""
    elems = parse_elems(lines)
    A, B = list(lines), list(lines)
    addA, addB = [], []
    hmax = max([int(l.split()[1]) for l in lines if l.split()[0] in ("body", "geom", "site", "camera", "joint", "freejoint",
                "actuator", "sensor", "tendon", "equality", "key", "numeric", "light", "pair", "exclude", "mesh", "frame")] + [0]) + 100
    for h, e in elems.items():
        if rng.random() < 0.35:
            continue
        pos = [float(x) for x in lines[e["pos"]].split()[3:]] if e["pos"] is not None else [0.0, 0.0, 0.0]
        quat = [float(x) for x in lines[e["quat"]].split()[3:]] if e["quat"] is not None else [1.0, 0.0, 0.0, 0.0]
        fh = hmax
        hmax += 1
        if exact:
            fp, fq, ip, iq = pos, quat, [0.0, 0.0, 0.0], [1.0, 0.0, 0.0, 0.0]
            newA = None
        else:
            fp, fq = [rng.uniform(-0.4, 0.4) for _ in range(3)], unit_quat(rng)
            ip, iq = [rng.uniform(-0.4, 0.4) for _ in range(3)], unit_quat(rng)
            newA = compose((fp, fq), (ip, iq))
        # the frame lives in the element's parent body and must be created before the element: insert at its creation line
        create = ["frame %d %d" % (fh, e["parent"]), "set %d pos %s" % (fh, fmtv(fp)), "set %d quat %s" % (fh, fmtv(fq))]
        B[e["line"]] = "\n".join(create + [lines[e["line"]], "setframe %d %d" % (h, fh)])
        for key, val, n in (("pos", ip, 3), ("quat", iq, 4)):
            if e[key] is not None:
                B[e[key]] = "set %d %s %s" % (h, key, fmtv(val))
            else:
                addB.append("set %d %s %s" % (h, key, fmtv(val)))
        if newA is not None:
            for key, val in (("pos", newA[0]), ("quat", newA[1])):
                if e[key] is not None:
                    A[e[key]] = "set %d %s %s" % (h, key, fmtv(val))
                else:
                    addA.append("set %d %s %s" % (h, key, fmtv(val)))
    flat = []
    for l in B:
        flat += l.split("\n")
    return A + addA, flat + addB, "frames:" + ("identity-child" if exact else "random")


def gen_pairs(ctx):
    rng = ctx.rng
    thorough = ctx.tier == "thorough"
    nmodel = 300 if thorough else 20
    blocks, tags = [], []

    def add(kind, A, B, st, nstep=200):
        blocks.append("pair %d %d\n%s%s\nend\n%s\nend\n" % (nstep, len(st), "".join(s + "\n" for s in st), "\n".join(A), "\n".join(B)))
        tags.append(kind)

    for i in range(nmodel):
        mdl = ModelGen(rng, PROFILE).make()
        # joint / tendon limits switch constraints on and off: a rounding-level difference between two equivalent
        # descriptions can flip an activation and is then amplified without bound, so the trajectory comparison runs on
        # limit-free models (limits do not interact with any of the rewritings)
        lines = [l for l in mdl.lines if not (l.startswith("set ") and l.split()[2] in ("limited", "range"))]
        st = state_lines(mdl, rng)
        A, B, tag = rewrite_spellings(rng, lines)
        add(tag, A, B, st)
        A, B, tag = rewrite_degree(rng, lines, mdl)
        add(tag, A, B, st)
        A, B, tag = rewrite_frames(rng, lines, exact=False)
        add(tag, A, B, st)
        A, B, tag = rewrite_frames(rng, lines, exact=True)
        add(tag, A, B, st)
        add("fusestatic", ["compiler fusestatic 0"] + lines, ["compiler fusestatic 1"] + lines, st)
        # visual geoms (contype = conaffinity = 0, the profile's default) carry mass: give B's discarded geoms no role in
        # the inertia by making the body inertial explicit in both
        add("discardvisual", ["compiler discardvisual 0", "compiler inertiafromgeom 0"] + explicit_inertia(rng, mdl, lines),
            ["compiler discardvisual 1", "compiler inertiafromgeom 0"] + explicit_inertia(None, mdl, lines, reuse=True), st)
        # setconst
        edits = gen_edits(rng, mdl)
        if edits:
            # springlength = -1 ("use the length at qpos0") is resolved at compile time and cannot be re-derived by
            # mj_setConst: give every tendon an explicit spring length in this rewriting
            sl = ["set %s springlength 0.2 0.2" % l.split()[1] for l in lines if l.split()[0] == "tendon"]
            blocks.append("setconst 200 %d\n%s%s\nend\n%s\nendedit\n" % (len(st), "".join(s + "\n" for s in st), "\n".join(lines + sl), "\n".join(edits)))
            tags.append("setconst")
    for i in range(60 if thorough else 8):
        blocks.append("defaults %d\n" % rng.randint(0, 2 ** 30))
        tags.append("defaults")
        blocks.append("attach %d\n" % rng.randint(0, 2 ** 30))
        tags.append("attach")
    # every entry point of mjs_attach (frame / site <- body / frame / model, body <- frame / model) x every spelling of
    # the attachment point, each at least once per run; the rest of the scenario is random (gen_attach_case)
    combos = [(pk, ck) for pk in (0, 2) for ck in (0, 1, 2)] + [(1, 1), (1, 2)]
    hist = {}
    for i in range(480 if thorough else 64):
        pk, ck = combos[i % 8]
        tag, A, Bx, Bq, nv = gen_attach_case(rng, {"pk": pk, "ck": ck, "ptype": (i // 8) % 5})
        st = "qvel " + fmtv([rng.uniform(-1, 1) for _ in range(nv)])
        for kind, B in (("attach", Bx), ("attachq", Bq)):
            if B is not None:
                blocks.append("apair 200 1\n%s\n%s\n%s\n" % (st, "\n".join(A), "\n".join(B)))
                tags.append(kind + tag[6:])
        for part in tag.split(":")[1:]:
            hist[part] = hist.get(part, 0) + 1
    ctx.extra["attach_scenarios"] = hist
    return blocks, tags


_INERTIA_CACHE = {}


def explicit_inertia(rng, mdl, lines, reuse=False):
    """explicit inertial frame for every body so that discarding visual geoms does not change the dynamics"""
    key = id(mdl)
    if not reuse:
        vals = {}
        for b in mdl.bodies:
            m = rng.uniform(0.5, 3.0)
            i = sorted((rng.uniform(0.01, 0.05) for _ in range(3)), reverse=True)
            i[0] = min(i[0], 0.9 * (i[1] + i[2]))
            vals[b["handle"]] = (m, [rng.uniform(-0.05, 0.05) for _ in range(3)], i)
        _INERTIA_CACHE[key] = vals
    vals = _INERTIA_CACHE[key]
    out = list(lines)
    for h, (m, ip, i) in vals.items():
        out += ["set %d mass %r" % (h, m), "set %d ipos %s" % (h, fmtv(ip)), "set %d inertia %s" % (h, fmtv(i)),
                "set %d explicitinertial 1" % h]
    return out


def gen_edits(rng, mdl):
    edits = []
    free = {j["body"] for j in mdl.joints if j["type"] == "free"}
    for b in mdl.bodies:
        # the pose of a free body lives in qpos0, which a runtime edit of body_pos does not (and should not) touch
        if rng.random() < 0.5 and b["name"] not in free:
            edits.append("edit body %s pos %s" % (b["name"], fmtv([rng.uniform(-0.5, 0.5), rng.uniform(-0.5, 0.5), rng.uniform(0.1, 0.8)])))
    for j in mdl.joints:
        r = rng.random()
        if r < 0.4:
            edits.append("edit joint %s armature %r" % (j["name"], rng.uniform(0.01, 0.5)))
        elif r < 0.6 and j["type"] != "free":
            edits.append("edit joint %s stiffness %r" % (j["name"], rng.uniform(0.5, 10)))
    return edits


# ------------------------------------------------------------------------------------------ attach pairs (apair)
class Desc:
    """one spec in the line format of harness/mjbuild.h"""
    def __init__(self, comp):
        self.lines = ["compiler degree %d" % comp[0], "compiler eulerseq %d %d %d" % tuple(comp[1])]
        self.h = 0

    def add(self, kind, parent=None, name=None):
        self.h += 1
        self.lines.append("%s %d" % (kind, self.h) + ("" if parent is None else " %d" % parent))
        if name:
            self.lines.append("name %d %s" % (self.h, name))
        return self.h

    def set(self, h, field, vals):
        self.lines.append("set %d %s %s" % (h, field, vals if isinstance(vals, str) else fmtv(vals)))


ALTNAME = {1: "axisangle", 2: "xyaxes", 3: "zaxis", 4: "euler"}


def emit_pose(D, h, rec, comp, mode, pre=""):
    """pose of an element: as spelled (in the units of `comp`) or, mode 'quat', as the quaternion computed in Python"""
    D.set(h, pre + "pos", rec["pos"])
    if mode == "spelled":
        if rec["type"] == 0:
            D.set(h, pre + "quat", rec["quat"])
        else:
            D.set(h, pre + "alt.type", "%d" % rec["type"])
            D.set(h, pre + "alt." + ALTNAME[rec["type"]], rec[ALTNAME[rec["type"]]])
    else:
        D.set(h, pre + "quat", rec_pose(rec, comp)[1])


def emit_node(D, node, body_h, frame_h, comp, mode, deco, hook=None):
    """write a payload node into body `body_h`, inside frame `frame_h` (None: directly).  hook = {"site": node, "emit": f}:
    f(D, body handle, frame handle of the site) is called once the body that holds that site has been written"""
    k = node["kind"]
    if k == "frame":
        h = D.add("frame", body_h, deco(node["name"]))
        emit_pose(D, h, node["rec"], comp, mode)
        if frame_h is not None:
            D.lines.append("setframe %d %d" % (h, frame_h))
        for c in node["children"]:
            emit_node(D, c, body_h, h, comp, mode, deco, hook)
        return
    h = D.add(k, body_h, deco(node["name"]))
    if hook is not None and node is hook["site"]:
        hook["found"] = (body_h, frame_h)
    if k == "joint":
        for f, v in node["sets"]:
            D.set(h, f, v)
        for f, v in node["unit"].items():
            D.set(h, f, [x * math.pi / 180 for x in v] if (mode == "quat" and comp[0]) else v)
    else:
        emit_pose(D, h, node["rec"], comp, mode)
        for f, v in node["sets"]:
            D.set(h, f, v)
    if frame_h is not None:
        D.lines.append("setframe %d %d" % (h, frame_h))
    if k == "body":
        if node.get("inertial"):
            it = node["inertial"]
            D.set(h, "mass", [it["mass"]])
            D.set(h, "inertia", it["inertia"])
            D.set(h, "explicitinertial", "1")
            emit_pose(D, h, it["rec"], comp, mode, pre="i")
        for c in node["children"]:
            emit_node(D, c, h, None, comp, mode, deco, hook)
        if hook is not None and hook.get("found") and hook["found"][0] == h:
            hook["emit"](D, h, hook["found"][1])
            hook["found"] = None


def walk(nodes):
    for nd in nodes:
        yield nd
        yield from walk(nd.get("children", ()))


def payload(rng, deg, tag, single):
    """a small subtree written in a spec with compiler.degree = deg: bodies (every pose spelled at random, explicit
    inertial frames with a spelled ialt), hinge / slide / ball joints whose ref / springref / range are in the spec's
    angle unit, geoms, sites, cameras, frames inside bodies; `single`: exactly one top-level body"""
    cnt = {"n": 0}

    def nm(kind):
        cnt["n"] += 1
        return "%s%s%d" % (tag, kind, cnt["n"])

    def ang(x):     # an angle of x degrees in the spec's unit
        return x if deg else x * math.pi / 180

    def leaf(kind):
        nd = {"kind": kind, "name": nm(kind[0]), "rec": rand_rec(rng, deg), "sets": [], "children": []}
        nd["rec"]["pos"] = [0.3 * x for x in nd["rec"]["pos"]]
        if kind == "geom":
            nd["sets"] = [("type", "%d" % rng.choice((E("mjGEOM_BOX"), E("mjGEOM_CAPSULE"), E("mjGEOM_ELLIPSOID")))),
                          ("size", [rng.uniform(0.03, 0.1), rng.uniform(0.04, 0.15), rng.uniform(0.03, 0.1)]),
                          ("contype", "0"), ("conaffinity", "0"), ("density", [rng.uniform(300, 2000)])]
        elif kind == "site":
            nd["sets"] = [("size", [0.02])]
        return nd

    def joint():
        jt = rng.choice(("hinge", "hinge", "slide", "ball"))
        nd = {"kind": "joint", "name": nm("j"), "jtype": jt, "children": [], "unit": {},
              "sets": [("type", "%d" % E("mjJNT_" + jt.upper())), ("pos", [rng.uniform(-0.1, 0.1) for _ in range(3)]),
                       ("axis", [rng.uniform(-1, 1), rng.uniform(-1, 1), rng.uniform(0.2, 1)]), ("damping", [rng.uniform(0.05, 0.5)])]}
        if jt == "hinge":
            ref = rng.uniform(-60, 60) if rng.random() < 0.7 else 0.0
            nd["unit"]["ref"] = [ang(ref)]
            if rng.random() < 0.6:
                nd["sets"].append(("stiffness", [rng.uniform(0.5, 5)]))
                nd["unit"]["springref"] = [ang(ref + rng.uniform(-40, 40))]
            if rng.random() < 0.6:      # wide limits: never reached within the horizon, but compiled into jnt_range
                nd["sets"].append(("limited", "1"))
                nd["unit"]["range"] = [ang(ref - rng.uniform(250, 340)), ang(ref + rng.uniform(250, 340))]
        elif jt == "ball" and rng.random() < 0.6:
            nd["sets"].append(("limited", "1"))
            nd["unit"]["range"] = [0.0, ang(rng.uniform(140, 175))]
        elif jt == "slide" and rng.random() < 0.5:
            nd["sets"].append(("limited", "1"))
            nd["sets"].append(("range", [-rng.uniform(4, 6), rng.uniform(4, 6)]))
        return nd

    def body(depth):
        b = {"kind": "body", "name": nm("b"), "rec": rand_rec(rng, deg), "sets": [], "children": []}
        if rng.random() < 0.3:
            i = sorted((rng.uniform(0.01, 0.05) for _ in range(3)), reverse=True)
            i[0] = min(i[0], 0.9 * (i[1] + i[2]))
            b["inertial"] = {"mass": rng.uniform(0.5, 2.0), "inertia": i, "rec": rand_rec(rng, deg)}
            b["inertial"]["rec"]["pos"] = [0.1 * x for x in b["inertial"]["rec"]["pos"]]
        inner = None
        if rng.random() < 0.4:
            inner = {"kind": "frame", "name": nm("f"), "rec": rand_rec(rng, deg), "sets": [], "children": []}
        kids = [joint(), leaf("geom")]
        if rng.random() < 0.4:
            kids.append(leaf("geom"))
        kids.append(leaf("site"))
        if rng.random() < 0.3:
            kids.append(leaf("camera"))
        if depth < 2 and rng.random() < (0.7 if depth == 0 else 0.4):
            kids.append(body(depth + 1))
        if inner is not None:
            b["children"].append(inner)
        for kd in kids:
            (inner["children"] if inner is not None and rng.random() < 0.5 else b["children"]).append(kd)
        return b

    tops = [body(0)]
    if not single:
        if rng.random() < 0.5:
            tops.append(body(1))
        if rng.random() < 0.5:
            fr = {"kind": "frame", "name": nm("f"), "rec": rand_rec(rng, deg), "sets": [], "children": [body(1)]}
            if rng.random() < 0.5:
                fr["children"].append(leaf("site"))
            tops.append(fr)
        if rng.random() < 0.4:
            tops.append(leaf("site"))
        if rng.random() < 0.3:
            tops.append(leaf("geom"))
    return tops


def refs_lines(D, nodes, deco, rng_choices):
    """actuators and sensors that refer to payload elements by name (the attachment has to re-target them)"""
    for kind, name, target, extra in rng_choices:
        if kind == "actuator":
            h = D.add("actuator", None, deco(name))
            D.set(h, "trntype", "%d" % E("mjTRN_JOINT"))
            D.set(h, "target", deco(target))
            D.set(h, "gear", [extra])
        else:
            h = D.add("sensor", None, deco(name))
            D.set(h, "type", "%d" % E("mjSENS_" + extra))
            D.set(h, "objtype", "%d" % (E("mjOBJ_JOINT") if extra == "JOINTPOS" else E("mjOBJ_SITE")))
            D.set(h, "objname", deco(target))


def pick_refs(rng, nodes, tag):
    out = []
    js = [n for n in walk(nodes) if n["kind"] == "joint" and n["jtype"] != "ball"]
    ss = [n for n in walk(nodes) if n["kind"] == "site"]
    if js and rng.random() < 0.7:
        out.append(("actuator", tag + "act", rng.choice(js)["name"], rng.uniform(0.5, 2)))
    if js and rng.random() < 0.5:
        out.append(("sensor", tag + "sj", rng.choice(js)["name"], "JOINTPOS"))
    if ss and rng.random() < 0.7:
        out.append(("sensor", tag + "sp", rng.choice(ss)["name"], rng.choice(("FRAMEPOS", "FRAMEZAXIS", "FRAMEXAXIS"))))     # not FRAMEQUAT: q and -q are the same orientation
    return out


def ndof(nodes):
    return sum({"hinge": 1, "slide": 1, "ball": 3}[n["jtype"]] for n in walk(nodes) if n["kind"] == "joint")


def gen_attach_case(rng, force=None):
    """one attachment scenario -> (tag, attach description, inline description with the same spellings or None,
    inline description with Python-computed quaternions and radians, nv)"""
    force = force or {}
    pk = force.get("pk", rng.randint(0, 2))                      # 0 frame, 1 body, 2 site
    ck = force.get("ck", rng.randint(1, 2) if pk == 1 else rng.randint(0, 2))
    ptype = force.get("ptype", rng.randint(0, 4))                # spelling of the attachment point
    same = rng.random() < 0.35                                   # child written with the host's compiler settings
    host = (rng.randint(0, 1), [rng.choice(LETTERS) for _ in range(3)])
    # otherwise mostly the other angle unit (the documented use: host in radians, child in degrees or vice versa)
    child = host if same else (1 - host[0] if rng.random() < 0.75 else host[0], [rng.choice(LETTERS) for _ in range(3)])
    deepcopy = rng.randint(0, 1)
    pre, suf = rng.choice((("a_", ""), ("", "_x"), ("p", "s"), ("", "")))
    outer = rng.random() < 0.4 and pk != 1
    where = rng.choice(("base", "hb2", "world")) if pk != 0 or True else "base"
    # second use of the same child spec at a second attachment point (needs a deep copy), or a grandchild spec attached to
    # a site / frame of the child BEFORE the child is attached to the host
    twice = deepcopy == 1 and (pre or suf) and rng.random() < 0.3
    grand = (not twice) and rng.random() < 0.3
    tops = payload(rng, child[0], "c", single=(ck == 0))
    refs = pick_refs(rng, tops, "c")
    prec = rand_rec(rng, host[0], ty=ptype)
    orec = rand_rec(rng, host[0])
    grec = rand_rec(rng, child[0], ty=rng.choice((1, 4, 1, 4, 0, 2, 3)))      # the attached frame: mostly unit-dependent
    p2rec = rand_rec(rng, host[0])
    gcomp = child if rng.random() < 0.5 else (rng.randint(0, 1), [rng.choice(LETTERS) for _ in range(3)])
    gtops = payload(rng, gcomp[0], "g", single=True) if grand else []
    gsite = None
    if grand:
        cands = [n for b in walk(tops) if b["kind"] == "body" for n in walk(b["children"]) if n["kind"] == "site"]
        gsite = rng.choice(cands) if cands else None
        if gsite is None:
            grand, gtops = False, []
    gpre = "g_"
    hgear = rng.uniform(0.5, 2)

    def deco(n):
        return pre + n + suf

    def deco2(n):
        return "q" + n + "r"

    def host_part(D, mode):
        """host elements; returns handles (body of the attachment point, frame handle or None, second point likewise)"""
        base = D.add("body", 0, "base")
        D.set(base, "pos", [0, 0, 1])
        j = D.add("joint", base, "hj")
        D.set(j, "type", "%d" % E("mjJNT_HINGE"))
        D.set(j, "axis", [0, 1, 0])
        g = D.add("geom", base, "hg")
        D.set(g, "size", [0.1])
        D.set(g, "contype", "0")
        D.set(g, "conaffinity", "0")
        hb2 = D.add("body", base, "hb2")
        D.set(hb2, "pos", [0.2, 0.1, -0.3])
        j2 = D.add("joint", hb2, "hj2")
        D.set(j2, "type", "%d" % E("mjJNT_SLIDE"))
        D.set(j2, "axis", [1, 0, 0.5])
        g2 = D.add("geom", hb2, "hg2")
        D.set(g2, "size", [0.07])
        D.set(g2, "contype", "0")
        D.set(g2, "conaffinity", "0")
        pb = {"base": base, "hb2": hb2, "world": 0}[where]
        fo = None
        if outer:
            fo = D.add("frame", pb, "hfo")
            emit_pose(D, fo, orec, host, mode)
        pt = None
        if pk == 0:
            pt = D.add("frame", pb, "hpoint")
            emit_pose(D, pt, prec, host, mode)
            if fo is not None:
                D.lines.append("setframe %d %d" % (pt, fo))
        elif pk == 2:
            st = D.add("site", pb, "hpoint")
            emit_pose(D, st, prec, host, mode)
            if fo is not None:
                D.lines.append("setframe %d %d" % (st, fo))
        f2 = None
        if twice:
            f2 = D.add("frame", base, "hpoint2")
            emit_pose(D, f2, p2rec, host, mode)
        a = D.add("actuator", None, "hact")
        D.set(a, "trntype", "%d" % E("mjTRN_JOINT"))
        D.set(a, "target", "hj")
        D.set(a, "gear", [hgear])
        return pb, fo, pt, f2, base

    # ---- A: the specs joined by mjs_attach
    A = Desc(host)
    host_part(A, "spelled")
    C = Desc(child)
    cg = None
    if ck == 1:
        cg = C.add("frame", 0, "cg")
        emit_pose(C, cg, grec, child, "spelled")
    for nd in tops:
        emit_node(C, nd, 0, cg, child, "spelled", lambda n: n)
    refs_lines(C, tops, lambda n: n, refs)
    a_lines = A.lines + ["end", "child"] + C.lines + ["end"]
    if grand:
        G = Desc(gcomp)
        for nd in gtops:
            emit_node(G, nd, 0, None, gcomp, "spelled", lambda n: n)
        a_lines += ["child"] + G.lines + ["end", "attach 1 site %s 2 body %s %s ~" % (gsite["name"], gtops[0]["name"], gpre)]
    a_lines.append("deepcopy 0 %d" % deepcopy)
    cname = {0: tops[0]["name"], 1: "cg", 2: "~"}[ck]
    pname = where if pk == 1 else "hpoint"
    a_lines.append("attach 0 %s %s 1 %s %s %s %s" % (PK[pk], pname, CK[ck], cname, pre or "~", suf or "~"))
    if twice:
        a_lines.append("attach 0 frame hpoint2 1 %s %s q r" % (CK[ck], cname))
    a_lines.append("done")

    # ---- inline descriptions
    def inline(mode):
        hcomp = host if mode == "spelled" else (0, host[1])
        D = Desc(hcomp)
        pb, fo, pt, f2, base = host_part(D, mode)
        uses = [(deco, pb, pt if pk == 0 else None)] + ([(deco2, base, f2)] if twice else [])
        for dc, body_h, point_frame in uses:
            fr = point_frame
            if dc is deco and pk == 2:      # the site written out as a frame at the same place
                fr = D.add("frame", body_h)
                emit_pose(D, fr, prec, host, mode)
                if fo is not None:
                    D.lines.append("setframe %d %d" % (fr, fo))
            if ck == 1:
                g = D.add("frame", body_h, dc("cg"))
                emit_pose(D, g, grec, child, mode)
                if fr is not None:
                    D.lines.append("setframe %d %d" % (g, fr))
                fr = g
            elif ck == 2 and mode == "spelled":
                # mjs_attach wraps the children of the attached model's world in an identity frame; accumulating an
                # identity frame re-normalises quaternions (not bit-neutral), so the exact inline description has it too
                g = D.add("frame", body_h)
                if fr is not None:
                    D.lines.append("setframe %d %d" % (g, fr))
                fr = g
            hook = None
            if grand:
                # the grandchild's root body mounted at the child's site: a frame with the site's pose in the site's body
                def mount(D, bh, sfh, dc=dc):
                    f = D.add("frame", bh)
                    emit_pose(D, f, gsite["rec"], child, mode)
                    if sfh is not None:
                        D.lines.append("setframe %d %d" % (f, sfh))
                    emit_node(D, gtops[0], bh, f, gcomp, mode, lambda n: dc(gpre + n))
                hook = {"site": gsite, "emit": mount}
            for nd in tops:
                emit_node(D, nd, body_h, fr, child, mode, dc, hook)
        for dc, _, _ in uses:
            refs_lines(D, tops, dc, refs)
        return D.lines + ["end", "done"]

    tag = "attach:%s<-%s:%s:%s%s%s%s" % (PK[pk], CK[ck], SPELL[ptype] if pk != 1 else "-", "same-compiler" if child == host else
                                        "deg%d->deg%d" % (child[0], host[0]), ":deepcopy" if deepcopy else "", ":twice" if twice else "",
                                        ":nested" if grand else "")
    nv = 2 + ndof(tops) * (2 if twice else 1) + ndof(gtops)
    exact = inline("spelled") if (child == host and (not grand or gcomp == host)) else None
    return tag, a_lines, exact, inline("quat"), nv


def site_of_attached_spec_repro():
    """minimal input of the finding c36:attach:site-of-attached-spec:units (feed to the c36_equiv harness): a spec with
    compiler.degree = 1 holding a site spelled euler = "90 0 0" is attached to a host with degree = 0, then a body is attached
    to that site; description B is the written-out model.  Expected `dev0` ~ 1e-16, observed 0.309."""
    return """apair 10 0
compiler degree 0
body 1 0
name 1 base
set 1 pos 0 0 1
joint 2 1
set 2 type 3
geom 3 1
set 3 size 0.1
frame 4 1
name 4 hf
end
child
compiler degree 1
body 1 0
name 1 mid
geom 2 1
set 2 size 0.05
site 3 1
name 3 ms
set 3 pos 0.1 0.2 0.3
set 3 alt.type 4
set 3 alt.euler 90 0 0
end
child
body 1 0
name 1 leaf
set 1 pos 0 0 0.5
geom 2 1
set 2 size 0.05
end
attach 0 frame hf 1 body mid a_ ~
attach 0 site a_ms 2 body leaf b_ ~
done
compiler degree 0
body 1 0
name 1 base
set 1 pos 0 0 1
joint 2 1
set 2 type 3
geom 3 1
set 3 size 0.1
frame 4 1
name 4 hf
body 5 1
name 5 a_mid
setframe 5 4
geom 6 5
set 6 size 0.05
site 7 5
name 7 a_ms
set 7 pos 0.1 0.2 0.3
set 7 quat 0.7071067811865476 0.7071067811865476 0 0
frame 8 5
set 8 pos 0.1 0.2 0.3
set 8 quat 0.7071067811865476 0.7071067811865476 0 0
body 9 5
name 9 b_leaf
set 9 pos 0 0 0.5
setframe 9 8
geom 10 9
set 10 size 0.05
end
done"""


# rewritings after which every compiled array must be bit-identical (the compile performs the same float operations or
# operations that are exact: x * 1, x + 0)
EXACT_STATIC = ("defaults", "attach", "frames:identity-child", "setconst")


def pairs_oracle(ctx, impl):
    blocks, tags = gen_pairs(ctx)
    r = common.sh([impl], inp="".join(blocks), timeout=3000)
    outs = r.stdout.split("\n")
    if outs and outs[-1] == "":
        outs.pop()
    if r.returncode != 0 or len(outs) != len(blocks):
        idx = min(len(outs), len(blocks) - 1)
        ctx.oracle_failure("c36:pairs:crash", "c36_equiv crashed (rc=%s) at block %d (%s)" % (r.returncode, idx, tags[idx]),
                           {"block": blocks[idx][:6000], "stderr": r.stderr[-400:]})
        return
    stats, nfail, nerr, reported = {}, 0, 0, {}
    for blk, tag, out in zip(blocks, tags, outs):
        kind = tag.split(":")[0] + (":" + tag.split(":")[1] if tag.startswith("frames") else "")
        s = stats.setdefault(kind, {"n": 0, "maxdev": 0.0, "maxdev_initial_pose": 0.0, "static_same": 0, "errors": 0})
        m = re.match(r"maxdev=(\S+) dev0=(\S+) nmatched=(\d+) nqA=(\d+) nqB=(\d+) numdev=(\S+) unstable=(\d+) refs=(\S+) static=(\S+)", out)
        mq = re.search(r" amp=(\S+) qaccm=(\S+)", out)
        amp, qaccm = (float(mq.group(1)), float(mq.group(2))) if mq else (0.0, 0.0)
        rp = {"rewriting": tag, "impl_output": out, "block": blk[:30000], "replay": "feed the block to <c36_equiv harness>"}
        if not m:
            s["errors"] += 1
            nerr += 1
            if not out.startswith("error"):
                ctx.oracle_failure("c36:pairs:format", "unexpected output " + out[:100], rp)
            elif "A:ok" in out or "B:ok" in out or tag == "defaults" or tag.startswith("attach"):
                # one description compiles and its rewriting does not: the rewriting changed the meaning
                nfail += 1
                if nfail <= 6:
                    ctx.oracle_failure("c36:%s:one-side-fails" % kind, "only one of the two equivalent descriptions compiles: " + out[:200], rp)
            continue
        ctx.count(blk)
        dev, dev0, nmatched, nqa, nqb, numdev, unstable, refs, static = (float(m.group(1)), float(m.group(2)), int(m.group(3)),
                                                                         int(m.group(4)), int(m.group(5)), float(m.group(6)),
                                                                         int(m.group(7)), m.group(8), m.group(9))
        if unstable:
            # the generated model blows up (bad qacc / automatic reset) within the horizon: trajectories are not comparable;
            # the initial pose, the references and the exact static arrays still are
            s["unstable"] = s.get("unstable", 0) + 1
            dev = 0.0
        s["n"] += 1
        s["maxdev"] = max(s["maxdev"], dev)
        if not unstable:
            s["max_qacc_dev_at_matched_states"] = max(s.get("max_qacc_dev_at_matched_states", 0.0), qaccm)
        s["maxdev_initial_pose"] = max(s["maxdev_initial_pose"], dev0)
        if kind.startswith("attach"):
            s["maxdev_compiled_values"] = max(s.get("maxdev_compiled_values", 0.0), numdev)
        if static == "same":
            s["static_same"] += 1
        bad = None
        if refs != "same":
            # a tendon / actuator / sensor of B refers to an object with a different NAME than in A
            bad = ("rebound-reference", "by-name references (%s) point to differently named objects in the two compiled models "
                   "(trajectory deviation %g)" % (refs, dev))
        elif nqa != nqb:
            bad = ("dofs", "the two descriptions have different numbers of coordinates (%d vs %d)" % (nqa, nqb))
        elif not (dev0 <= TOL_POSE0):
            bad = ("initial-pose", "poses of kept bodies / sites in the initial configuration deviate by %g (> %g)" % (dev0, TOL_POSE0))
        elif kind in TOL_QACC_MATCHED and not unstable and not (qaccm <= TOL_QACC_MATCHED[kind]):
            bad = ("acceleration-at-matched-state", "accelerations of the two compiled models at the same state deviate by %g (> %g)"
                   % (qaccm, TOL_QACC_MATCHED[kind]))
        elif not (dev <= TOL_KIND.get(kind, TOL_TRAJ)):
            bad = ("trajectory", "poses of kept bodies / sites deviate by %g (> %g) within 200 steps" % (dev, TOL_KIND.get(kind, TOL_TRAJ)))
        elif kind in EXACT_STATIC and static != "same":
            bad = ("static", "compiled arrays differ although the rewriting is exact: " + static[:200])
        elif kind.startswith("attach") and any(re.fullmatch(r"n[A-Za-z0-9]+", t) and t != "names" for t in static.split(",")):
            bad = ("elements", "the attached and the written-out model do not have the same numbers of elements: " + static[:200])
        elif kind.startswith("attach") and not (numdev <= TOL_ATTACH_STATIC):
            bad = ("compiled-values", "compiled positions / orientations / joint references / ranges / inertias deviate by %g (> %g)"
                   % (numdev, TOL_ATTACH_STATIC))
        elif nmatched == 0 and nqb > 0:     # jointed bodies are never fused / discarded: their names must be found
            bad = ("nothing-compared", "no body name of B exists in A")
        if bad:
            nfail += 1
            key = "c36:%s:%s" % (kind, bad[0])
            reported[key] = reported.get(key, 0) + 1
            if reported[key] <= 2:       # at most two replays per failure key
                ctx.oracle_failure(key, "%s: %s" % (tag, bad[1]), rp)
    for k in stats:
        stats[k]["maxdev"] = float("%.3g" % stats[k]["maxdev"])
        stats[k]["maxdev_initial_pose"] = float("%.3g" % stats[k]["maxdev_initial_pose"])
    ctx.extra["pair_stats"] = stats
    ctx.extra["pair_failures"] = nfail
    ctx.oblige("generated description pairs compile (errors %d of %d)" % (nerr, len(blocks)), "generator", nerr * 4 <= len(blocks), "")
    ctx.sample({"rewriting": tags[0], "result": outs[0]})
    ctx.sample({"rewriting": tags[4], "result": outs[4]})


def run(ctx):
    ctx.rule = ("orient lines (type x degree x Euler sequence incl. invalid letters, degenerate axes, exact frames per branch), "
                "frame / frame2 lines, att lines (attachment point frame / body / site / site of an attached spec x attached body / "
                "frame / model x spelling of every pose on the way x degree and eulerseq of host, child and site spec x nesting), "
                "model pairs per rewriting (spelling, degree, frames random / identity-child, fusestatic, "
                "discardvisual, setconst, defaults, attach: every mjs_attach entry point x spelling of the attachment point x "
                "same / different compiler x deep copy x prefix / suffix x attached twice x nested attachment); "
                "a case is distinct by its full text; non-trivial = accepted op")
    r = common.sh([sys.executable, os.path.join(common.VERIF, "translate", "c35_userutil.py")], timeout=900)
    ctx.oblige("translate/c35_userutil.py regenerates lean/MjProof/Gen/UserUtil.lean from the working tree", "translator",
               r.returncode == 0, (r.stdout + r.stderr)[-1500:])
    mp = os.path.join(common.LEAN, "MjProof", "Gen", "userutil_manifest.json")
    manifest = json.load(open(mp)) if os.path.exists(mp) else {"kernels": {}, "refused": {}}
    for k in KERNELS:
        ctx.oblige("c2lean translates %s" % k, "translator", k in manifest["kernels"], manifest.get("refused", {}).get(k, ""))
    ctx.lean_props(THEOREMS)
    drv = ctx.driver("drv_c36")
    impl = ctx.harness("harness/c/c36_equiv.c", "c36_equiv", deps=["harness/mjbuild.h"])
    if not (drv and impl):
        return
    lines, meta = gen_orient(ctx)
    ctx.differential("ResolveOrientation / frame accumulation model vs mjs_resolveOrientation and compiled frames, bitwise",
                     [drv], [impl], lines, keyf=lambda l: l if l.split()[0] in ("orient", "frame", "frame2") and len(l.split()) > 10 else None)
    rc, outs, err = ctx.run_lines([impl], lines)
    if rc != 0 or len(outs) != len(lines):
        ctx.oracle_failure("c36:crash", "c36_equiv crashed (rc=%s)" % rc, {"stderr": err[-400:]})
        return
    orient_oracle(ctx, lines, outs, meta)
    ctx.sample({"op": lines[7][:200], "impl_and_model_output": outs[7]})
    alines, ameta = gen_att(ctx)
    ctx.differential("mjs_attach pose model (Model/Attach.lean: dispatch on attachment point x attached element, site frame, "
                     "world frame of an attached model, per-origin compiler) vs mjs_attach + mj_compile, bitwise",
                     [drv], [impl], alines, keyf=lambda l: l if l.startswith("att ") and len(l.split()) == 137 else None)
    rc, aouts, err = ctx.run_lines([impl], alines)
    if rc != 0 or len(aouts) != len(alines):
        ctx.oracle_failure("c36:crash", "c36_equiv crashed on att lines (rc=%s)" % rc, {"stderr": err[-400:]})
        return
    att_oracle(ctx, alines, aouts, ameta)
    ctx.sample({"op": alines[3][:160] + " ...", "impl_and_model_output": aouts[3]})
    pairs_oracle(ctx, impl)
    ctx.extra["tolerances"] = {"trajectory_relative": TOL_TRAJ, "rotation_matrix": TOL_ROT * 20}
    if ctx.tier == "thorough":
        ctx.leanchecker(["MjProof.Props.C36"])
