"""C42 property oracle: independent extraction (regular expressions / xml.etree, nothing shared with the Lean model or with
the generators) of the facts stated by each generated artefact, compared with the schema as parsed by the C41 Lean model
(canonical dump read by c41.DumpReader).  Every check returns a list of (key, message) failures.

Schema dictionaries (c41.DumpReader):
  enum    {name, ctype, doc, line, items [(kw, const)]}
  group   {name, variant, members}
  element {name, spec, facets [(k, v)], doc, members}
  member  ("attr", a) | ("use", group, line) | ("child", name, card, doc, line) | ("const", field, value, doc, line)
          | ("con", kind, bundles, doc, line)
  attr    {name, type, target, lo, hi (None | int | str), default None | ("f", x) | ("s", str) | ("v", [x]), facets, doc}
  facet payload: True | str | ("f", x)
"""
import math
import re
import xml.etree.ElementTree as ET

NUMERIC = ("double", "float", "int")
XS = "{http://www.w3.org/2001/XMLSchema}"


class Sch:
    def __init__(self, s):
        self.s = s
        self.enums = {e["name"]: e for e in s["enums"]}
        self.groups = {g["name"]: g for g in s["groups"]}
        self.elements = {e["name"]: e for e in s["elements"]}

    def expand(self, members, stack=()):
        out = []
        for m in members:
            if m[0] == "attr":
                out.append(m[1])
            elif m[0] == "use" and m[1] in self.groups and m[1] not in stack:
                out += self.expand(self.groups[m[1]]["members"], stack + (m[1],))
        return out

    def attrs(self, el, project=False):
        a = self.expand(el["members"])
        if project:
            a = [x for x in a if x["name"] not in ("name", "class") and not truthy(facet(x, "nodefault"))]
        return a

    def children(self, el):
        return [m for m in el["members"] if m[0] == "child"]

    def constraints(self, el):
        """own constraints plus those of transitively used groups (as a multiset; order is not a fact)"""
        out = [m for m in el["members"] if m[0] == "con"]
        seen, todo = set(), [m[1] for m in el["members"] if m[0] == "use"]
        while todo:
            g = todo.pop()
            if g in seen or g not in self.groups:
                continue
            seen.add(g)
            for m in self.groups[g]["members"]:
                if m[0] == "con":
                    out.append(m)
                elif m[0] == "use":
                    todo.append(m[1])
        return out

    def xml(self, el):
        v = facet(el, "xml")
        return el["name"] if v is None else fstr(v)


def facet(x, k):
    for kk, v in x["facets"]:
        if kk == k:
            return v
    return None


def has(x, k):
    return any(kk == k for kk, _ in x["facets"])


def truthy(v):
    if v is None:
        return False
    if v is True:
        return True
    if isinstance(v, tuple):
        return v[1] != 0
    return v != ""


def fstr(v):
    if v is True:
        return "True"
    if isinstance(v, tuple):
        return repr(v[1])
    return v


def same_num(text, x):
    """does the decimal text denote exactly the double x?"""
    try:
        y = float(text)
    except ValueError:
        return False
    return y == x and (math.copysign(1, y) == math.copysign(1, x) or text.lstrip("-") in ("0",) or y != 0)


def default_matches(text, a):
    """the artefact's default string vs the declared default"""
    d = a["default"]
    if d is None:
        return text is None
    if text is None:
        return False
    if d[0] == "s":
        return text == d[1]
    vals = [d[1]] if d[0] == "f" else d[1]
    parts = text.split(" ")
    return len(parts) == len(vals) and all(same_num(p, v) for p, v in zip(parts, vals))


def resolve(hi, dims):
    return dims[hi] if isinstance(hi, str) else hi


# ------------------------------------------------------------------------------------------------------ map
def check_map(S, text):
    bad = []
    blocks = re.findall(r"^inline constexpr mjMap (\S+)_map\[\] = \{\n((?:  \{.*\},\n)*)\};\ninline constexpr int (\S+)_sz = (\d+);$",
                        text, re.M)
    got = []
    for name, body, name2, sz in blocks:
        rows = re.findall(r'^  \{"([^"\n]*)",\s+(\S+)\},$', body, re.M)
        if body.count("\n") != len(rows):
            bad.append(("c42:map-row-unparsed", "enum %s: a row of the map does not parse" % name))
        got.append((name, rows, name2, int(sz)))
    want = [(e["name"], e["items"]) for e in S.s["enums"]]   # (bool_map is a fixed part of the header, not a schema fact)
    if [g[0] for g in got] != [w[0] for w in want]:
        bad.append(("c42:map-enum-set", "maps emitted %r, enums declared (in order) %r" % ([g[0] for g in got][:8], [w[0] for w in want][:8])))
        return bad
    for (name, rows, name2, sz), (_, items) in zip(got, want):
        if rows != [tuple(i) for i in items]:
            k = next((i for i, (r, w) in enumerate(zip(rows, items)) if r != tuple(w)), min(len(rows), len(items)))
            bad.append(("c42:map-keyword-constant", "enum %s: emitted rows %r, declared %r (first difference at %d)" % (name, rows[:6], items[:6], k)))
        if name2 != name or sz != len(items):
            bad.append(("c42:map-size", "enum %s: size constant %s_sz = %d, %d keywords declared" % (name, name2, sz, len(items))))
    return bad


# ------------------------------------------------------------------------------------------------------ table
KIND_CHAR = {"exclusive": "e", "together": "t", "requires": "r", "oneof": "o"}


def table_entries(text):
    m = re.search(r"std::vector<const char\*> MJCF\[\] = \{\n(.*?)\n\};", text, re.S)
    c = re.search(r"const mjXConstraintDef MJCF_constraints\[\] = \{\n(.*?)\n\};", text, re.S)
    if not m or not c:
        return None, None
    entries = [re.findall(r'"([^"]*)"', e) for e in re.findall(r"\{([^{}]*)\}", m.group(1))]
    cons = re.findall(r"^  \{(\d+), '(.)', \"([^\"\n]*)\"\},$", c.group(1), re.M)
    ncon = len([l for l in c.group(1).split("\n") if l.strip()])
    return entries, (cons if len(cons) == ncon else None)


def expected_table(S):
    """[(parts | ["<"] | [">"], constraints or None)] in emission order"""
    out = []

    def visit(el, card, project, depth):
        if depth > 60:
            raise RecursionError
        attrs = S.attrs(el, project)
        names = [a["name"] for a in attrs]
        cons = sorted((KIND_CHAR[c[1]], "|".join(" ".join(b) for b in c[2])) for c in S.constraints(el)
                      if all(n in names for b in c[2] for n in b))
        out.append(([S.xml(el), card] + names, cons))
        kids = [c for c in S.children(el) if c[1] != el["name"] and not has(S.elements[c[1]], "alias")
                and not (project and c[1] == "plugin")]
        if not kids:
            return
        out.append((["<"], None))
        for c in kids:
            visit(S.elements[c[1]], c[2], project or (el["name"] == "default" and not c[1].startswith("default_")), depth + 1)
        out.append(([">"], None))
    visit(S.elements["mujoco"], "!", False, 0)
    return out


def check_table(S, text):
    bad = []
    entries, cons = table_entries(text)
    if entries is None or cons is None:
        return [("c42:table-unparsed", "MJCF[] / MJCF_constraints[] arrays do not parse")]
    want = expected_table(S)
    if entries != [w[0] for w in want]:
        k = next((i for i, (g, w) in enumerate(zip(entries, want)) if g != w[0]), min(len(entries), len(want)))
        bad.append(("c42:table-rows", "row %d: emitted %r, schema says %r (%d rows emitted, %d expected)" % (
            k, entries[k] if k < len(entries) else None, want[k][0] if k < len(want) else None, len(entries), len(want))))
        return bad
    got = {}
    for idx, kind, spec in cons:
        got.setdefault(int(idx), []).append((kind, spec))
    for i, (_, wc) in enumerate(want):
        if sorted(got.get(i, [])) != (wc or []):
            bad.append(("c42:table-constraints", "row %d %r: constraints emitted %r, declared %r" % (i, want[i][0][:2], sorted(got.get(i, [])), wc)))
            break
    if any(i >= len(want) for i in got):
        bad.append(("c42:table-constraints", "constraint indexes a row beyond the table"))
    return bad


# ------------------------------------------------------------------------------------------------------ default table
KIND_BY_CTYPE = {"double": 0, "float": 1, "int": 2, "mjtByte": 3, "mjtBool": 3, "mjtNum": 4}
UNSET = {("mjsBody", "ipos"), ("mjsBody", "fullinertia"), ("mjsGeom", "mass"), ("mjsGeom", "fromto"), ("mjsSite", "fromto"),
         ("mjStatistic", "meaninertia"), ("mjStatistic", "meanmass"), ("mjStatistic", "meansize"), ("mjStatistic", "extent"),
         ("mjStatistic", "center")}


def struct_key(el):
    sub = facet(el, "field")
    if truthy(sub):
        return "%s.%s" % (el["spec"], fstr(sub)), fstr(sub) + "."
    return el["spec"], ""


def field_of(a):
    f = facet(a, "field")
    if f is None:
        return a["name"]
    return f if isinstance(f, str) else None


def expected_values(S, a):
    d = a["default"]
    if d is None:
        return []
    if a["type"] == "enum":
        return [("const", dict(S.enums[a["target"]]["items"]).get(d[1]))]
    if a["type"] == "bool":
        return [("num", 1.0 if d[1] == "true" else 0.0)]
    return [("num", v) for v in ([d[1]] if d[0] == "f" else d[1])]


def check_default(S, structs, text):
    bad = []
    arrays = re.findall(r"^static const mjXDefaultEntry (\w+)\[\] = \{\n((?:  \{.*\},\n)*)\};$", text, re.M)
    index = re.findall(r'^  \{"([^"]*)", (\w+), \(int\)\(sizeof\((\w+)\) / sizeof\((\w+)\[0\]\)\)\},$', text, re.M)
    rows_by_array = {}
    for arr, body in arrays:
        rows = re.findall(r'^  \{"([^"]*)", \(int\)offsetof\(([^,]*), ([^)]*)\), (\d+), ([^,]*), (\d+), ([01]), \{([^}]*)\}\},$', body, re.M)
        if len(rows) != body.count("\n"):
            bad.append(("c42:default-row-unparsed", "array %s: a row does not parse" % arr))
        rows_by_array[arr] = rows
    # expectation: one row per bound numeric field, the declared one when some element declares a default
    want = {}
    order = {}
    names = {}
    for el in S.s["elements"]:
        if not el["spec"]:
            continue
        key, pfx = struct_key(el)
        fields = structs.get(key)
        if fields is None:
            continue
        for a in S.attrs(el):
            if a["type"] in ("string", "file", "chars", "ref", "id", "flags"):
                continue
            f = field_of(a)
            ent = fields.get(f) if f is not None else None
            if ent is None:
                continue
            ct, dim = ent
            if (ct not in KIND_BY_CTYPE and not ct.startswith("mjt")) or ct.endswith("*"):
                continue
            row = {"spec": el["spec"], "path": pfx + f, "kind": KIND_BY_CTYPE.get(ct, 2), "len": dim if dim is not None else "1",
                   "unset": 1 if (key, f) in UNSET else 0, "values": expected_values(S, a), "declared": a["default"] is not None,
                   "required": truthy(facet(a, "required"))}
            names.setdefault((key, f), set()).add(a["name"])
            prior = want.get((key, f))
            if prior is None:
                want[(key, f)] = row
                order.setdefault(key, []).append(f)
            elif row["declared"] and not prior["declared"]:
                want[(key, f)] = row
    exp_arrays = sorted(order)
    if [a for a, _ in arrays] != ["kDefaults_" + k.replace(".", "_") for k in exp_arrays]:
        bad.append(("c42:default-arrays", "arrays emitted %r, bound structs with numeric attributes (sorted) %r" % ([a for a, _ in arrays][:8], exp_arrays[:8])))
        return bad
    if [tuple(i) for i in index] != [(k.split(".")[0],) + ("kDefaults_" + k.replace(".", "_"),) * 3 for k in exp_arrays]:
        bad.append(("c42:default-index", "index rows %r do not name the emitted arrays %r" % (index[:6], exp_arrays[:6])))
    for key in exp_arrays:
        arr = "kDefaults_" + key.replace(".", "_")
        got = rows_by_array[arr]
        if [g[2] for g in got] != [want[(key, f)]["path"] for f in order[key]]:
            bad.append(("c42:default-rows", "%s: fields emitted %r, bound numeric fields %r" % (arr, [g[2] for g in got][:8], [want[(key, f)]["path"] for f in order[key]][:8])))
            continue
        for g, f in zip(got, order[key]):
            w = want[(key, f)]
            attr, spec, path, kind, length, ndecl, unset, vals = g
            vals = [] if (vals == "0" and int(ndecl) == 0) else vals.split(", ")
            what = None
            if attr not in names[(key, f)]:
                what = "attribute %r does not bind this field (%r do)" % (attr, sorted(names[(key, f)]))
            elif spec != w["spec"] or int(kind) != w["kind"] or length != w["len"] or int(unset) != w["unset"]:
                what = "struct/kind/len/unset %r, declared %r" % ((spec, kind, length, unset), (w["spec"], w["kind"], w["len"], w["unset"]))
            elif int(ndecl) != len(w["values"]) or len(vals) != len(w["values"]):
                what = "ndecl %s with %d values, %d default values declared%s" % (ndecl, len(vals), len(w["values"]), " (attribute is required)" if w["required"] else "")
            else:
                for v, (k, x) in zip(vals, w["values"]):
                    if k == "const" and v != "(double)%s" % x:
                        what = "enum default emitted as %s, declared constant %s" % (v, x)
                    elif k == "num" and not same_num(v, x):
                        what = "default value %s, declared %r" % (v, x)
            if what:
                bad.append(("c42:default-row-content", "%s.%s: %s" % (arr, path, what)))
                break
    return bad


# ------------------------------------------------------------------------------------------------------ read table
NOT_TABLE_DRIVEN = {"motor", "position", "velocity", "intvelocity", "orientation", "pid", "damper", "cylinder", "muscle", "adhesion",
                    "dcmotor", "actuator_plugin", "connect", "weld", "equality_joint", "equality_tendon", "equality_flex", "flexvert",
                    "flexstrain", "rangefinder", "distance", "user", "normal", "fromto", "sensor_contact", "sensor_plugin", "tactile",
                    "frame", "plugin", "numeric", "text", "tuple"}
HAND_GROUPS = ["orientation", "transmission", "sensor_base"]
ALLOWED_KINDS = {"double": {"kDouble", "kNum", "kFloat", "kString", "kDoubleVec"}, "float": {"kDouble", "kNum", "kFloat", "kString", "kFloatVec"},
                 "int": {"kInt", "kIntVec"}, "string": {"kString", "kStringVec"}, "ref": {"kString", "kStringVec"},
                 "id": {"kString", "kStringVec", "kName"}, "enum": {"kEnum", "kEnumByte"}, "flags": {"kFlags"},
                 "bool": {"kBool", "kEnum"}, "chars": {"kChars"}}


def split_row(body):
    hold = []
    body = re.sub(r"\(int\)offsetof\([^)]*\)", lambda m: hold.append(m.group(0)) or "@%d@" % (len(hold) - 1), body)
    return [re.sub(r"@(\d+)@", lambda m: hold[int(m.group(1))], p) for p in body.split(", ")]


def check_read(S, structs, sensors, groups, text):
    bad = []
    arrays = re.findall(r"^// (.*)\ninline constexpr mjXAttr (\w+)\[\] = \{\n((?:  \{.*\},\n)*)\};\ninline constexpr int (\w+)N = sizeof\((\w+)\) / sizeof\((\w+)\[0\]\);$", text, re.M)
    got = {}
    order = []
    for comment, arr, body, a2, a3, a4 in arrays:
        rows = [split_row(l[3:-2]) for l in body.split("\n") if l]
        got[arr] = (comment, rows)
        order.append(arr)
        if not (arr == a2 == a3 == a4):
            bad.append(("c42:read-array-size", "array %s: size constant names %s/%s/%s" % (arr, a2, a3, a4)))
    driven = [e for e in S.s["elements"] if e["spec"] and any(not has(a, "reading") for a in S.attrs(e)) and e["name"] not in NOT_TABLE_DRIVEN]
    want_arrays = ["k%sAttrs" % e["name"].capitalize() for e in driven] + [g[2] for g in groups]
    if order != want_arrays:
        bad.append(("c42:read-arrays", "arrays emitted %r, table-driven elements + groups %r" % (order[:8], want_arrays[:8])))
        return bad

    def check_rows(label, spec, pfx, rows, attrs, consts):
        crow = [r for r in rows if r[0] == "nullptr"]
        arow = [r for r in rows if r[0] != "nullptr"]
        if [(r[7], r[10]) for r in crow if len(r) == 11] != [("(int)offsetof(%s, %s%s)" % (spec, pfx, c[1]), c[2]) for c in consts]:
            return "identity constants emitted %r, `set` declarations %r" % ([r[7:] for r in crow], [(c[1], c[2]) for c in consts])
        want = [a for a in attrs if not (a["type"] == "ref" and a["target"] == "default") and a["type"] != "file"]
        if [r[0] for r in arow] != ['"%s"' % a["name"] for a in want]:
            return "attribute rows %r, readable expanded attributes %r" % ([r[0] for r in arow][:10], [a["name"] for a in want][:10])
        for r, a in zip(arow, want):
            kind = r[1].replace("mjXAttr::", "")
            req, nodef, hand = ("true" if truthy(facet(a, k)) else "false" for k in ("required", "nodefault", "writing"))
            if a["type"] == "id" and a["name"] == "name":
                if r[1:] != ["mjXAttr::kName", "1", "true", req, "true", "false", "-1"]:
                    return "name row %r" % (r,)
                continue
            if kind not in ALLOWED_KINDS[a["type"]]:
                return "%s: kind %s for declared type %s" % (a["name"], kind, a["type"])
            if r[4:7] != [req, nodef, hand]:
                return "%s: required/nodefault/handwrite %r, facets say %r" % (a["name"], r[4:7], [req, nodef, hand])
            f = field_of(a)
            if r[7] != "(int)offsetof(%s, %s%s)" % (spec, pfx, f):
                return "%s: offset %s, bound field %s%s of %s" % (a["name"], r[7], pfx, f, spec)
            lo, hi = a["lo"], a["hi"]
            if a["type"] in NUMERIC and hi is not None:
                if r[2] != str(hi) and not (r[2] == "mjNPOLY+1" and str(hi) == "3"):
                    return "%s: length %s, declared arity [%s..%s]" % (a["name"], r[2], lo, hi)
                if r[3] != ("true" if lo == hi else "false"):
                    return "%s: exact=%s, declared arity [%s..%s]" % (a["name"], r[3], lo, hi)
            elif a["type"] == "chars":
                if r[2] != str(hi) or r[3] != ("true" if lo == hi else "false"):
                    return "%s: length/exact %s/%s, declared chars[%s..%s]" % (a["name"], r[2], r[3], lo, hi)
            elif r[2] != "1" or r[3] != "true":
                return "%s: length/exact %s/%s for a %s attribute" % (a["name"], r[2], r[3], a["type"])
            if a["type"] in ("enum", "flags") and r[8:] != [a["target"] + "_map", a["target"] + "_sz"]:
                return "%s: keyword map %r, declared enum %s" % (a["name"], r[8:], a["target"])
            if a["type"] == "bool" and kind == "kEnum" and r[8:] != ["bool_map", "2"]:
                return "%s: bool read through %r" % (a["name"], r[8:])
        return None

    for e in driven:
        arr = "k%sAttrs" % e["name"].capitalize()
        comment, rows = got[arr]
        key, pfx = struct_key(e)
        hand = set()
        for g in HAND_GROUPS:
            if any(m[0] == "use" and m[1] == g for m in e["members"]):
                hand |= {m[1]["name"] for m in S.groups[g]["members"] if m[0] == "attr"}
        attrs = [a for a in S.attrs(e) if a["name"] not in hand and not has(a, "reading")]
        what = check_rows(arr, e["spec"], pfx, rows, attrs, [m for m in e["members"] if m[0] == "const"])
        if comment != "%s (%s)" % (e["name"], e["spec"]):
            what = what or "array comment %r" % comment
        if what:
            bad.append(("c42:read-row-content", "%s (element %s): %s" % (arr, e["name"], what)))
            break
    for g, spec, arr in groups:
        attrs = [m[1] for m in S.groups[g]["members"] if m[0] == "attr" and not has(m[1], "reading")]
        what = check_rows(arr, spec, "", got[arr][1], attrs, [])
        if what:
            bad.append(("c42:read-row-content", "%s (group %s): %s" % (arr, g, what)))
            break
    disp = re.search(r"inline constexpr mjXSensorEntry kSensorDispatch\[\] = \{\n((?:  \{.*\},\n)*)\};", text)
    rows = re.findall(r'^  \{"([^"]*)", (\w+), (\w+)\},$', disp.group(1), re.M) if disp else None
    want = [(S.xml(S.elements[n]), "k%sAttrs" % n.capitalize(), "k%sAttrsN" % n.capitalize()) for n in sensors]
    if rows != want:
        bad.append(("c42:read-dispatch", "sensor dispatch %r, configured sensors %r" % (rows and rows[:6], want[:6])))
    return bad


# ------------------------------------------------------------------------------------------------------ xsd
BASE = {"double": "xs:double", "float": "xs:float", "int": "xs:int"}


def xsd_simple_types(root):
    """named simple types -> ('enum', [kw]) | ('list', item, lo, hi)"""
    out = {}
    for st in root.findall(XS + "simpleType"):
        name = st.get("name")
        r = st.find(XS + "restriction")
        lst = st.find(XS + "list")
        if lst is not None:
            out[name] = ("list", lst.get("itemType"), 0, None)
        elif r is not None and r.get("base") == "xs:string":
            out[name] = ("enum", [e.get("value") for e in r.findall(XS + "enumeration")])
        elif r is not None:
            inner = r.find(XS + "simpleType/" + XS + "list")
            lo, hi = 0, None
            ln = r.find(XS + "length")
            if ln is not None:
                lo = hi = int(ln.get("value"))
            if r.find(XS + "minLength") is not None:
                lo = int(r.find(XS + "minLength").get("value"))
            if r.find(XS + "maxLength") is not None:
                hi = int(r.find(XS + "maxLength").get("value"))
            out[name] = ("list", inner.get("itemType") if inner is not None else None, lo, hi)
    return out


def check_xsd(S, dims, text):
    bad = []
    try:
        root = ET.fromstring(text.split("?>", 1)[1] if text.startswith("<?xml") else text)
    except ET.ParseError as e:
        return [("c42:xsd-not-xml", "generated XSD is not well-formed XML: %s" % e)]
    st = xsd_simple_types(root)
    flags_targets = {a["target"] for e in S.s["elements"] for a in S.attrs(e) if a["type"] == "flags"}
    want_st = ["kw_bool"]
    for e in S.s["enums"]:
        want_st.append("kw_" + e["name"])
        if e["name"] in flags_targets:
            want_st.append("kwlist_" + e["name"])
    got_kw = [n for n in (x.get("name") for x in root.findall(XS + "simpleType")) if n.startswith("kw")]
    if got_kw != want_st:
        bad.append(("c42:xsd-keyword-types", "keyword types %r, enums declared %r" % (got_kw[:8], want_st[:8])))
    for e in S.s["enums"]:
        if st.get("kw_" + e["name"]) != ("enum", [k for k, _ in e["items"]]):
            bad.append(("c42:xsd-keywords", "kw_%s enumerates %r, declared keywords %r" % (e["name"], st.get("kw_" + e["name"]), [k for k, _ in e["items"]])))
            break
    cts = {c.get("name"): c for c in root.findall(XS + "complexType")}
    # reachable (element, projected) pairs
    seen, todo = [], [("mujoco", False)]
    while todo:
        n, p = todo.pop(0)
        if (n, p) in seen:
            continue
        seen.append((n, p))
        el = S.elements[n]
        kids = [c for c in S.children(el) if not (p and c[1] == "plugin")]
        exp_choice = []
        for c in kids:
            tgt = S.elements[c[1]]
            tag = S.xml(tgt)
            if n == "mujoco" and c[1] == "body":
                tgt, tag = S.elements["worldbody"], "worldbody"
            cp = p or (n == "default" and not c[1].startswith("default_") and c[1] != "default")
            exp_choice.append((tag, ("default_" if cp else "") + tgt["name"]))
            todo.append((tgt["name"], cp))
        if kids:
            exp_choice.append(("include", "include"))
        tname = ("default_" if p else "") + n
        ct = cts.get(tname)
        if ct is None:
            bad.append(("c42:xsd-missing-type", "no complexType %s for reachable element %s" % (tname, n)))
            continue
        ch = ct.find(XS + "choice")
        got_choice = [(x.get("name"), x.get("type")) for x in ch.findall(XS + "element")] if ch is not None else []
        if got_choice != exp_choice:
            bad.append(("c42:xsd-children", "%s: child elements %r, declared children %r" % (tname, got_choice[:8], exp_choice[:8])))
        attrs = S.attrs(el, p)
        got_attrs = ct.findall(XS + "attribute")
        if [x.get("name") for x in got_attrs] != [a["name"] for a in attrs]:
            bad.append(("c42:xsd-attributes", "%s: attributes %r, expanded attributes %r" % (tname, [x.get("name") for x in got_attrs][:10], [a["name"] for a in attrs][:10])))
            continue
        for x, a in zip(got_attrs, attrs):
            what = None
            req = truthy(facet(a, "required"))
            if (x.get("use") == "required") != req:
                what = "use=%r, required facet %r" % (x.get("use"), req)
            elif not default_matches(x.get("default"), a):
                what = "default %r, declared %r%s" % (x.get("default"), a["default"], " (attribute is required)" if req else "")
            else:
                t = x.get("type")
                ty = a["type"]
                if ty == "bool":
                    ok = t == "kw_bool"
                elif ty == "enum":
                    ok = t == "kw_" + a["target"]
                elif ty == "flags":
                    ok = t == "kwlist_" + a["target"] and st.get(t) == ("list", "kw_" + a["target"], 0, None)
                elif ty in ("string", "file", "ref", "id"):
                    ok = t == "xs:string"
                elif ty == "chars":
                    r = x.find(XS + "simpleType/" + XS + "restriction")
                    if r is None or r.get("base") != "xs:string":
                        ok = False
                    elif has(a, "pattern"):
                        ok = r.find(XS + "pattern") is not None and r.find(XS + "pattern").get("value") == facet(a, "pattern")
                    elif a["lo"] == a["hi"]:
                        ok = r.find(XS + "length") is not None and int(r.find(XS + "length").get("value")) == a["hi"]
                    else:
                        ok = (r.find(XS + "minLength") is not None and int(r.find(XS + "minLength").get("value")) == a["lo"]
                              and int(r.find(XS + "maxLength").get("value")) == a["hi"])
                else:
                    lo, hi = a["lo"], resolve(a["hi"], dims)
                    if (lo, hi) == (1, 1):
                        if any(has(a, f) for f in ("min", "max", "positive")):
                            r = x.find(XS + "simpleType/" + XS + "restriction")
                            ok = r is not None and r.get("base") == BASE[ty]
                            for f, tag in (("min", "minInclusive"), ("max", "maxInclusive")):
                                if ok and has(a, f):
                                    v = facet(a, f)
                                    n_ = r.find(XS + tag)
                                    ok = n_ is not None and (n_.get("value") == "True" if v is True else same_num(n_.get("value"), v[1]))
                            if ok and truthy(facet(a, "positive")):
                                ok = r.find(XS + "minExclusive") is not None and r.find(XS + "minExclusive").get("value") == "0"
                        else:
                            ok = t == BASE[ty]
                    else:
                        exp = ((0, None) if lo <= 1 else (lo, None)) if hi is None else (lo, hi)
                        ok = st.get(t) == ("list", BASE[ty]) + exp
                if not ok:
                    what = "type %r (%r) for declared %s[%s..%s]" % (t, st.get(t), ty, a["lo"], a["hi"])
            if what:
                bad.append(("c42:xsd-attribute-content", "%s.%s: %s" % (tname, a["name"], what)))
                break
    extra = set(cts) - {("default_" if p else "") + n for n, p in seen} - {"include"}
    if extra:
        bad.append(("c42:xsd-extra-type", "complexTypes not reachable in the schema: %r" % sorted(extra)[:6]))
    return bad


# ------------------------------------------------------------------------------------------------------ dm_control
EXCLUDED = {"pid", "dcmotor", "replicate", "frame", "attach", "model", "sensor_contact"}
EXCLUDED_CHILDREN = {("worldbody", "plugin")}
BASEPATHS = {"meshdir", "texturedir", "assetdir"}


def check_dmcontrol(S, dims, text):
    bad = []
    try:
        root = ET.fromstring(text)
    except ET.ParseError as e:
        return [("c42:dm-not-xml", "generated dm_control schema is not well-formed XML: %s" % e)]

    def walk(node, el, tag, card, projected, parent, depth):
        if bad or depth > 60:
            return
        path = "%s/%s" % (parent, tag)
        if node.get("name") != tag:
            bad.append(("c42:dm-element", "%s: element named %r" % (path, node.get("name"))))
            return
        top_default = el["name"] == "default" and parent == "mujoco"
        self_rec = any(c[1] == el["name"] for c in S.children(el))
        if (node.get("recursive") == "true") != (self_rec and not top_default):
            bad.append(("c42:dm-recursive", "%s: recursive=%r, self child declared: %r" % (path, node.get("recursive"), self_rec)))
        if node.get("repeated") == "true" and card not in ("*", "R"):
            bad.append(("c42:dm-repeated", "%s: repeated but declared cardinality %s" % (path, card)))
        attrs = S.attrs(el, projected)
        an = node.find("attributes")
        got = list(an) if an is not None else []
        if [x.get("name") for x in got] != [a["name"] for a in attrs]:
            bad.append(("c42:dm-attributes", "%s: attributes %r, expanded attributes %r" % (path, [x.get("name") for x in got][:10], [a["name"] for a in attrs][:10])))
            return
        names = {a["name"] for a in attrs}
        for x, a in zip(got, attrs):
            what = None
            req = truthy(facet(a, "required"))
            if (x.get("required") == "true") != req:
                what = "required=%r, facet %r" % (x.get("required"), req)
            elif not default_matches(x.get("default"), a):
                what = "default %r, declared %r%s" % (x.get("default"), a["default"], " (attribute is required)" if req else "")
            else:
                special = ((a["name"] == "objname" and "objtype" in names) or (a["name"] == "refname" and "reftype" in names)
                           or (el["name"], a["name"]) == ("composite", "prefix") or (el["name"], a["name"]) == ("mujoco", "model")
                           or (a["name"] in BASEPATHS and el["name"] == "compiler"))
                t = x.get("type")
                ty = a["type"]
                if special:
                    ok = True
                elif ty == "enum":
                    ok = t == "keyword" and x.get("valid_values") == " ".join(k for k, _ in S.enums[a["target"]]["items"])
                elif ty == "bool":
                    ok = t == "keyword" and x.get("valid_values") == "false true"
                elif ty == "file":
                    ok = t == "file"
                elif ty == "id":
                    ok = t == "identifier"
                elif ty == "ref":
                    ok = t == "reference"
                elif ty in ("string", "chars", "flags"):
                    ok = t == "string"
                else:
                    base = "int" if ty == "int" else "float"
                    lo, hi = a["lo"], resolve(a["hi"], dims)
                    if (lo, hi) == (1, 1):
                        ok = t == base
                    else:
                        ok = t == "array" and x.get("array_type") == base and x.get("array_size") == (None if hi is None else str(hi))
                if not ok:
                    what = "type %r %r for declared %s[%s..%s]" % (t, {k: v for k, v in x.attrib.items() if k.startswith(("array", "valid"))}, ty, a["lo"], a["hi"])
            if what:
                bad.append(("c42:dm-attribute-content", "%s.%s: %s" % (path, a["name"], what)))
                return
        exp = []
        for c in S.children(el):
            if c[1] == el["name"]:
                if top_default:
                    exp.append((el, tag, c[2], projected))
                continue
            tgt = S.elements[c[1]]
            ctag = S.xml(tgt)
            if el["name"] == "mujoco" and c[1] == "body":
                tgt, ctag = S.elements["worldbody"], "worldbody"
            if tgt["name"] in EXCLUDED or (el["name"], tgt["name"]) in EXCLUDED_CHILDREN:
                continue
            cp = projected or (el["name"] == "default" and not c[1].startswith("default_") and c[1] != "default")
            if projected and c[1] == "plugin":
                continue
            exp.append((tgt, ctag, c[2], cp))
        cn = node.find("children")
        gotk = list(cn) if cn is not None else []
        if [k.get("name") for k in gotk] != [e[1] for e in exp]:
            bad.append(("c42:dm-children", "%s: children %r, declared (supported) children %r" % (path, [k.get("name") for k in gotk][:8], [e[1] for e in exp][:8])))
            return
        for k, (tgt, ctag, ccard, cp) in zip(gotk, exp):
            walk(k, tgt, ctag, ccard, cp, el["name"], depth + 1)
    walk(root, S.elements["mujoco"], "mujoco", "!", False, None, 0)
    return bad


# ------------------------------------------------------------------------------------------------------ rst
ELEMENT_ORDER = ["mujoco", "option", "compiler", "size", "statistic", "asset", "body", "deformable", "contact", "equality", "tendon",
                 "actuator", "sensor", "keyframe", "visual", "default", "custom", "extension"]
ICON = {"!": "star", "?": "dot", "*": None, "R": "sync"}


def rst_links(S):
    """superset of the `.. _link:` targets generate_schema.py looks up for this schema"""
    tags = sorted({S.xml(e) for e in S.s["elements"]})
    attrs = sorted({a["name"] for e in S.s["elements"] for a in S.attrs(e)})
    links = []
    for t in tags:
        links.append(t)
        links += ["%s-%s" % (t, a) for a in attrs]
        for u in tags:
            links.append("%s-%s" % (t, u))
            links += ["%s-%s-%s" % (t, u, a) for a in attrs]
    return links


def check_rst(S, text):
    """the dropdown tree of XMLschema.rst vs the grammar-table walk: every top-level section named in ELEMENT_ORDER, with
    its element names, cardinality icons and attribute lists in table order"""
    bad = []
    rows = expected_table(S)
    # expected dropdowns: (level, name, icon, link, attrs)
    flat, level = [], 0
    for parts, _ in rows:
        if parts == ["<"]:
            level += 1
        elif parts == [">"]:
            level -= 1
        else:
            flat.append((level, parts))
    exp = []
    for top in ELEMENT_ORDER:
        parent = [""] * 5
        found = False
        for lv, parts in flat:
            ok = (lv == 0 and top == "mujoco") or (lv == 1 and parts[0] == top) or (lv > 1 and parent[2] == top)
            if found and not ok:
                break
            found = ok
            if ok:
                link = parts[0] if lv <= 1 else parent[lv] + "-" + parts[0]
                exp.append((lv, parts[0], ICON.get(parts[1]), link, parts[2:]))
            if lv < 4:
                parent[lv + 1] = parts[0]
    got = []
    cur = None
    for line in text.split("\n"):
        m = re.match(r"^((?:   )*)\.\. dropdown:: :ref:`(.*)<([^<>`]*)>` (?::octicon:`(\w+)`|\|\*\|)$", line)
        if m:
            cur = [len(m.group(1)) // 3, m.group(2), m.group(4), m.group(3), []]
            got.append(cur)
            continue
        m = re.match(r"^ +:ref:`(.*)<([^<>`]*)>`$", line)
        if m and cur is not None:
            cur[4].append((m.group(1), m.group(2)))
    want = [(lv, "(world)body" if n == "body" else n, ic, link, [(a, "%s-%s" % (link, a)) for a in attrs]) for lv, n, ic, link, attrs in exp]
    got = [tuple(g[:4]) + (g[4],) for g in got]
    if got != [w[:4] + (w[4],) for w in want]:
        k = next((i for i, (g, w) in enumerate(zip(got, want)) if g != w), min(len(got), len(want)))
        bad.append(("c42:rst-dropdowns", "dropdown %d: emitted %r, grammar table says %r (%d emitted, %d expected)" % (
            k, got[k] if k < len(got) else None, want[k] if k < len(want) else None, len(got), len(want))))
    return bad
