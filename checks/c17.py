"""C17  Constraint islands are the connected components of coupling (DESIGN.md §5.C17)."""
import itertools
import json

META = {
    "technique": "Lean 4 proof (union-find forest invariant, refinement of the merge history to the equivalence closure, "
                 "counting-sort permutation argument) + exact differential correspondence with mj_dsu*/mj_floodFill/mj_island "
                 "+ connected-components oracle on stepped mjSpec scenes",
    "text": "Proved for every number of trees/dofs/rows and every history of mj_dsuMerge/mj_dsuRoot calls from the all -1 parent "
            "array: no call leaves the array, both loops of mj_dsuRoot terminate (structural descent, no fuel), parent stays a "
            "descending forest whose roots are the minimum of their class, the classes are exactly the connected components "
            "(equivalence closure, shown equal to Relation.EqvGen) of the merged pairs, mj_dsuAssign reads only written entries, "
            "numbers the islands in ascending order of their smallest tree, uses every id below nisland and gives -1 exactly to "
            "untouched trees; the model of mj_island (merge schedule of unionConstraintTrees incl. flex stars, dsuAssign, three "
            "counting sorts) runs to completion and yields mutually inverse permutations with contiguous, correctly sized and "
            "addressed, order-preserving blocks for dofs, constraint rows and trees, dof_island = island of the dof's tree, every "
            "row in the island of all its trees, island_dofadr read in range; mj_floodFill terminates, labels exactly the connected "
            "components of a symmetric CSR matrix in ascending order of their smallest vertex and its stack never exceeds nnz. "
            "The hand-written model is tied to the tree by exhaustive exploration of every reachable union-find state over small "
            "forests, random large sessions, exhaustive/random CSR graphs, and by replaying the engine's own constraint incidence "
            "of generated mjSpec scenes through the Lean pipeline and comparing every island array of mjData exactly.",
    "note": "the model takes the list of trees incident to each constraint (what treeNext/treeIterInit yield) as input: their "
            "special-casing and Jacobian scans are covered by the scene oracle (incidence recomputed from efc_J non-zeros, "
            "flex-free scenes, sleeping disabled), not by a theorem; iefc_* copies, island_ne/nf are oracle-only; C int overflow "
            "is outside the model.",
}

THEOREMS = [
    "MjProof.C17.dsu_inv",
    "MjProof.C17.dsuRoot_total",
    "MjProof.C17.dsu_classes_eq_connected_components",
    "MjProof.C17.merges_classes_eq_connected_components",
    "MjProof.C17.conn_iff_eqvGen",
    "MjProof.C17.merge_static_error",
    "MjProof.C17.assign_ascending",
    "MjProof.C17.island_numbering_unique",
    "MjProof.C17.exists_smallest_tree",
    "MjProof.C17.maps_inverse",
    "MjProof.C17.dof_unconstrained_iff",
    "MjProof.C17.efc_same_island_iff",
    "MjProof.C17.floodFill_total",
    "MjProof.C17.floodFill_components",
    "MjProof.C17.floodFill_stack_bound",
]

USES_GEN = False   # nothing under lean/MjProof/Gen is used: runs against a scratch worktree need no exclusive lock

CONTACT_TYPES = (5, 6, 7)


# ------------------------------------------------------------------------------------------ helpers
def ints(s):
    return [int(x) for x in s.split()]


class UF:
    def __init__(self, n):
        self.p = list(range(n))

    def find(self, x):
        while self.p[x] != x:
            self.p[x] = self.p[self.p[x]]
            x = self.p[x]
        return x

    def union(self, a, b):
        a, b = self.find(a), self.find(b)
        if a != b:
            self.p[max(a, b)] = min(a, b)


def expected_islands(n, groups):
    """groups: lists of trees coupled together. Returns (tree_island, nisland) with ids ascending in min tree."""
    uf = UF(n)
    touched = [False] * n
    for g in groups:
        g = [t for t in g if t >= 0]
        for t in g:
            touched[t] = True
        for a, b in zip(g, g[1:]):
            uf.union(a, b)
    ids, out = {}, []
    for t in range(n):
        if not touched[t]:
            out.append(-1)
            continue
        r = uf.find(t)   # minimum of the class, first visited at t == r
        if r not in ids:
            ids[r] = len(ids)
        out.append(ids[r])
    return out, len(ids)


# ------------------------------------------------------------------------------------------ DSU sessions
def dsu_line(n, dofnum, ops):
    return "dsu %d %s ; %s" % (n, " ".join(map(str, dofnum)), " ; ".join(ops)) if ops else "dsu %d %s" % (n, " ".join(map(str, dofnum)))


def explore_states(ctx, impl, n):
    """Breadth-first exploration of every parent array reachable from -1,…,-1 by mj_dsuMerge / mj_dsuRoot calls.
    Returns the op lines (one per state x operation, each followed by mj_dsuAssign) — exhaustive over all histories,
    because the functions depend only on the current array."""
    dofnum = list(range(1, n + 1))
    init = tuple([-1] * n)
    witness = {init: []}
    frontier = [init]
    lines = []
    pairs = [(a, b) for a in range(-1, n) for b in range(-1, n)]
    while frontier:
        batch = []
        for st in frontier:
            w = witness[st]
            for a, b in pairs:
                batch.append((st, w + ["m %d %d" % (a, b)]))
            for t in range(n):
                if st[t] >= 0:
                    batch.append((st, w + ["r %d" % t]))
        blines = [dsu_line(n, dofnum, ops + ["A"]) for _, ops in batch]
        rc, outs, err = ctx.run_lines([impl], blines)
        if rc != 0 or len(outs) != len(blines):
            ctx.oracle_failure("c17:dsu-crash", "union-find harness crashed during state exploration (rc=%s)" % rc,
                               {"n": n, "first_lines": blines[:3], "stderr": err[-400:]})
            return lines + blines
        lines += blines
        new = []
        for (st, ops), o in zip(batch, outs):
            segs = o.split(" | ")
            if len(segs) < len(ops):
                continue
            res = segs[len(ops) - 1]
            try:
                if res.startswith("ok "):
                    ns = tuple(ints(res[3:]))
                elif " : " in res and not res.startswith("undef"):
                    ns = tuple(ints(res.split(" : ")[1]))
                else:
                    continue
            except ValueError:
                continue   # garbage from a broken implementation: judged by the oracle below, not explored further
            if len(ns) == n and ns not in witness:
                witness[ns] = ops
                new.append(ns)
        frontier = new
    ctx.extra.setdefault("dsu_reachable_states", {})[str(n)] = len(witness)
    return lines


def random_dsu(ctx, count, maxn):
    rng = ctx.rng
    lines, hist = [], {}
    for _ in range(count):
        style = rng.choice(("rand", "rand", "desc", "asc", "star", "blocks", "static", "dup"))
        n = rng.choice((1, 2, 3, 8, 17, 64, rng.randint(1, maxn)))
        dofnum = [rng.choice((1, 1, 2, 3, 6, 6)) for _ in range(n)]
        k = rng.randint(0, 3 * n)
        ops = []
        if style == "desc":      # builds long parent chains: every merge hangs the previous root under a smaller one
            order = list(range(n - 1, 0, -1))
            ops = ["m %d %d" % ((t, t - 1) if rng.random() < 0.5 else (t - 1, t)) for t in order[:k]]
        elif style == "asc":
            ops = ["m %d %d" % (t, t + 1) for t in range(min(n - 1, k))]
        elif style == "star":
            c = rng.randrange(n)
            ops = ["m %d %d" % (c, rng.randrange(n)) for _ in range(k)]
        elif style == "blocks":
            b = rng.randint(1, 6)
            ops = ["m %d %d" % (t, min(n - 1, (t // b) * b + rng.randrange(b))) for t in (rng.randrange(n) for _ in range(k))]
        elif style == "static":
            ops = ["m %d %d" % rng.choice(((-1, rng.randrange(n)), (rng.randrange(n), -1), (rng.randrange(n), rng.randrange(n)), (-1, -1))) for _ in range(k)]
        elif style == "dup":
            ps = [(rng.randrange(n), rng.randrange(n)) for _ in range(max(1, k // 4))]
            ops = ["m %d %d" % rng.choice(ps) for _ in range(k)]
        else:
            ops = ["m %d %d" % (rng.randint(-1, n - 1), rng.randint(-1, n - 1)) for _ in range(k)]
        # sprinkle root queries (compression) between merges, assign at the end (sometimes twice / followed by merges)
        out = []
        quiet = n > 40      # large sessions: merges without the per-op dump of parent (it is dumped by r / A)
        for o in ops:
            out.append("q" + o[1:] if quiet and rng.random() < 0.9 else o)
            if rng.random() < (0.03 if quiet else 0.15):
                out.append("r %d" % rng.randrange(n))
        out.append("A")
        if rng.random() < 0.2:
            out += ["m %d %d" % (rng.randrange(n), rng.randrange(n)), "A"]
        lines.append(dsu_line(n, dofnum, out))
        b = "n<=8" if n <= 8 else "n<=64" if n <= 64 else "n>64"
        hist[style + ":" + b] = hist.get(style + ":" + b, 0) + 1
    ctx.extra["dsu_random_distribution"] = hist
    return lines


def robust(f):
    """An oracle must give a verdict on any output of a (possibly broken) implementation: unparseable or
    structurally unexpected output is a failure of the implementation, never an exception of the check."""
    def g(*a):
        try:
            return f(*a)
        except (ValueError, IndexError, KeyError, TypeError) as e:
            return "unexpected output format (%s: %s)" % (type(e).__name__, str(e)[:80])
    g.__name__ = f.__name__
    return g


@robust
def dsu_oracle(line, out):
    """Oracle on the implementation's output alone: forest invariant after every op, classes = components of the
    merged pairs, root = minimum, island numbering ascending in the minimum tree."""
    segs = line.split(";")
    hd = segs[0].split()
    n = int(hd[1])
    dofnum = [int(x) for x in hd[2:]]
    ops = [s.split() for s in segs[1:]]
    res = out.split(" | ") if ops else []
    if out == "bad-op":
        return None
    if len(res) != len(ops):
        return "number of results differs from number of ops"
    uf = UF(n)
    touched = [False] * n
    for op, r in zip(ops, res):
        if "canary" in r:
            return "write outside the parent/island arrays"
        if op[0] in ("m", "q"):
            a, b = int(op[1]), int(op[2])
            if a == -1 and b == -1:
                if r != "error":
                    return "mj_dsuMerge(-1,-1) did not raise the documented error"
                continue
            if not r.startswith("ok"):
                return "mj_dsuMerge failed on valid arguments"
            if a == -1:
                a = b
            if b == -1:
                b = a
            touched[a] = touched[b] = True
            uf.union(a, b)
            if op[0] == "q":
                continue
            p = ints(r[2:])
        elif op[0] == "r":
            t = int(op[1])
            if not touched[t]:
                if r != "undef":
                    return "harness guard"
                continue
            if r == "undef":
                return "a tree passed to mj_dsuMerge was not activated (parent still -1)"
            rr, ps = r.split(" : ")
            if int(rr) != uf.find(t):
                return "mj_dsuRoot did not return the minimum tree of the class"
            p = ints(ps)
        else:
            f = r.split(" : ")
            if len(f) != 3:
                return "mj_dsuAssign output malformed"
            nisland, nidof = ints(f[0])
            isl = ints(f[1]) if f[1].strip() else []
            p = ints(f[2]) if f[2].strip() else []
            exp, nexp = expected_islands(n, [[t, uf.find(t)] for t in range(n) if touched[t]])
            if isl != exp or nisland != nexp:
                return "mj_dsuAssign: island ids are not the components numbered by ascending smallest tree"
            if nidof != sum(d for d, t in zip(dofnum, touched) if t):
                return "mj_dsuAssign: nidof is not the number of dofs of constrained trees"
        if len(p) != n:
            return "parent array length"
    return None


# ------------------------------------------------------------------------------------------ flood fill
def ff_line(nr, rows, layout="contig", rng=None):
    """rows: list of column lists. layout: contig | gaps | shuffled (row storage order permuted, gaps between rows)."""
    order = list(range(nr))
    if layout == "shuffled":
        rng.shuffle(order)
    adr = [0] * nr
    col = []
    for i in order:
        if layout != "contig" and rng.random() < 0.5:
            col += [rng.randrange(nr) for _ in range(rng.randint(0, 2))] if nr else []
        adr[i] = len(col)
        col += rows[i]
    return "ff %d : %s : %s : %s" % (nr, " ".join(str(len(r)) for r in rows), " ".join(map(str, adr)), " ".join(map(str, col)))


def gen_ff(ctx):
    rng = ctx.rng
    thorough = ctx.tier == "thorough"
    lines = []
    # exhaustive: all directed multigraphs with <= 2 entries per row on <= 3 vertices
    for nr in range(0, 4):
        opts = [list(c) for k in range(0, 3) for c in itertools.product(range(nr), repeat=k)]
        for rows in itertools.product(opts, repeat=nr):
            lines.append(ff_line(nr, list(rows)))
    # exhaustive: all symmetric graphs (with optional self loops on vertex 0) on 4 (5) vertices
    for nr in ((4, 5) if thorough else (4,)):
        prs = [(i, j) for i in range(nr) for j in range(i + 1, nr)]
        for mask in range(1 << len(prs)):
            for loop in (0, 1):
                rows = [[] for _ in range(nr)]
                for k, (i, j) in enumerate(prs):
                    if mask >> k & 1:
                        rows[i].append(j)
                        rows[j].append(i)
                if loop:
                    rows[0].append(0)
                lines.append(ff_line(nr, rows))
    ctx.extra["ff_exhaustive_scope"] = "all CSR rows of <=2 entries on <=3 vertices; all symmetric graphs on %s vertices" % ("4,5" if thorough else "4")
    hist = {}
    for _ in range(4000 if thorough else 600):
        nr = rng.choice((1, 2, 5, 9, 20, rng.randint(1, 300 if thorough else 80)))
        style = rng.choice(("sym", "sym", "sym-dup", "asym", "paths", "cliques"))
        rows = [[] for _ in range(nr)]
        ne = rng.randint(0, 2 * nr)
        if style in ("sym", "sym-dup"):
            for _e in range(ne):
                i, j = rng.randrange(nr), rng.randrange(nr)
                reps = rng.randint(1, 3) if style == "sym-dup" else 1
                for _r in range(reps):
                    rows[i].append(j)
                    if i != j:
                        rows[j].append(i)
        elif style == "asym":
            for _e in range(ne):
                rows[rng.randrange(nr)].append(rng.randrange(nr))
        elif style == "paths":
            perm = list(range(nr))
            rng.shuffle(perm)
            for a, b in zip(perm, perm[1:]):
                if rng.random() < 0.8:
                    rows[a].append(b)
                    rows[b].append(a)
        else:
            k = rng.randint(1, 5)
            for i in range(nr):
                for j in range(nr):
                    if i != j and i // k == j // k and rng.random() < 0.7:
                        rows[i].append(j)
                        if i not in rows[j]:
                            rows[j].append(i)
        for r in rows:
            rng.shuffle(r)
        layout = rng.choice(("contig", "contig", "gaps", "shuffled"))
        lines.append(ff_line(nr, rows, layout, rng))
        hist[style + ":" + layout] = hist.get(style + ":" + layout, 0) + 1
    ctx.extra["ff_random_distribution"] = hist
    lines.append("ff 2 : 1 1 : 0 1 : 1 2")   # column index out of range: both sides must reject
    lines.append("ff 2 : 1 : 0 1 : 1 0")
    return lines


@robust
def ff_oracle(line, out):
    f = line.split(":")
    try:
        nr = int(f[0].split()[1])
        nnz, adr, col = ints(f[1]), ints(f[2]), ints(f[3])
    except (ValueError, IndexError):
        return None if out == "bad-op" else "malformed op accepted"
    if len(nnz) != nr or len(adr) != nr or any(a + n > len(col) for a, n in zip(adr, nnz)) or any(c >= nr for c in col):
        return None if out == "bad-op" else "malformed op accepted"
    if "canary" in out:
        return "mj_floodFill wrote outside island[nr] / stack[nnz]"
    g = out.split(" : ")
    nisland = int(g[0])
    isl = ints(g[1]) if len(g) > 1 and g[1].strip() else []
    if len(isl) != nr:
        return "island array length"
    rows = [col[adr[i]:adr[i] + nnz[i]] for i in range(nr)]
    sym = all(i in rows[j] for i in range(nr) for j in rows[i])
    if not sym:
        # not an adjacency matrix: only require the stated -1 convention and id range
        if any((isl[i] == -1) != (not rows[i]) for i in range(nr) if not any(i in r for r in rows)):
            return "vertex without edges must get -1"
        return None if all(-1 <= x < max(nisland, 0) + 0 or x == -1 for x in isl) else "island id out of range"
    exp, nexp = expected_islands(nr, [[i] + rows[i] for i in range(nr) if rows[i]])
    if isl != exp or nisland != nexp:
        return "mj_floodFill: islands are not the connected components numbered by ascending smallest vertex"
    return None


# ------------------------------------------------------------------------------------------ scenes
def gen_scenes(ctx):
    rng = ctx.rng
    thorough = ctx.tier == "thorough"
    lines, hist = [], {}
    n = 400 if thorough else 44
    for i in range(n):
        size = rng.choice(("tiny", "small", "small", "medium") + (("large",) if thorough else ()))
        nfree = {"tiny": rng.randint(0, 3), "small": rng.randint(2, 10), "medium": rng.randint(8, 30), "large": rng.randint(30, 90)}[size]
        nchain = {"tiny": rng.randint(0, 2), "small": rng.randint(0, 5), "medium": rng.randint(2, 12), "large": rng.randint(5, 30)}[size]
        nb = nfree + nchain
        neq = rng.choice((0, 0, 1, 2, max(1, nb // 4)))
        njeq = rng.choice((0, 0, 1, 2, max(1, nchain // 3)))
        ntd = rng.choice((0, 0, 1, 2, max(1, nchain // 3)))
        jac = rng.randint(0, 1)
        cone = rng.randint(0, 1)
        steps = rng.choice((0, 0, 1, 3, 10, 40))
        spread = rng.choice((0, 0, 1, 2, 4))
        seed = rng.randint(0, 10 ** 6)
        nflex = rng.choice((0, 0, 0, 1, 2, 3))
        lines.append("scene %d %d %d %d %d %d %d %d %d %d %d" % (seed, nfree, nchain, neq, njeq, ntd, jac, cone, steps, spread, nflex))
        k = "%s:%s:%s%s" % (size, "sparse" if jac else "dense", "elliptic" if cone else "pyramidal", ":flex" if nflex else "")
        hist[k] = hist.get(k, 0) + 1
    # directed family: few short chains and NO free bodies, so that joint equalities / fixed tendons (the constraint kinds whose
    # trees are found by the generic Jacobian-row scan of treeNext) often join ADJACENT trees through a non-first dof of one
    # and a single dof of the next -- both Jacobian layouts (the scan has a dense and a sparse branch)
    for i in range(1200 if thorough else 160):
        nchain = rng.randint(2, 4)
        njeq = rng.randint(1, 3)
        ntd = rng.choice((0, 0, 1, 2))
        jac = 0 if i % 3 else 1
        seed = rng.randint(0, 10 ** 6)
        lines.append("scene %d %d %d %d %d %d %d %d %d %d %d" % (seed, 0, nchain, rng.choice((0, 0, 1)), njeq, ntd, jac, rng.randint(0, 1), rng.choice((0, 0, 1, 3)), 0, 0))
        k = "adjacent-chains:%s" % ("sparse" if jac else "dense")
        hist[k] = hist.get(k, 0) + 1
    ctx.extra["scene_distribution"] = hist
    return lines


def parse_dump(out):
    secs = out.split(" | ")
    d = dict(kv.split("=") for kv in secs[0].split())
    d = {k: int(v) for k, v in d.items()}
    for s in secs[1:]:
        s = s.strip()
        name, _, rest = s.partition(" ")
        if name == "rowdofs":
            d[name] = [ints(x) for x in rest.split(";")] if d["nefc"] else []
        elif name == "contact_trees":
            d[name] = [ints(x) for x in rest.split(";")] if d["ncon"] else []
        elif name in ("flexinfo", "flextrees"):
            d[name] = [ints(x) for x in rest.split(";")] if rest.strip() else []
        else:
            d[name] = ints(rest)
    return d


FLEX_EQ = (4, 5, 6)   # mjEQ_FLEX, mjEQ_FLEXVERT, mjEQ_FLEXSTRAIN: every scalar row has its own tree pattern


def constraints_of(d):
    """Group rows into constraints (consecutive rows with equal efc_type, efc_id; rows of flex equalities stay
    separate); trees per constraint from the non-zero Jacobian entries of all its rows.
    Returns list of (first_row, nrows, sorted tree list)."""
    out = []
    i, nefc = 0, d["nefc"]
    while i < nefc:
        j = i
        trees = set()
        single = d["efc_type"][i] == 0 and d["eq_type"][d["efc_id"][i]] in FLEX_EQ
        while j < nefc and d["efc_type"][j] == d["efc_type"][i] and d["efc_id"][j] == d["efc_id"][i] and not (single and j > i):
            trees |= {d["dof_treeid"][k] for k in d["rowdofs"][j]}
            j += 1
        if d["efc_type"][i] in CONTACT_TYPES:
            # a contact couples the trees of its two bodies even where a Jacobian block happens to be exactly zero
            # (e.g. a normal force through a hinge anchor): structural incidence from d->contact for geom-geom contacts
            ct = d["contact_trees"][d["efc_id"][i]]
            if -9 not in ct:
                trees |= {t for t in ct if t >= 0}
        out.append((i, j - i, sorted(trees)))
        i = j
    return out


def active_flexes(d):
    """Vertex trees of the stiffness-active flexes (deformable, dim >= 2, bending or non-zero stiffness)."""
    out = []
    for info, trees in zip(d.get("flexinfo", []), d.get("flextrees", [])):
        rigid, dim, stiffnz, bendadr, interp = info
        if rigid or dim < 2 or (bendadr < 0 and stiffnz <= 0) or interp:
            continue
        out.append(trees)
    return out


def island_line(d, cons):
    rows = []
    for (_i, nr, trees) in cons:
        rows.append(" ".join(map(str, trees)))
        rows += ["="] * (nr - 1)
    line = "island %d : %s : %s : %s" % (d["ntree"], " ".join(map(str, d["tree_dofnum"])),
                                         " ".join(map(str, d["dof_treeid"])), " ; ".join(rows))
    fl = active_flexes(d)
    if fl:
        line += " : " + " ; ".join(" ".join("%d/%d" % (t, d["tree_awake"][t] if t >= 0 else 1) for t in f) for f in fl)
    return line


ENGINE_FIELDS = ["tree_island", "island_ntree", "island_itreeadr", "map_itree2tree", "dof_island", "island_nv",
                 "island_idofadr", "map_dof2idof", "map_idof2dof", "island_dofadr", "efc_island", "island_nefc",
                 "island_iefcadr", "map_efc2iefc", "map_iefc2efc"]


def engine_canonical(d):
    if d["nisland"] == 0:
        return "none"
    return " : ".join(["%d %d" % (d["nisland"], d["nidof"])] + [" ".join(map(str, d[f])) for f in ENGINE_FIELDS])


def check_blocks(keys, nb, cnt, adr, fwd, inv, base, what):
    """Counting-sort map properties for one object kind. keys[x] = island of object x (-1 = none)."""
    n = len(keys)
    if sorted(inv) != list(range(n)):
        return "%s: inverse map is not a permutation" % what
    if fwd is not None:
        if sorted(fwd) != list(range(n)):
            return "%s: forward map is not a permutation" % what
        if any(inv[fwd[x]] != x for x in range(n)):
            return "%s: maps are not mutually inverse" % what
    pos = 0
    for k in range(nb):
        members = [x for x in range(n) if keys[x] == k]
        if cnt[k] != len(members) or adr[k] != pos:
            return "%s: island block address/size wrong" % what
        if inv[pos:pos + len(members)] != members:
            return "%s: island block does not list its members in ascending order" % what
        pos += len(members)
    if base is not None and base != pos:
        return "%s: start of the unconstrained block wrong" % what
    if inv[pos:] != [x for x in range(n) if keys[x] < 0]:
        return "%s: unconstrained block wrong" % what
    return None


def scene_oracle(d):
    """Independent oracle on the engine's arrays. Returns (verdict, detail): verdict None = holds, 'skip' = degenerate."""
    if d.get("warn"):
        return "skip", "arena/contact buffer full"
    ntree, nv, nefc = d["ntree"], d["nv"], d["nefc"]
    cons = constraints_of(d)
    # the oracle's incidence must agree with the structural one for contacts, otherwise the configuration is degenerate
    for (_i, _nr, trees) in cons:
        if not trees:
            return "skip", "constraint row with all-zero Jacobian"
    if any(info[4] for info in d.get("flexinfo", [])):
        return "skip", "interpolated flex"
    # coupling graph: trees sharing a constraint, and all awake dynamic vertex trees of a stiffness-active flex
    # (only if the flex has at least ... any such tree; a flex whose trees are otherwise unconstrained still forms an island)
    fgroups = [[t for t in f if t >= 0 and d["tree_awake"][t]] for f in active_flexes(d)]
    exp, nexp = expected_islands(ntree, [t for (_i, _n, t) in cons] + [g for g in fgroups if len(set(g)) > 1])
    if nefc == 0 or nexp == 0:
        return (None, "") if d["nisland"] == 0 else ("c17:nisland", "islands reported without constraints")
    if d["nisland"] != nexp:
        return "c17:nisland", "nisland=%d but the coupling graph has %d components" % (d["nisland"], nexp)
    if d["tree_island"] != exp:
        return "c17:tree_island", "tree_island is not the component numbering by ascending smallest tree"
    if d["dof_island"] != [exp[t] for t in d["dof_treeid"]]:
        return "c17:dof_island", "dof_island differs from the island of the dof's tree"
    efc_exp = []
    for (_i, nr, trees) in cons:
        isl = {exp[t] for t in trees}
        if len(isl) != 1:
            return "c17:oracle", "internal: constraint spans islands"
        efc_exp += [isl.pop()] * nr
    if d["efc_island"] != efc_exp:
        return "c17:efc_island", "efc_island differs from the island of the row's trees"
    if d["nidof"] != sum(1 for x in d["dof_island"] if x >= 0):
        return "c17:nidof", "nidof is not the number of constrained dofs"
    nb = d["nisland"]
    w = check_blocks(d["tree_island"], nb, d["island_ntree"], d["island_itreeadr"], None, d["map_itree2tree"], None, "trees")
    w = w or check_blocks(d["dof_island"], nb, d["island_nv"], d["island_idofadr"], d["map_dof2idof"], d["map_idof2dof"], d["nidof"], "dofs")
    w = w or check_blocks(d["efc_island"], nb, d["island_nefc"], d["island_iefcadr"], d["map_efc2iefc"], d["map_iefc2efc"], None, "efc")
    if w:
        return "c17:maps:" + w.split(":")[0], w
    for k in range(nb):
        if d["island_dofadr"][k] != min(x for x in range(nv) if d["dof_island"][x] == k):
            return "c17:island_dofadr", "island_dofadr is not the first dof of the island"
        rows = [r for r in range(nefc) if d["efc_island"][r] == k]
        if d["island_ne"][k] != sum(1 for r in rows if d["efc_type"][r] == 0) or \
           d["island_nf"][k] != sum(1 for r in rows if d["efc_type"][r] in (1, 2)):
            return "c17:island_ne_nf", "island_ne/island_nf miscount"
    if d["iefc_type"] != [d["efc_type"][c] for c in d["map_iefc2efc"]] or d["iefc_id"] != [d["efc_id"][c] for c in d["map_iefc2efc"]]:
        return "c17:iefc", "iefc_type/iefc_id are not the permuted efc arrays"
    return None, ""


ISLAND_FUNCS = ("mj_island", "mj_dsuMerge", "mj_dsuRoot", "mj_dsuAssign", "mj_floodFill", "treeIterInit", "treeNext",
                "unionConstraintTrees")


def run_scenes(ctx, drv, impl, lines, label="mj_island on mjSpec scenes vs Lean pipeline"):
    rc, outs, err = ctx.run_lines([impl], lines)
    if rc == 0 and len(outs) == len(lines):
        # an error/crash while *stepping* cannot be attributed to island discovery: look at the same scene without steps
        # (mj_fwdPosition only: constraints + mj_island); errors raised by the island code itself are kept
        lines = list(lines)
        redo = [k for k, (l, o) in enumerate(zip(lines, outs))
                if (o.startswith("crash") or (o.startswith("engine-error") and not o[13:].startswith(ISLAND_FUNCS)))
                and l.split()[9] != "0"]
        if redo:
            rl = []
            for k in redo:
                w = lines[k].split()
                w[9] = "0"
                rl.append(" ".join(w))
            rc2, o2, _ = ctx.run_lines([impl], rl)
            if rc2 == 0 and len(o2) == len(rl):
                for k, l2, oo in zip(redo, rl, o2):
                    ctx.extra.setdefault("unattributed_engine_errors_while_stepping", []).append({"line": lines[k], "output": outs[k][:160]})
                    lines[k], outs[k] = l2, oo
    if rc != 0 or len(outs) != len(lines):
        k = min(len(outs), len(lines) - 1)
        ctx.oracle_failure("c17:scene-crash", "engine crashed on a generated scene (rc=%s)" % rc,
                           {"line": lines[k], "stderr": err[-400:], "replay": "echo '%s' | <c17_island harness>" % lines[k]})
        return
    model_lines, model_exp, src = [], [], []
    stats = {"scenes": 0, "skipped": 0, "with_active_flex": 0, "flex_equality_rows": 0, "with_islands": 0, "max_nisland": 0, "max_ntree": 0, "max_nefc": 0, "engine_error": 0,
             "multi_island": 0, "with_unconstrained_tree": 0, "generic_scan_constraints": 0}
    nfail = 0
    for l, o in zip(lines, outs):
        if o.startswith("compile-error"):
            raise RuntimeError("scene does not compile: %s -> %s" % (l, o))
        if o.startswith("crash"):
            stats["engine_error"] += 1
            nfail += 1
            if nfail <= 5:
                ctx.oracle_failure("c17:scene-crash", "the engine crashed on a generated scene (%s)" % o,
                                   {"line": l, "replay": "echo '%s' | <c17_island harness>" % l})
            continue
        if o.startswith("engine-error") and not o[13:].startswith(ISLAND_FUNCS):
            # resource exhaustion etc. before islands are built at step 0: nothing to judge
            stats["skipped"] += 1
            stats.setdefault("skip_reasons", {})
            stats["skip_reasons"][o[:60]] = stats["skip_reasons"].get(o[:60], 0) + 1
            continue
        if o.startswith("engine-error"):
            stats["engine_error"] += 1
            nfail += 1
            if nfail <= 5:
                ctx.oracle_failure("c17:engine-error", "mj_forward raised an error: " + o[:200], {"line": l, "replay": "echo '%s' | <c17_island harness>" % l})
            continue
        try:
            d = parse_dump(o)
            verdict, detail = scene_oracle(d)
            cons = constraints_of(d)
        except (ValueError, IndexError, KeyError, TypeError) as e:
            nfail += 1
            if nfail <= 5:
                ctx.oracle_failure("c17:scene-garbage", "island arrays of the engine are not even well-formed (%s: %s)" % (type(e).__name__, str(e)[:80]),
                                   {"line": l, "replay": "echo '%s' | <c17_island harness>" % l})
            continue
        stats["scenes"] += 1
        if verdict == "skip":
            stats["skipped"] += 1
            stats.setdefault("skip_reasons", {})
            stats["skip_reasons"][detail] = stats["skip_reasons"].get(detail, 0) + 1
            continue
        stats["with_islands"] += d["nisland"] > 0
        stats["multi_island"] += d["nisland"] > 1
        stats["with_unconstrained_tree"] += d["nisland"] > 0 and -1 in d["tree_island"]
        stats["max_nisland"] = max(stats["max_nisland"], d["nisland"])
        stats["max_ntree"] = max(stats["max_ntree"], d["ntree"])
        stats["max_nefc"] = max(stats["max_nefc"], d["nefc"])
        stats["with_active_flex"] += bool(active_flexes(d)) and d["nisland"] > 0
        stats["flex_equality_rows"] += sum(1 for r in range(d["nefc"]) if d["efc_type"][r] == 0 and d["eq_type"][d["efc_id"][r]] in FLEX_EQ)
        stats["generic_scan_constraints"] += sum(1 for (i, _n, _t) in constraints_of(d) if d["efc_type"][i] in (2, 4) or
                                                 (d["efc_type"][i] == 0))
        if verdict:
            nfail += 1
            if nfail <= 5:
                ctx.oracle_failure(verdict, detail, {"line": l, "replay": "echo '%s' | <c17_island harness>" % l,
                                                     "nisland": d["nisland"], "tree_island": d.get("tree_island")})
        model_lines.append(island_line(d, cons))
        model_exp.append(engine_canonical(d))
        src.append(l)
    ctx.extra.setdefault("scene_stats", {}).update(stats)
    if drv and model_lines:
        rc, mo, err = ctx.run_lines([drv], model_lines)
        if rc != 0 or len(mo) != len(model_lines):
            raise RuntimeError("model driver failed on island lines: rc=%s %s" % (rc, err[-300:]))
        bad = [{"line": s, "model_input": ml[:300], "model": a[:600], "impl": b[:600]}
               for s, ml, a, b in zip(src, model_lines, mo, model_exp) if a != b]
        for s, ml in zip(src, model_lines):
            ctx.count(s)
        ctx.oblige("correspondence %s (%d scenes)" % (label, len(model_lines)), "correspondence", not bad, json.dumps(bad[:3]))
        if bad:
            ctx.disagreements += [dict(b, stream=label) for b in bad[:20]]
        if model_lines:
            k = max(range(len(model_lines)), key=lambda i: model_exp[i] != "none")
            ctx.sample({"scene": src[k], "model_input": model_lines[k][:160] + " ...", "engine_and_model_output": model_exp[k][:160] + " ..."})
    return nfail


# ------------------------------------------------------------------------------------------ run
def replay(ctx, drv, impl):
    """Re-run the op lines recorded in a replay file (failures[].replay.line / disagreements[].line)."""
    rp = json.load(open(ctx.replay))
    lines = []
    for f in rp.get("failures", []):
        l = (f.get("replay") or {}).get("line")
        if l and l not in lines:
            lines.append(l)
    for b in rp.get("disagreements", []):
        if b.get("line") and b["line"] not in lines:
            lines.append(b["line"])
    ops = [l for l in lines if l.startswith(("dsu", "ff"))]
    scenes = [l for l in lines if l.startswith("scene")]
    if ops:
        rc, outs, err = ctx.run_lines([impl], ops)
        ctx.differential("replayed ops vs Lean model", [drv], [impl], ops, keyf=keyf)
        for l, o in zip(ops, outs):
            why = dsu_oracle(l, o) if l.startswith("dsu") else ff_oracle(l, o)
            if why:
                ctx.oracle_failure("c17:%s:%s" % (l.split()[0], why), why, {"line": l, "impl_output": o[:3000]})
    if scenes:
        run_scenes(ctx, drv, impl, scenes, label="replayed scenes vs Lean pipeline")
    ctx.extra["replayed_lines"] = len(lines)


def keyf(line):
    return line if (";" in line or ":" in line) else None


def run(ctx):
    thorough = ctx.tier == "thorough"
    ctx.rule = ("dsu sessions: every (reachable parent array, operation) pair over small forests found by breadth-first "
                "exploration through the real mj_dsuMerge/mj_dsuRoot, plus seeded random sessions (chains, stars, blocks, "
                "static endpoints) on up to thousands of trees; ff: exhaustive tiny CSR matrices plus random graphs with gaps and "
                "shuffled row storage; scenes: random free bodies / jointed chains / equalities / tendons, dense and sparse "
                "Jacobian, both cones, 0-40 steps. A case is distinct by its full op line; non-trivial = has at least one op")
    ctx.lean_props(THEOREMS)
    drv = ctx.driver("drv_c17")
    impl = ctx.harness("harness/c/c17_island.c", "c17_island")
    if not (drv and impl):
        return
    if getattr(ctx, "replay", None):
        return replay(ctx, drv, impl)
    # ---- union-find: exhaustive over reachable states + random
    lines = []
    for n in ((1, 2, 3, 4, 5, 6) if thorough else (1, 2, 3, 4, 5)):
        lines += explore_states(ctx, impl, n)
    ctx.extra["exhaustive_small_scope"] = ("every parent array reachable from -1,…,-1 over <= %d trees x every mj_dsuMerge argument pair "
                                           "(incl. static -1) and every mj_dsuRoot call, each followed by mj_dsuAssign" % (6 if thorough else 5))
    lines += random_dsu(ctx, 3000 if thorough else 500, 2000 if thorough else 300)
    lines += ["dsu 3 1 1 1 ; m 0 3", "dsu 3 1 1 ; m 0 1", "dsu 2 1 1 ; r -1", "dsu 2 1 1 ; x 0 1", "frob"]
    rc, outs, err = ctx.run_lines([impl], lines)
    ctx.differential("mj_dsuMerge/mj_dsuRoot/mj_dsuAssign vs Lean model", [drv], [impl], lines, keyf=keyf)
    nfail = 0
    if rc == 0 and len(outs) == len(lines):
        for l, o in zip(lines, outs):
            why = dsu_oracle(l, o) if l.startswith("dsu") and o != "bad-op" else (None if o == "bad-op" else "malformed op accepted")
            if why:
                nfail += 1
                if nfail <= 5:
                    ctx.oracle_failure("c17:dsu:" + why, why, {"line": l[:3000], "impl_output": o[:3000],
                                                               "replay": "echo '%s' | <c17_island harness>" % l[:3000]})
        ctx.sample({"op": lines[len(lines) // 3][:200], "model_and_impl_output": outs[len(lines) // 3][:200]})
    else:
        ctx.oracle_failure("c17:dsu-crash", "union-find harness crashed (rc=%s)" % rc, {"stderr": err[-500:]})
    ctx.extra["dsu_lines"] = len(lines)
    # ---- flood fill
    fl = gen_ff(ctx)
    rc, outs, err = ctx.run_lines([impl], fl)
    ctx.differential("mj_floodFill vs Lean model", [drv], [impl], fl, keyf=keyf)
    if rc == 0 and len(outs) == len(fl):
        for l, o in zip(fl, outs):
            why = ff_oracle(l, o)
            if why:
                nfail += 1
                if nfail <= 8:
                    ctx.oracle_failure("c17:ff:" + why, why, {"line": l[:3000], "impl_output": o[:3000],
                                                              "replay": "echo '%s' | <c17_island harness>" % l[:3000]})
        ctx.sample({"op": fl[-5][:200], "model_and_impl_output": outs[-5][:200]})
    else:
        ctx.oracle_failure("c17:ff-crash", "flood-fill harness crashed (rc=%s)" % rc, {"stderr": err[-500:]})
    ctx.extra["ff_lines"] = len(fl)
    # ---- engine scenes
    sl = gen_scenes(ctx)
    nfail += run_scenes(ctx, drv, impl, sl) or 0
    ctx.extra["oracle_failures"] = nfail

    def directed(c):
        # a tie/proof obligation broke without an oracle hit: look harder on the engine with fresh scenes
        extra = []
        for i in range(300):
            extra.append("scene %d %d %d %d %d %d %d %d %d %d %d" % (c.rng.randint(0, 10 ** 6), c.rng.randint(1, 25), c.rng.randint(0, 10),
                         c.rng.randint(0, 4), c.rng.randint(0, 3), c.rng.randint(0, 3), c.rng.randint(0, 1), c.rng.randint(0, 1),
                         c.rng.choice((0, 1, 5)), c.rng.randint(0, 3), c.rng.choice((0, 0, 1, 2))))
        rc2, o2, _ = c.run_lines([impl], extra)
        if rc2 != 0:
            return None
        for l, o in zip(extra, o2):
            if o.startswith(("engine-error", "compile-error")):
                continue
            v, det = scene_oracle(parse_dump(o))
            if v and v != "skip":
                return {"key": v, "what": det, "replay": {"line": l, "replay": "echo '%s' | <c17_island harness>" % l}}
        return None
    ctx.directed_search = directed
    if thorough:
        ctx.leanchecker(["MjProof.Props.C17"])
